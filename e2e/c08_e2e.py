#!/usr/bin/env python3
"""End-to-end scenarios for property C08 with a real `sccache` binary, gcc and the disk cache (validation only).

A C file that compiles with a warning is cached; the server is stopped; ONE stored entry is damaged on disk; the
server is restarted and the same compile is repeated.  Reported per scenario: exit codes, whether the repeat was a
hit, whether the warning text is still in the repeat's stderr, whether the object equals a direct compile.

  payload   one byte inside the stored `stderr` member's data           (fixed by 2c824a5: must be a miss now)
  object    one byte inside the stored `obj` member's data              (always was a miss)
  truncate  the last byte of the entry cut off                          (must be a miss)
  dirname   one byte of the central-directory NAME `stderr`             (known finding C08-K1: hit, warning lost)

usage: c08_e2e.py <path-to-sccache> [scenario ...]     prints one JSON object; exit 0 always (the caller judges).
"""
import json
import os
import shutil
import socket
import struct
import subprocess
import sys
import tempfile
import time

SRC = 'int f(int x) { int unused_variable; return x + 1; }\n'


def free_port():
    s = socket.socket()
    s.bind(('127.0.0.1', 0))
    p = s.getsockname()[1]
    s.close()
    return p


def run(cmd, env, cwd):
    p = subprocess.run(cmd, env=env, cwd=cwd, stdout=subprocess.PIPE, stderr=subprocess.PIPE, timeout=180)
    return p.returncode, p.stdout.decode('utf-8', 'replace'), p.stderr.decode('utf-8', 'replace')


def stats(sccache, env, cwd):
    rc, out, _ = run([sccache, '--show-stats', '--stats-format', 'json'], env, cwd)
    try:
        j = json.loads(out[out.index('{"stats"'):].split('\n')[0])['stats']
        return {'hits': sum(j['cache_hits']['counts'].values()), 'misses': sum(j['cache_misses']['counts'].values()),
                'errors': sum(j['cache_errors']['counts'].values()), 'writes': j.get('cache_writes', 0)}
    except Exception:
        return {'raw': out[-300:]}


def entries(cache):
    out = []
    for root, _, names in os.walk(cache):
        if os.path.basename(root) == 'preprocessor' or '/preprocessor/' in root + '/':
            continue
        for n in names:
            p = os.path.join(root, n)
            try:
                if open(p, 'rb').read(4) == b'PK\x03\x04':
                    out.append(p)
            except OSError:
                pass
    return out


def layout(data):
    """(name, data_start, size, central_name_offset) per member, from the central directory"""
    e = data.rfind(b'PK\x05\x06')
    n, cd_size, cd_off = struct.unpack('<HII', data[e + 10:e + 20])
    pos = cd_off
    res = []
    for _ in range(n):
        (csize,) = struct.unpack('<I', data[pos + 20:pos + 24])
        nlen, xlen, clen = struct.unpack('<HHH', data[pos + 28:pos + 34])
        (off,) = struct.unpack('<I', data[pos + 42:pos + 46])
        name = data[pos + 46:pos + 46 + nlen]
        lnlen, lxlen = struct.unpack('<HH', data[off + 26:off + 30])
        res.append((name, off + 30 + lnlen + lxlen, csize, pos + 46))
        pos += 46 + nlen + xlen + clen
    return res


def damage(path, how):
    data = bytearray(open(path, 'rb').read())
    lay = {n: (s, z, c) for n, s, z, c in layout(bytes(data))}
    if how == 'payload':
        s, z, _ = lay[b'stderr']
        data[s + z - 1] ^= 0x20
    elif how == 'object':
        s, z, _ = lay[b'obj']
        data[s + z // 2] ^= 0x01
    elif how == 'truncate':
        data = data[:-1]
    elif how == 'dirname':
        _, _, c = lay[b'stderr']
        data[c + 5] = ord('s')
    open(path, 'wb').write(bytes(data))
    return sorted(n.decode('latin-1') for n in lay)


def scenario(sccache, how):
    root = tempfile.mkdtemp(prefix='c08-e2e-', dir='/dev/shm')
    env = {k: v for k, v in os.environ.items() if not k.startswith('SCCACHE_')}
    env.update({'SCCACHE_DIR': os.path.join(root, 'cache'), 'SCCACHE_SERVER_PORT': str(free_port()),
                'SCCACHE_IDLE_TIMEOUT': '120', 'SCCACHE_DIRECT': 'false',
                'SCCACHE_ERROR_LOG': os.path.join(root, 'server.log'), 'SCCACHE_LOG': 'debug'})
    src = os.path.join(root, 'src')
    os.makedirs(src)
    open(os.path.join(src, 'w.c'), 'w').write(SRC)
    old = time.time() - 30
    os.utime(os.path.join(src, 'w.c'), (old, old))
    res = {'how': how}
    cmd = ['gcc', '-Wall', '-c', 'w.c', '-o']
    try:
        run([sccache, '--start-server'], env, root)
        r1 = run([sccache] + cmd + ['first.o'], env, src)
        res['first'] = {'rc': r1[0], 'warning': 'unused_variable' in r1[2]}
        run([sccache, '--stop-server'], env, root)          # waits for the pending cache write
        es = entries(env['SCCACHE_DIR'])
        res['entries'] = len(es)
        if len(es) != 1:
            res['inconclusive'] = 'expected exactly one stored entry, found %d' % len(es)
            return res
        res['members'] = damage(es[0], how)
        run([sccache, '--start-server'], env, root)
        s0 = stats(sccache, env, src)
        r2 = run([sccache] + cmd + ['second.o'], env, src)
        s1 = stats(sccache, env, src)
        rd = run(cmd + ['direct.o'], env, src)
        rb = lambda n: open(os.path.join(src, n), 'rb').read() if os.path.exists(os.path.join(src, n)) else None
        res['second'] = {'rc': r2[0], 'warning': 'unused_variable' in r2[2], 'stderr_len': len(r2[2]),
                         'hit': s1.get('hits', 0) > s0.get('hits', 0), 'stats': [s0, s1],
                         'object_equals_direct': rb('second.o') == rb('direct.o'),
                         'direct_warning': 'unused_variable' in rd[2]}
    except Exception as ex:      # noqa
        res['inconclusive'] = repr(ex)
    finally:
        try:
            run([sccache, '--stop-server'], env, root)
        except Exception:
            pass
        shutil.rmtree(root, ignore_errors=True)
    return res


def main():
    sccache = os.path.abspath(sys.argv[1])
    which = sys.argv[2:] or ['payload', 'object', 'truncate', 'dirname']
    print(json.dumps([scenario(sccache, h) for h in which], indent=1))


if __name__ == '__main__':
    main()
