"""c09_e2e.py — end-to-end scenarios for C09 and C14: the real sccache server + real gcc.

C09: populate the cache with one compile, damage the cache behind the running server's back (per-file truncate /
overwrite / delete / replace-by-directory on the result entry and on the preprocessor-cache entry, the whole cache
directory removed or replaced by a plain file, a 1-byte size limit, read-only mode), compile again twice and compare
exit code, stdout, stderr and object file with a direct gcc run; a failing compilation is never answered from the
cache.  C14: mixed requests from concurrent clients against one server, then `--show-stats --stats-format=json`
against the client-side ledger and a log of real compiler invocations.

Nothing here asserts on timing.  Everything lives in a fresh directory under /dev/shm (or $TMPDIR).
The cache directory is configured through the config FILE: any SCCACHE_DIR-style variable would wipe the
[cache.disk.preprocessor_cache_mode] section (finding S20)."""
import json
import os
import shutil
import subprocess
import tempfile
import time
from concurrent.futures import ThreadPoolExecutor

def _blob(n):
    x, out = 12345, []
    for _ in range(n):
        x = (x * 1103515245 + 12345) % (1 << 31)
        out.append(str((x >> 16) & 255))
    return ','.join(out).encode()


# 3 KiB of data that does not compress: most of the stored object is literal bytes
MAIN_C = (b'#include "a.h"\nint f(int x) { int unused_variable; return A_VAL + x; }\n'
          b'const unsigned char blob[] = {' + _blob(3072) + b'};\n')
A_H = b'#define A_VAL 11\n'
BAD_C = b'#include "a.h"\nint g(void) { return A_VAL + ; }\n'
OTHER_C = b'#include "a.h"\nint h%d(void) { return A_VAL * %d; }\n'
FLAGS = ['-Wall', '-O1']


class ServerHung(Exception):
    """A client waited CLIENT_TIMEOUT seconds for the server without an answer."""


def hang_is_violation(fn):
    def wrapped(sccache, *a):
        try:
            return fn(sccache, *a)
        except (ServerHung, subprocess.TimeoutExpired):
            name = '%s(%s)' % (fn.__name__, ','.join(str(x) for x in a))
            return dict(name=a[0] if a and isinstance(a[0], str) and fn.__name__ == 'run_fault_scenario' else name,
                        violations=['the server never answered a request within %d s (hung): the build is stalled' % CLIENT_TIMEOUT],
                        notes=[])
    wrapped.__name__ = fn.__name__
    return wrapped


# how long a client may wait for the server (a compile of these sources takes well under a second)
CLIENT_TIMEOUT = 20


def scratch():
    return '/dev/shm' if os.path.isdir('/dev/shm') else tempfile.gettempdir()


def clean_env(extra):
    env = {k: v for k, v in os.environ.items() if not k.startswith('SCCACHE_') and k != 'SOURCE_DATE_EPOCH'}
    env.update(extra)
    return env


class Site:
    """One scratch directory with sources, a config file, a cache directory and (at most) one server."""

    def __init__(self, sccache, size='100000000', rw_mode=None, compiler='gcc'):
        self.sccache = sccache
        self.d = tempfile.mkdtemp(prefix='vh-c09e-', dir=scratch())
        self.src = os.path.join(self.d, 'src')
        os.makedirs(self.src)
        self.cache = os.path.join(self.d, 'cache')
        self.compiler = compiler
        self.proc = None
        self.hung = False
        self.write_config(size, rw_mode)
        for n, b in (('main.c', MAIN_C), ('a.h', A_H), ('bad.c', BAD_C)):
            open(os.path.join(self.src, n), 'wb').write(b)
        # headers must be older than the compilation start or the preprocessor-cache entry is not recorded
        old = time.time() - 100
        os.utime(os.path.join(self.src, 'a.h'), (old, old))
        self.env = {'SCCACHE_CONF': os.path.join(self.d, 'config'), 'SCCACHE_SERVER_UDS': os.path.join(self.d, 'sock'),
                    'SCCACHE_IDLE_TIMEOUT': '0', 'SCCACHE_NO_DAEMON': '1'}

    def write_config(self, size, rw_mode):
        cfg = '[cache.disk]\ndir = "%s"\nsize = %s\n' % (self.cache, size)
        if rw_mode:
            cfg += 'rw_mode = "%s"\n' % rw_mode
        cfg += '\n[cache.disk.preprocessor_cache_mode]\nuse_preprocessor_cache_mode = true\n'
        open(os.path.join(self.d, 'config'), 'w').write(cfg)

    def start(self):
        log = open(os.path.join(self.d, 'server.log'), 'ab')
        e = dict(self.env, SCCACHE_START_SERVER='1', SCCACHE_LOG='sccache=debug')
        self.proc = subprocess.Popen([self.sccache], env=clean_env(e), stdout=log, stderr=log, cwd=self.src)
        sock = os.path.join(self.d, 'sock')
        for _ in range(1500):
            if os.path.exists(sock) or self.proc.poll() is not None:
                break
            time.sleep(0.02)
        return os.path.exists(sock)

    def stop(self):
        if self.proc is None:
            return
        if self.hung:
            self.proc.kill()
        try:
            subprocess.run([self.sccache, '--stop-server'], env=clean_env(self.env), stdout=subprocess.DEVNULL,
                           stderr=subprocess.DEVNULL, timeout=5 if self.hung else 60)
        except Exception:
            pass
        try:
            self.proc.wait(timeout=20)
        except subprocess.TimeoutExpired:
            self.proc.kill()
            self.proc.wait()
        self.proc = None
        try:
            os.unlink(os.path.join(self.d, 'sock'))
        except OSError:
            pass

    def compile(self, source='main.c', out='o.o', extra_args=(), extra_env=None):
        outp = os.path.join(self.src, out)
        if os.path.isfile(outp):
            os.unlink(outp)
        e = dict(self.env)
        if extra_env:
            e.update(extra_env)
        if self.hung:
            raise ServerHung()
        try:
            r = subprocess.run([self.sccache, self.compiler] + FLAGS + list(extra_args) + ['-c', source, '-o', out],
                               env=clean_env(e), cwd=self.src, stdout=subprocess.PIPE, stderr=subprocess.PIPE,
                               timeout=CLIENT_TIMEOUT)
        except subprocess.TimeoutExpired:
            # the server never answered (the client waits for ever): reported by the caller as a differing result
            self.hung = True
            raise ServerHung()
        obj = open(outp, 'rb').read() if os.path.isfile(outp) else None
        return (r.returncode, r.stdout, r.stderr, obj)

    def direct(self, source='main.c', out='ref.o', extra_args=()):
        outp = os.path.join(self.src, out)
        if os.path.isfile(outp):
            os.unlink(outp)
        r = subprocess.run([self.compiler] + FLAGS + list(extra_args) + ['-c', source, '-o', out], env=clean_env({}),
                           cwd=self.src, stdout=subprocess.PIPE, stderr=subprocess.PIPE, timeout=300)
        obj = open(outp, 'rb').read() if os.path.isfile(outp) else None
        return (r.returncode, r.stdout, r.stderr, obj)

    def raw(self, args, extra_env=None):
        e = dict(self.env)
        if extra_env:
            e.update(extra_env)
        try:
            r = subprocess.run([self.sccache] + list(args), env=clean_env(e), cwd=self.src, stdout=subprocess.PIPE,
                               stderr=subprocess.PIPE, timeout=CLIENT_TIMEOUT)
        except subprocess.TimeoutExpired:
            self.hung = True
            raise ServerHung()
        return r.returncode, r.stdout, r.stderr

    def stats(self):
        r = subprocess.run([self.sccache, '--show-stats', '--stats-format=json'], env=clean_env(self.env),
                           stdout=subprocess.PIPE, stderr=subprocess.PIPE, timeout=CLIENT_TIMEOUT)
        return json.loads(r.stdout.decode())['stats']

    def entries(self):
        """(result entry files, preprocessor-cache entry files)"""
        res, pp = [], []
        for root, _, names in os.walk(self.cache):
            for n in names:
                p = os.path.join(root, n)
                if n.startswith('.sccachetmp'):
                    continue
                (pp if os.path.relpath(p, self.cache).startswith('preprocessor' + os.sep) else res).append(p)
        return sorted(res), sorted(pp)

    def cleanup(self):
        self.stop()
        shutil.rmtree(self.d, ignore_errors=True)


def zip_members(b):
    """[(name, data offset, stored size)] from the central directory of a zip archive."""
    eocd = b.rfind(b'PK\x05\x06')
    if eocd < 0:
        return []
    n = int.from_bytes(b[eocd + 10:eocd + 12], 'little')
    p = int.from_bytes(b[eocd + 16:eocd + 20], 'little')
    out = []
    for _ in range(n):
        if b[p:p + 4] != b'PK\x01\x02':
            break
        csize = int.from_bytes(b[p + 20:p + 24], 'little')
        nl = int.from_bytes(b[p + 28:p + 30], 'little')
        el = int.from_bytes(b[p + 30:p + 32], 'little')
        cl = int.from_bytes(b[p + 32:p + 34], 'little')
        lho = int.from_bytes(b[p + 42:p + 46], 'little')
        name = b[p + 46:p + 46 + nl]
        lnl = int.from_bytes(b[lho + 26:lho + 28], 'little')
        lel = int.from_bytes(b[lho + 28:lho + 30], 'little')
        out.append((name, lho + 30 + lnl + lel, csize))
        p += 46 + nl + el + cl
    return out


def zip_regions(b):
    """Offsets of structural fields of the FIRST member (the object file) and of the end record."""
    eocd = b.rfind(b'PK\x05\x06')
    cd = int.from_bytes(b[eocd + 16:eocd + 20], 'little')
    return {
        'lh_sig': 0, 'lh_flags': 6, 'lh_method': 8, 'lh_csize': 18, 'lh_namelen': 26, 'lh_name': 30,
        'cd_sig': cd, 'cd_flags': cd + 8, 'cd_method': cd + 10, 'cd_crc': cd + 16, 'cd_csize': cd + 20,
        'cd_usize': cd + 24, 'cd_namelen': cd + 28, 'cd_lho': cd + 42, 'cd_name': cd + 46,
        'eocd_sig': eocd, 'eocd_count': eocd + 10, 'eocd_cdsize': eocd + 12, 'eocd_cdoff': eocd + 16,
    }


def damage(path, how):
    if how.startswith('poke:'):
        # overwrite a structural field of the archive (see zip_regions); 'poke:cd_flags:1' sets the "encrypted" bit
        _, field, *rest = how.split(':')
        b = bytearray(open(path, 'rb').read())
        pos = zip_regions(bytes(b))[field]
        if rest:
            b[pos] ^= int(rest[0])
        else:
            for i in range(4 if field.endswith('_sig') else 1):
                b[pos + i] = (b[pos + i] + 1) % 256
        open(path, 'wb').write(bytes(b))
    elif how.startswith('flip'):
        # change bytes IN PLACE inside the stored data of the largest member (the object file): file length,
        # zip directory and local headers stay valid.  how = flip<permille>[x<count>]
        spec = how[4:].split('x')
        permille, count = int(spec[0]), int(spec[1]) if len(spec) > 1 else 1
        b = bytearray(open(path, 'rb').read())
        ms = sorted(zip_members(bytes(b)), key=lambda m: -m[2])
        if ms and ms[0][2] > 0:
            _, start, size = ms[0]
            for i in range(count):
                pos = start + min(size - 1, size * permille // 1000 + i)
                b[pos] = (b[pos] + 1) % 256
            open(path, 'wb').write(bytes(b))
    elif how == 'truncate':
        b = open(path, 'rb').read()
        open(path, 'wb').write(b[:max(1, len(b) // 2)])
    elif how == 'empty':
        open(path, 'wb').write(b'')
    elif how == 'overwrite':
        open(path, 'wb').write(b'\x07this is not a cache entry any more\n' * 3)
    elif how == 'delete':
        os.unlink(path)
    elif how == 'directory':
        os.unlink(path)
        os.mkdir(path)


# scenario name -> (target, how, restart server after the damage?)
FAULTS = {}
for _t in ('res', 'pp'):
    for _h in ('truncate', 'empty', 'overwrite', 'delete', 'directory'):
        FAULTS['%s_%s' % (_t, _h)] = (_t, _h, False)
for _t, _h in (('res', 'overwrite'), ('res', 'delete'), ('pp', 'truncate'), ('pp', 'overwrite'), ('both', 'overwrite')):
    FAULTS['%s_%s_restart' % (_t, _h)] = (_t, _h, True)
for _pm in (5, 150, 300, 450, 600, 750, 900, 995):
    FAULTS['res_flip%d' % _pm] = ('res', 'flip%d' % _pm, False)
FAULTS['res_flip500x4_restart'] = ('res', 'flip500x4', True)
for _f in ('lh_sig', 'lh_flags', 'lh_method', 'lh_csize', 'lh_namelen', 'lh_name', 'cd_sig', 'cd_method', 'cd_crc',
           'cd_csize', 'cd_usize', 'cd_namelen', 'cd_lho', 'cd_name', 'eocd_sig', 'eocd_count', 'eocd_cdsize',
           'eocd_cdoff'):
    FAULTS['res_poke_%s' % _f] = ('res', 'poke:%s' % _f, False)
FAULTS['res_poke_cd_flags_encrypted'] = ('res', 'poke:cd_flags:1', False)
FAULTS['res_poke_lh_flags_encrypted'] = ('res', 'poke:lh_flags:1', False)
FAULTS['res_poke_lh_sig_restart'] = ('res', 'poke:lh_sig', True)
FAULTS['both_truncate'] = ('both', 'truncate', False)
FAULTS['cache_dir_removed'] = ('dir', 'removed', False)
FAULTS['cache_dir_is_a_file'] = ('dir', 'file', False)
FAULTS['tiny_size_limit'] = ('cfg', 'size1', True)
FAULTS['read_only_mode'] = ('cfg', 'readonly', True)


def same(a, b):
    return a[0] == b[0] and a[1] == b[1] and a[2] == b[2] and a[3] == b[3]


def describe(r):
    return 'exit %s, stdout %r, stderr %r, object %s' % (
        r[0], r[1][:200], r[2][:300], 'absent' if r[3] is None else '%d bytes' % len(r[3]))


@hang_is_violation
def run_fault_scenario(sccache, name):
    """returns dict(name, violations=[...], notes=[...], stats=...)"""
    target, how, restart = FAULTS[name]
    s = Site(sccache)
    vs, notes = [], []
    try:
        ref = s.direct()
        if ref[0] != 0 or ref[3] is None:
            return dict(name=name, violations=[], notes=['direct gcc compile failed: ' + describe(ref)], skipped=True)
        if not s.start():
            return dict(name=name, violations=[], notes=['server did not start'], skipped=True)
        r0 = s.compile()
        if not same(r0, ref):
            vs.append('populating compile differs from direct gcc: %s vs %s' % (describe(r0), describe(ref)))
        res, pp = s.entries()
        if not res or not pp:
            notes.append('entries after the first compile: %d result, %d preprocessor' % (len(res), len(pp)))
        # ---- the damage
        if target in ('res', 'both'):
            for p in res:
                damage(p, how)
        if target in ('pp', 'both'):
            for p in pp:
                damage(p, how)
        if target == 'dir':
            shutil.rmtree(s.cache)
            if how == 'file':
                open(s.cache, 'wb').write(b'not a directory')
        if target == 'cfg':
            s.stop()
            if how == 'size1':
                s.write_config('1', None)
            else:
                s.write_config('100000000', 'READ_ONLY')
            if not s.start():
                vs.append('server does not start with the changed configuration')
        elif restart:
            s.stop()
            if not s.start():
                vs.append('server does not restart over the damaged cache')
        # ---- compiles after the damage
        before = s.stats()
        r1 = s.compile()
        if not same(r1, ref):
            vs.append('first compile after the damage: %s; direct gcc: %s' % (describe(r1), describe(ref)))
        r2 = s.compile()
        if not same(r2, ref):
            vs.append('second compile after the damage: %s; direct gcc: %s' % (describe(r2), describe(ref)))
        # a different unit: a plain miss must work, too
        open(os.path.join(s.src, 'other.c'), 'wb').write(OTHER_C % (1, 3))
        refo = s.direct('other.c', 'refo.o')
        r3 = s.compile('other.c', 'other.o')
        if not same(r3, refo):
            vs.append('compile of a new unit after the damage: %s; direct gcc: %s' % (describe(r3), describe(refo)))
        # a failing compilation: the compiler's own status and diagnostics, never cached
        refb = s.direct('bad.c', 'refb.o')
        b1 = s.compile('bad.c', 'bad.o')
        b2 = s.compile('bad.c', 'bad.o')
        for b in (b1, b2):
            if b[0] != refb[0] or b[2] != refb[2] or b[3] is not None:
                vs.append('failing compile: %s; direct gcc: %s' % (describe(b), describe(refb)))
        after = s.stats()
        d = lambda k: after[k] - before[k]
        hits = sum(after['cache_hits']['counts'].values()) - sum(before['cache_hits']['counts'].values())
        if d('compile_fails') != 2:
            vs.append('two failing compiles, compile_fails moved by %d (a failed compilation served from the cache?)' % d('compile_fails'))
        repairable = target in ('res', 'pp', 'both') and how != 'directory'
        if repairable and hits < 1:
            vs.append('the damaged entry was not re-populated: no cache hit for the repeated compile (stats delta: hits %d, '
                      'misses %d, write errors %d)' % (hits, sum(after['cache_misses']['counts'].values())
                                                       - sum(before['cache_misses']['counts'].values()), d('cache_write_errors')))
        if name == 'read_only_mode' and hits < 2:
            vs.append('read-only cache did not serve the stored entry (hits %d)' % hits)
        vs += stats_laws(after, 'after the scenario')
        return dict(name=name, violations=vs, notes=notes, stats=after, hits=hits)
    finally:
        s.cleanup()


@hang_is_violation
def run_first_touch_scenario(sccache, mode):
    """The cache directory cannot be opened when the server first touches its stores (a regular file in place of
    its parent directory), the fault is removed later: builds must work throughout, and after the repair a miss
    must store and its repeat must hit.  mode = 'empty' (never populated) | 'populated' (restart over a full cache)."""
    name = 'unusable_at_first_use_%s' % mode
    s = Site(sccache)
    vs, notes = [], []
    try:
        home = os.path.join(s.d, 'home')
        s.cache = os.path.join(home, 'cache')
        s.write_config('100000000', None)
        ref = s.direct()
        os.makedirs(home)
        if mode == 'populated':
            if not s.start():
                return dict(name=name, violations=[], notes=['server did not start'], skipped=True)
            r = s.compile()
            if not same(r, ref):
                vs.append('populating compile differs from direct gcc')
            s.stop()
            os.rename(home, home + '.saved')
        else:
            os.rmdir(home)
        open(home, 'wb').write(b'a regular file where a directory should be')
        if not s.start():
            return dict(name=name, violations=vs + ['server does not start while the cache directory is unusable'], notes=notes)
        for k in range(2):
            r = s.compile()
            if not same(r, ref):
                vs.append('compile %d while the cache directory is unusable: %s; direct gcc: %s' % (k, describe(r), describe(ref)))
        # ---- the fault is removed (same server)
        os.unlink(home)
        if mode == 'populated':
            os.rename(home + '.saved', home)
        else:
            os.makedirs(home)
        before = s.stats()
        r1 = s.compile()
        r2 = s.compile()
        open(os.path.join(s.src, 'other.c'), 'wb').write(OTHER_C % (1, 3))
        refo = s.direct('other.c', 'refo.o')
        r3 = s.compile('other.c', 'other.o')
        r4 = s.compile('other.c', 'other.o')
        for what, r, want in (('first', r1, ref), ('second', r2, ref), ('new unit', r3, refo), ('new unit again', r4, refo)):
            if not same(r, want):
                vs.append('%s compile after the repair: %s; direct gcc: %s' % (what, describe(r), describe(want)))
        after = s.stats()
        hits = sum(after['cache_hits']['counts'].values()) - sum(before['cache_hits']['counts'].values())
        werr = after['cache_write_errors'] - before['cache_write_errors']
        if hits < 2:
            vs.append('after the cache directory was repaired the cache is not used again: 4 fault-free compiles of 2 units gave '
                      '%d hits (expected >= 2), %d write errors, %d read errors' % (
                          hits, werr, after['cache_read_errors'] - before['cache_read_errors']))
        vs += stats_laws(after, 'after the scenario')
        return dict(name=name, violations=vs, notes=notes, hits=hits)
    finally:
        s.cleanup()


@hang_is_violation
def run_eviction_scenario(sccache, target):
    """An entry replaced by a directory while the size limit is so small that the next store must evict it
    (replace-by-directory + tiny size limit, both in the property's fault list).  target = 'pp' | 'res'.
    Entry sizes depend on path lengths only, so they are measured in a first site of the same shape."""
    name = '%s_directory_then_eviction' % target
    vs, notes = [], []
    probe = Site(sccache)
    try:
        open(os.path.join(probe.src, 'u0.c'), 'wb').write(OTHER_C % (0, 2))
        if not probe.start():
            return dict(name=name, violations=[], notes=['server did not start'], skipped=True)
        probe.compile('u0.c', 'u0.o')
        res, pp = probe.entries()
        files = pp if target == 'pp' else res
        if not files:
            return dict(name=name, violations=[], notes=['no %s entry after a compile' % target], skipped=True)
        size = max(os.path.getsize(p) for p in files)
        if target == 'pp':
            # the result store indexes (and evicts) the files below preprocessor/ as well (S18): leave room for
            # one result entry and one preprocessor entry, so that the first compile evicts nothing
            size += max(os.path.getsize(p) for p in res)
    finally:
        probe.cleanup()
    # room for exactly one entry of that kind
    s = Site(sccache, size=str(size + size // 8))
    try:
        for i in range(4):
            open(os.path.join(s.src, 'u%d.c' % i), 'wb').write(OTHER_C % (i, i + 2))
        refs = [s.direct('u%d.c' % i, 'ref%d.o' % i) for i in range(4)]
        if not s.start():
            return dict(name=name, violations=[], notes=['server did not start'], skipped=True)
        r = s.compile('u0.c', 'u0.o')
        if not same(r, refs[0]):
            vs.append('populating compile differs from direct gcc')
        res, pp = s.entries()
        files = pp if target == 'pp' else res
        if not files:
            notes.append('nothing to damage')
        for p in files:
            damage(p, 'directory')
        for i in (1, 2, 3, 0, 1):
            r = s.compile('u%d.c' % i, 'u%d.o' % i)
            if not same(r, refs[i]):
                vs.append('compile of unit %d after the damage: %s; direct gcc: %s' % (i, describe(r), describe(refs[i])))
                break
        try:
            st = s.stats()
            vs += stats_laws(st, 'after the scenario')
        except Exception as e:
            vs.append('--show-stats fails after the scenario (%s): the server cannot report its statistics any more' % type(e).__name__)
        return dict(name=name, violations=vs, notes=notes)
    finally:
        s.cleanup()


# ---------------------------------------------------------------- statistics (C14)

def stats_laws(st, where):
    vs = []
    tot = lambda k: sum(st[k]['counts'].values())
    adv = lambda k: sum(st[k]['adv_counts'].values())
    if st['compile_requests'] != st['requests_executed'] + st['requests_not_cacheable'] + st['requests_not_compile'] \
            + st['requests_unsupported_compiler']:
        vs.append('%s: compile_requests %d != executed %d + not_cacheable %d + not_compile %d + unsupported %d' % (
            where, st['compile_requests'], st['requests_executed'], st['requests_not_cacheable'],
            st['requests_not_compile'], st['requests_unsupported_compiler']))
    if st['requests_executed'] != tot('cache_hits') + tot('cache_errors') + st['compile_fails'] + st['compilations']:
        vs.append('%s: executed %d != hits %d + errors %d + compile_fails %d + compilations %d' % (
            where, st['requests_executed'], tot('cache_hits'), tot('cache_errors'), st['compile_fails'], st['compilations']))
    if st['cache_writes'] + st['cache_write_errors'] != tot('cache_misses'):
        vs.append('%s: cache_writes %d + cache_write_errors %d != cache_misses %d' % (
            where, st['cache_writes'], st['cache_write_errors'], tot('cache_misses')))
    for k in ('cache_hits', 'cache_misses', 'cache_errors'):
        if tot(k) != adv(k):
            vs.append('%s: %s per-language %d vs per-compiler %d' % (where, k, tot(k), adv(k)))
    if st['requests_not_cacheable'] != sum(st['not_cached'].values()):
        vs.append('%s: not_cached reasons do not sum to requests_not_cacheable' % where)
    if tot('cache_misses') + st['non_cacheable_compilations'] > st['compilations']:
        vs.append('%s: misses + non_cacheable_compilations exceed compilations' % where)
    if st['forced_recaches'] + st['cache_timeouts'] + st['cache_read_errors'] > tot('cache_misses'):
        vs.append('%s: qualified misses exceed cache_misses' % where)
    return vs


WRAPPER = '''#!/bin/sh
# logs every invocation, then runs the real compiler
echo "$@" >> "%s"
exec gcc "$@"
'''


@hang_is_violation
def run_stats_scenario(sccache, nclients, rounds, seed):
    """Concurrent clients with mixed requests against one server; the counters against the client-side ledger and
    against the log of real compiler runs."""
    s = Site(sccache)
    vs, notes = [], []
    try:
        bindir = os.path.join(s.d, 'bin')
        os.makedirs(bindir)
        log = os.path.join(s.d, 'invocations.log')
        open(log, 'w').close()
        wrapper = os.path.join(bindir, 'gcc')
        open(wrapper, 'w').write(WRAPPER % log)
        os.chmod(wrapper, 0o755)
        s.compiler = wrapper
        for i in range(nclients):
            open(os.path.join(s.src, 'u%d.c' % i), 'wb').write(OTHER_C % (i, i + 2))
        open(os.path.join(s.src, 'notacompiler'), 'w').write('#!/bin/sh\nexit 3\n')
        os.chmod(os.path.join(s.src, 'notacompiler'), 0o755)
        if not s.start():
            return dict(violations=[], notes=['server did not start'], skipped=True)
        ledger = {'requests': 0, 'executed': 0, 'fails': 0, 'not_compile': 0, 'not_cacheable': 0, 'unsupported': 0}
        x = [seed * 2654435761 % (1 << 32) or 1]

        def rnd(n):
            x[0] = (x[0] * 1103515245 + 12345) % (1 << 31)
            return (x[0] >> 8) % n

        plans = []
        for c in range(nclients):
            plan = []
            for _ in range(rounds):
                plan.append(['own', 'shared', 'bad', 'recache', 'nocache', 'link', 'multi', 'unsupported'][rnd(8)])
            plans.append(plan)

        def client(c):
            out = []
            for k, what in enumerate(plans[c]):
                if what == 'own':
                    r = s.compile('u%d.c' % c, 'u%d_%d.o' % (c, k))
                    out.append(('executed', r[0]))
                elif what == 'shared':
                    r = s.compile('main.c', 'm%d_%d.o' % (c, k))
                    out.append(('executed', r[0]))
                elif what == 'bad':
                    r = s.compile('bad.c', 'b%d_%d.o' % (c, k))
                    out.append(('fails', r[0]))
                elif what == 'recache':
                    r = s.compile('u%d.c' % c, 'u%d_%d.o' % (c, k), extra_env={'SCCACHE_RECACHE': '1'})
                    out.append(('executed', r[0]))
                elif what == 'nocache':
                    r = s.compile('u%d.c' % c, 'u%d_%d.o' % (c, k), extra_env={'SCCACHE_NO_CACHE': '1'})
                    out.append(('executed', r[0]))
                elif what == 'link':
                    rc, _, _ = s.raw([wrapper, '-shared', '-fPIC', 'u%d.c' % c, '-o', 'lib%d_%d.so' % (c, k)])
                    out.append(('not_compile', rc))
                elif what == 'multi':
                    rc, _, _ = s.raw([wrapper, '-c', 'u%d.c' % c, 'main.c'])
                    out.append(('not_cacheable', rc))
                else:
                    rc, _, _ = s.raw([os.path.join(s.src, 'notacompiler'), '-c', 'u%d.c' % c, '-o', 'x%d_%d.o' % (c, k)])
                    out.append(('unsupported', rc))
            return out

        s.raw(['--zero-stats'])
        open(log, 'w').close()
        with ThreadPoolExecutor(max_workers=nclients) as ex:
            outs = list(ex.map(client, range(nclients)))
        st = s.stats()
        for out in outs:
            for kind, rc in out:
                ledger['requests'] += 1
                if kind in ('executed', 'fails'):
                    ledger['executed'] += 1
                    if kind == 'fails':
                        ledger['fails'] += 1
                        if rc == 0:
                            vs.append('a failing compile returned 0')
                    elif rc != 0:
                        vs.append('a good compile returned %d' % rc)
                else:
                    ledger[kind] += 1
        vs += stats_laws(st, 'after %d concurrent clients' % nclients)
        for key, field in (('requests', 'compile_requests'), ('executed', 'requests_executed'), ('fails', 'compile_fails'),
                           ('not_compile', 'requests_not_compile'), ('not_cacheable', 'requests_not_cacheable'),
                           ('unsupported', 'requests_unsupported_compiler')):
            if st[field] != ledger[key]:
                vs.append('%s = %d, the clients made %d such requests' % (field, st[field], ledger[key]))
        # real compiler runs requested by the server: lines with -c and without -E (the clients' own fallback runs
        # for handed-back requests carry -shared or two inputs and are excluded)
        runs = 0
        for line in open(log):
            a = line.split()
            if '-c' in a and '-E' not in a and '-shared' not in a and sum(1 for t in a if t.endswith('.c')) == 1:
                runs += 1
        hits = sum(st['cache_hits']['counts'].values())
        if runs != st['compilations'] + st['compile_fails']:
            vs.append('the compiler really ran %d times, compilations + compile_fails = %d' % (
                runs, st['compilations'] + st['compile_fails']))
        if hits + runs + sum(st['cache_errors']['counts'].values()) != ledger['executed']:
            vs.append('hits %d + compiler runs %d + errors != executed requests %d' % (hits, runs, ledger['executed']))
        return dict(violations=vs, notes=notes, stats=st, ledger=ledger, runs=runs, hits=hits)
    finally:
        s.cleanup()
