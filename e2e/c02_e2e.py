#!/usr/bin/env python3
"""End-to-end scenarios for property C02 with a real `sccache` binary and clang (validation only; never a proof).

  S10a  `clang -x objective-c++ -c o.h` followed by `clang -x objective-c++-header -c o.h`:
        the second request must not be served the object file of the first.
  S16   preprocessor-cache ("direct") mode: compile, then compile again with CCC_OVERRIDE_OPTIONS="+-DFOO=2"
        (a variable of hash_key's allow-list): the second request must get the object a direct compile produces.

usage: c02_e2e.py <path-to-sccache> [s10a] [s16]        prints one JSON object; exit 0 always (the caller judges).
Everything lives in a fresh directory under /dev/shm; the server is started on a free port and stopped at the end.
"""
import json
import os
import shutil
import socket
import subprocess
import sys
import tempfile
import time


def free_port():
    s = socket.socket()
    s.bind(('127.0.0.1', 0))
    p = s.getsockname()[1]
    s.close()
    return p


def run(cmd, env, cwd):
    p = subprocess.run(cmd, env=env, cwd=cwd, stdout=subprocess.PIPE, stderr=subprocess.STDOUT, timeout=120)
    return p.returncode, p.stdout.decode('utf-8', 'replace')


def kind(path):
    try:
        h = open(path, 'rb').read(4)
    except OSError:
        return 'missing'
    return {b'\x7fELF': 'elf-object', b'CPCH': 'clang-pch'}.get(h, repr(h))


def stats(sccache, env, cwd):
    rc, out = run([sccache, '--show-stats', '--stats-format', 'json'], env, cwd)
    try:
        j = json.loads(out[out.index('{"stats"'):].split('\n')[0])['stats']
        return {'hits': sum(j['cache_hits']['counts'].values()), 'misses': sum(j['cache_misses']['counts'].values())}
    except Exception:
        return {'raw': out[-300:]}


def main():
    sccache = os.path.abspath(sys.argv[1])
    which = sys.argv[2:] or ['s10a', 's16']
    root = tempfile.mkdtemp(prefix='c02-e2e-', dir='/dev/shm')
    res = {}
    env = {k: v for k, v in os.environ.items() if not k.startswith('SCCACHE_') and k != 'CCC_OVERRIDE_OPTIONS'}
    conf = os.path.join(root, 'conf.toml')
    open(conf, 'w').write('[cache.disk]\ndir = "%s/cache"\nsize = 1073741824\n\n'
                          '[cache.disk.preprocessor_cache_mode]\nuse_preprocessor_cache_mode = true\n' % root)
    env.update({'SCCACHE_CONF': conf, 'SCCACHE_SERVER_PORT': str(free_port()), 'SCCACHE_IDLE_TIMEOUT': '120',
                'SCCACHE_LOG': 'debug', 'SCCACHE_ERROR_LOG': os.path.join(root, 'server.log')})
    src = os.path.join(root, 'src')
    os.makedirs(src)
    try:
        rc, out = run([sccache, '--start-server'], env, root)
        res['start'] = rc
        if 's10a' in which:
            open(os.path.join(src, 'o.h'), 'w').write('int f(void);\nstruct S { int a; };\n')
            old = time.time() - 30
            os.utime(os.path.join(src, 'o.h'), (old, old))
            r1 = run([sccache, 'clang', '-x', 'objective-c++', '-c', 'o.h', '-o', 'first.out'], env, src)
            s1 = stats(sccache, env, src)
            r2 = run([sccache, 'clang', '-x', 'objective-c++-header', '-c', 'o.h', '-o', 'second.out'], env, src)
            s2 = stats(sccache, env, src)
            r3 = run(['clang', '-x', 'objective-c++-header', '-c', 'o.h', '-o', 'direct.out'], env, src)
            res['s10a'] = {
                'rc': [r1[0], r2[0], r3[0]], 'first': kind(os.path.join(src, 'first.out')),
                'second_through_sccache': kind(os.path.join(src, 'second.out')),
                'second_direct': kind(os.path.join(src, 'direct.out')),
                'second_was_hit': s2.get('hits', 0) > s1.get('hits', 0), 'stats': [s1, s2],
                'wrong_result': kind(os.path.join(src, 'second.out')) != kind(os.path.join(src, 'direct.out')),
            }
        if 's16' in which:
            open(os.path.join(src, 'h.h'), 'w').write('#ifndef FOO\n#define FOO 1\n#endif\n')
            open(os.path.join(src, 'x.c'), 'w').write('#include "h.h"\nint f(void) { return FOO; }\n')
            old = time.time() - 30
            for f in ('h.h', 'x.c'):
                os.utime(os.path.join(src, f), (old, old))
            e2 = dict(env)
            e2['CCC_OVERRIDE_OPTIONS'] = '+-DFOO=2'
            s0 = stats(sccache, env, src)
            r1 = run([sccache, 'clang', '-c', 'x.c', '-o', 'plain.o'], env, src)
            r1b = run([sccache, 'clang', '-c', 'x.c', '-o', 'plain2.o'], env, src)
            s1 = stats(sccache, env, src)
            r2 = run([sccache, 'clang', '-c', 'x.c', '-o', 'override.o'], e2, src)
            s2 = stats(sccache, env, src)
            r3 = run(['clang', '-c', 'x.c', '-o', 'override_direct.o'], e2, src)
            r4 = run(['clang', '-c', 'x.c', '-o', 'plain_direct.o'], env, src)
            rd = lambda n: open(os.path.join(src, n), 'rb').read() if os.path.exists(os.path.join(src, n)) else None
            log = open(os.path.join(root, 'server.log'), errors='replace').read() if os.path.exists(os.path.join(root, 'server.log')) else ''
            res['s16'] = {
                'rc': [r1[0], r1b[0], r2[0], r3[0], r4[0]],
                'variable_changes_direct_compile': rd('override_direct.o') != rd('plain_direct.o'),
                'override_equals_direct_compile': rd('override.o') == rd('override_direct.o'),
                'override_equals_plain_object': rd('override.o') == rd('plain.o'),
                'third_request_was_hit': s2.get('hits', 0) > s1.get('hits', 0),
                'preprocessor_cache_hits_logged': log.count('Preprocessor cache hit'),
                'stats': [s0, s1, s2],
                'out': [r1[1][-200:], r2[1][-200:]],
            }
            res['s16']['stale_result'] = (res['s16']['variable_changes_direct_compile']
                                          and not res['s16']['override_equals_direct_compile'])
    finally:
        run([sccache, '--stop-server'], env, root)
        shutil.rmtree(root, ignore_errors=True)
    print(json.dumps(res, indent=1))


if __name__ == '__main__':
    main()
