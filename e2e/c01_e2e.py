"""c01_e2e.py — end-to-end leg of property C01: the real `sccache` binary against the real gcc / clang.

Every request of a generated history is executed twice in the SAME directory with the same files, environment and
command line: once directly with the compiler, once through `sccache`; the tree is restored to the pre-request state in
between.  Compared: exit status, stdout, stderr, and name / bytes / permission bits of every file the run created or
changed.  Nothing is normalised.  The extracted model (modelrun-C01, leg `parse`) predicts cacheable vs pass-through for
every request; `sccache --show-stats` deltas are checked against that prediction and against the must-hit rule (an
identical request on identical inputs that was stored before must be answered from the cache).
"""
import hashlib
import json
import os
import shutil
import stat
import subprocess
import time

ROOT_PREFIX = '/dev/shm/c01-e2e-'
BASE_MTIME = 1_600_000_000


# ------------------------------------------------------------------ processes

def run(cmd, cwd, env, timeout=120):
    try:
        p = subprocess.run(cmd, cwd=cwd, env=env, stdout=subprocess.PIPE, stderr=subprocess.PIPE, timeout=timeout,
                           stdin=subprocess.DEVNULL)
        return p.returncode, p.stdout, p.stderr
    except subprocess.TimeoutExpired:
        return 124, b'', b'[timeout]'


def servers_with_env(marker):
    """pids of live (non-zombie) processes whose environment mentions `marker` and that are sccache servers"""
    out = []
    for pid in os.listdir('/proc'):
        if not pid.isdigit():
            continue
        try:
            st = open('/proc/%s/stat' % pid).read()
            state = st[st.rindex(')') + 2]
            if state == 'Z':
                continue
            env = open('/proc/%s/environ' % pid, 'rb').read()
        except Exception:
            continue
        if marker.encode() in env and b'SCCACHE_START_SERVER=1' in env:
            out.append(int(pid))
    return out


class Server:
    def __init__(self, sccache, root, port, direct, pp_options=None):
        self.sccache = sccache
        self.cache = os.path.join(root, 'cache')
        self.port = port
        self.direct = direct
        os.makedirs(self.cache, exist_ok=True)
        self.base_env = {
            'PATH': '/usr/local/bin:/usr/bin:/bin', 'HOME': root, 'LANG': 'C', 'TMPDIR': os.path.join(root, 'tmp'),
            'SCCACHE_DIR': self.cache, 'SCCACHE_SERVER_PORT': str(port), 'SCCACHE_IDLE_TIMEOUT': '0',
            'SCCACHE_DIRECT': 'true' if direct else 'false', 'SCCACHE_CACHE_SIZE': '200M',
        }
        os.makedirs(self.base_env['TMPDIR'], exist_ok=True)
        self.marker = 'SCCACHE_DIR=' + self.cache
        # variables of the environment the SERVER is started in and that no client has: they must never reach a compiler
        self.server_only = {}
        if pp_options is not None:
            # options of [cache.disk.preprocessor_cache_mode] only take effect when NO disk-cache variable is in the environment
            conf = os.path.join(root, 'sccache.conf')
            with open(conf, 'w') as fh:
                fh.write('[cache.disk]\ndir = "%s"\nsize = 209715200\n\n[cache.disk.preprocessor_cache_mode]\n'
                         'use_preprocessor_cache_mode = %s\n%s' % (self.cache, 'true' if direct else 'false', pp_options))
            for k in ('SCCACHE_DIR', 'SCCACHE_DIRECT', 'SCCACHE_CACHE_SIZE'):
                del self.base_env[k]
            self.base_env['SCCACHE_CONF'] = conf
            self.marker = 'SCCACHE_CONF=' + conf

    def env(self, extra=None):
        e = dict(self.base_env)
        if extra:
            e.update(extra)
        return e

    def start(self):
        for attempt in range(6):
            rc, out, err = run([self.sccache, '--start-server'], '/', self.env(self.server_only), 60)
            if rc == 0:
                return
            if b'ddress in use' in err or b'ddress in use' in out:
                # somebody else's socket (or our own previous server still closing): wait, then move to another port
                time.sleep(0.5)
                if attempt >= 1:
                    self.port += 1013
                    self.base_env['SCCACHE_SERVER_PORT'] = str(self.port)
                continue
            break
        raise RuntimeError('cannot start server on port %d: %r %r' % (self.port, out, err))

    def stop(self):
        run([self.sccache, '--stop-server'], '/', self.env(), 60)

    def kill_leftovers(self):
        for pid in servers_with_env(self.marker):
            try:
                os.kill(pid, 9)
            except OSError:
                pass

    def stats(self):
        rc, out, err = run([self.sccache, '--show-stats', '--stats-format=json'], '/', self.env(), 60)
        try:
            s = json.loads(out.decode())['stats']
        except Exception:
            return None

        def total(x):
            if isinstance(x, dict):
                c = x.get('counts', x)
                return sum(v for v in c.values() if isinstance(v, int))
            return x if isinstance(x, int) else 0
        return {k: total(s.get(k, 0)) for k in ('compile_requests', 'requests_executed', 'cache_hits', 'cache_misses',
                                                'requests_not_cacheable', 'requests_not_compile', 'cache_errors',
                                                'non_cacheable_compilations', 'forced_recaches', 'compile_fails',
                                                'requests_unsupported_compiler', 'cache_timeouts', 'cache_read_errors')}


# ------------------------------------------------------------------ trees

def snapshot(d):
    snap = {}
    for root, dirs, files in os.walk(d):
        for f in files:
            p = os.path.join(root, f)
            rel = os.path.relpath(p, d)
            st = os.lstat(p)
            snap[rel] = (open(p, 'rb').read(), stat.S_IMODE(st.st_mode), st.st_mtime_ns)
    return snap


def changed(before, after):
    """files created, changed (content or mode) or re-written (mtime) between two snapshots"""
    out = {}
    for k, (b, m, t) in after.items():
        if k not in before or before[k][0] != b or before[k][1] != m or before[k][2] != t:
            out[k] = (b, m)
    for k in before:
        if k not in after:
            out[k] = None           # deleted
    return out


def restore(d, before):
    now = snapshot(d)
    for k in now:
        if k not in before:
            os.remove(os.path.join(d, k))
    for k, (b, m, t) in before.items():
        p = os.path.join(d, k)
        if k not in now or now[k][0] != b or now[k][1] != m or now[k][2] != t:
            os.makedirs(os.path.dirname(p), exist_ok=True)
            with open(p, 'wb') as fh:
                fh.write(b)
            os.chmod(p, m)
            os.utime(p, ns=(t, t))


def write_file(d, rel, content, clock):
    p = os.path.join(d, rel)
    os.makedirs(os.path.dirname(p), exist_ok=True)
    with open(p, 'wb') as fh:
        fh.write(content)
    t = BASE_MTIME + clock * 100
    os.utime(p, (t, t))


# ------------------------------------------------------------------ generated translation units

def gen_tree(rng, cxx):
    v = {k: rng.range(1, 9) for k in ('h1', 'h1b', 'h2', 'alt', 'src', 'pre')}
    files = {}
    files['inc/h1.h'] = ('#ifndef H1_H\n#define H1_H\n#define H1_VAL %d\n#include_next <h1.h>\n'
                         'static inline int h1(int x) { return x * H1_VAL + H1B_VAL; }\n#endif\n' % v['h1']).encode()
    files['inc2/h1.h'] = ('#ifndef H1B_H\n#define H1B_H\n#define H1B_VAL %d\n#endif\n' % v['h1b']).encode()
    files['incalt/h1.h'] = ('#ifndef H1_H\n#define H1_H\n#define H1_VAL %d\n#define H1B_VAL 0\n'
                            'static inline int h1(int x) { return x - H1_VAL; }\n#endif\n' % (v['alt'] + 10)).encode()
    files['inc/h2.h'] = ('#ifndef H2_H\n#define H2_H\nstruct h2 { int a; long b; };\n#define H2_VAL %d\n#endif\n' % v['h2']).encode()
    files['inc2/h2.h'] = ('#ifndef H2_H\n#define H2_H\nstruct h2 { int a; long b; };\n#define H2_VAL %d\n#endif\n' % (v['h2'] + 20)).encode()
    files['pre.h'] = ('#define PRE %d\n' % v['pre']).encode()
    # a header that only the include-path ENVIRONMENT (CPATH, C_INCLUDE_PATH, CPLUS_INCLUDE_PATH) can reach, in two versions
    files['sdk1/envhdr.h'] = ('#define ENV_VAL %d\n' % (v['h1'] + 30)).encode()
    files['sdk2/envhdr.h'] = ('#define ENV_VAL %d\n' % (v['h1'] + 40)).encode()
    body = ['#include <stddef.h>', '#include "h1.h"', '#include "h2.h"', '#ifndef NAME', '#define NAME 3', '#endif',
            '#if defined(__has_include)', '#if __has_include(<envhdr.h>)', '#include <envhdr.h>', '#endif', '#endif',
            '#ifndef ENV_VAL', '#define ENV_VAL 0', '#endif']
    if cxx:
        body += ['namespace { int hidden(int q) { return q + %d; } }' % v['src'], 'extern "C" int f(int a);']
    body += ['int f(int a) {', '  int unused_var;', '  struct h2 s; s.a = a; s.b = (long)sizeof(size_t);',
             '  return h1(s.a) + NAME + H2_VAL + ENV_VAL + (int)s.b + %d' % v['src']]
    if cxx:
        body += ['    + hidden(a)']
    body += ['#ifdef PRE', '    + PRE', '#endif', '  ;', '}', '#ifdef ERR', 'int g(void) { return undeclared_identifier; }', '#endif',
             '#ifdef WARN', '#warning "generated warning"', '#endif']
    files['src.cpp' if cxx else 'src.c'] = ('\n'.join(body) + '\n').encode()
    files['other.c'] = b'int other(void) { return 1; }\n'
    return files


def bump_digit(content, rng):
    """same-size edit: change one digit of a `#define X n` / constant"""
    idx = [i for i, c in enumerate(content) if 48 <= c <= 57 and (i == 0 or content[i - 1] == 32) and (i + 1 == len(content) or content[i + 1] in b'\n )')]
    if not idx:
        return content + b'\n'
    i = rng.choice(idx)
    nd = (content[i] - 48 + rng.range(1, 8)) % 9 + 49 if content[i] != 48 else 49
    if nd == content[i]:
        nd = 49 + (content[i] - 48) % 9
    return content[:i] + bytes([nd]) + content[i + 1:]


# ------------------------------------------------------------------ flag sets

class Flags:
    def __init__(self, rng, compiler, cxx):
        self.compiler = compiler
        self.clang = 'clang' in compiler
        self.cxx = cxx
        self.src = 'src.cpp' if cxx else 'src.c'
        self.opt = rng.choice([[], ['-O0'], ['-O2'], ['-Os']])
        self.define = rng.choice([None, 1, 2])
        self.define_sep = rng.chance(1, 4)
        self.undef = rng.chance(1, 4)        # `-UNAME` AFTER the -D: the later option wins, NAME falls back to the unit's default
        self.warn = rng.chance(1, 3)
        self.err = False
        self.inc_form = rng.choice(['joined', 'separate', 'iquote'])
        self.alt = False
        self.forced = rng.chance(1, 4)
        self.std = rng.choice([None] + (['-std=c++14', '-std=gnu++17'] if cxx else ['-std=c11', '-std=gnu11', '-std=c99']))
        self.xlang = None
        self.misc = [f for f in ('-g', '-fPIC', '-Wall', '-Wextra', '-pedantic') if rng.chance(1, 3)]
        if rng.chance(1, 2) and '-Wall' not in self.misc:
            self.misc.append('-Wall')
        self.dep = rng.choice([[], [], ['-MD'], ['-MD', '-MF', 'out.d'], ['-MMD', '-MT', 'tgt'], ['-MD', '-MT', 'a', '-MT', 'b'],
                               ['-MD', '-MP'], ['-MMD', '-MQ', 'q$t']])
        self.out = rng.choice(['out.o', 'out.o', 'sub/out.o', None, 'JOINED'])
        self.extra = []
        r = rng.below(14)
        if r == 5 and not rng.chance(1, 3):
            r = 13
        if r == 0:
            self.extra = ['-gsplit-dwarf']
        elif r == 1:
            self.extra = ['--coverage']
        elif r == 2 and self.clang:
            self.extra = ['--serialize-diagnostics', 'diag.dia']
        elif r == 3:
            self.extra = ['-fdiagnostics-color=always']
        elif r == 4:
            self.extra = ['-Wp,-DWPDEF=1', '-Xpreprocessor', '-DXPDEF=2']
        elif r == 5:
            self.extra = ['-Werror']
        elif r == 6 and self.clang:
            self.extra = ['-Xclang', '-fno-validate-pch']
        elif r == 7:
            self.extra = ['-ftest-coverage', '-fprofile-arcs']
        elif r == 8 and self.clang and cxx:
            self.extra = ['-stdlib=libstdc++']
        self.mode = ['-c']
        self.diag = []

    def args(self, out_override=None, define_override=None):
        a = []
        if self.xlang:
            a += ['-x', self.xlang]
        a += self.opt
        d = self.define if define_override is None else define_override
        if d is not None:
            a += ['-D', 'NAME=%d' % d] if self.define_sep else ['-DNAME=%d' % d]
            if self.undef:
                a += ['-UNAME'] if d % 2 else ['-U', 'NAME']
        if self.warn:
            a.append('-DWARN')
        if self.err:
            a.append('-DERR')
        first = 'incalt' if self.alt else 'inc'
        if self.inc_form == 'joined':
            a += ['-I' + first, '-Iinc2']
        elif self.inc_form == 'separate':
            a += ['-I', first, '-I', 'inc2']
        else:
            a += ['-iquote', first, '-I' + first, '-isystem', 'inc2']
        if self.forced:
            a += ['-include', 'pre.h']
        if self.std:
            a.append(self.std)
        dep = list(self.dep)
        if out_override is not None:
            dep = [(out_override + '.d') if x == 'out.d' else x for x in dep]
        extra = list(self.extra)
        if out_override is not None:
            extra = [(out_override + '.dia') if x == 'diag.dia' else x for x in extra]
        a += self.misc + dep + extra + self.diag
        a += self.mode
        a.append(self.src)
        out = self.out if out_override is None else out_override
        if out == 'JOINED':
            a.append('-oout.o')
        elif out is not None and self.mode == ['-c']:
            a += ['-o', out]
        return a


# ------------------------------------------------------------------ one history

class Verdict:
    def __init__(self):
        self.requests = 0
        self.violations = []      # (kind, detail, replay)
        self.known = {}
        self.hist = {}
        self.samples = []

    def count(self, k, n=1):
        self.hist[k] = self.hist.get(k, 0) + n


def describe_diff(a, b):
    ra, oa, ea, fa = a
    rb, ob, eb, fb = b
    d = []
    if ra != rb:
        d.append('exit status %d (direct) vs %d (wrapped)' % (ra, rb))
    if oa != ob:
        d.append('stdout differs: direct %r wrapped %r' % (oa[:200], ob[:200]))
    if ea != eb:
        d.append('stderr differs: direct %r wrapped %r' % (ea[:300], eb[:300]))
    for k in sorted(set(fa) | set(fb)):
        x, y = fa.get(k, 'absent'), fb.get(k, 'absent')
        if x != y:
            def s(z):
                if z == 'absent':
                    return 'absent'
                if z is None:
                    return 'deleted'
                return '%d bytes sha %s mode %o' % (len(z[0]), hashlib.sha1(z[0]).hexdigest()[:10], z[1])
            d.append('output %s: direct %s, wrapped %s' % (k, s(x), s(y)))
    return d


def preprocess_failure_class(direct, wrapped):
    """finding C01-S33: the compile fails in sccache's separate preprocessor run: same exit status, the wrapped stderr is
    the preprocessor's part of the direct stderr, stale outputs that the direct run left alone are removed"""
    if direct[0] == 0 or wrapped[0] != direct[0] or direct[1] != wrapped[1]:
        return False
    import re
    summary = re.compile(rb'^\d+ (warning|error)s?( and \d+ (warning|error)s?)? generated\.$')
    sgr = re.compile(rb'\x1b\[[0-9;]*[mK]')

    def nl(l):
        # the -E run reports driver-level remarks with their own severity (a warning that -Werror promotes only in the real
        # compile) and numbers the `<command line>` buffer differently (finding C01-S37)
        l = sgr.sub(b'', l)
        l = re.sub(rb'<(command line|built-in)>:\d+', rb'<\1>:N', l)
        l = re.sub(rb' \[-Werror[^\]]*\]$', b'', l.replace(b'error: ', b'warning: '))
        return l
    dl = [nl(l) for l in direct[2].split(b'\n') if not summary.match(sgr.sub(b'', l))]
    if any(nl(l) not in dl for l in wrapped[2].split(b'\n') if not summary.match(sgr.sub(b'', l))):
        return False
    for k in set(direct[3]) | set(wrapped[3]):
        x, y = direct[3].get(k, 'absent'), wrapped[3].get(k, 'absent')
        # stale outputs removed by sccache / side outputs (.dia) the failing direct run still wrote
        if x != y and not (y is None or y == 'absent'):
            return False
    return True


def elf_sections(b):
    """(name, offset, size) of the sections of an ELF64 little-endian object"""
    import struct
    if b[:6] != b'\x7fELF\x02\x01':
        return []
    shoff, = struct.unpack_from('<Q', b, 0x28)
    shentsize, shnum, shstrndx = struct.unpack_from('<HHH', b, 0x3a)
    secs = []
    for i in range(shnum):
        name, typ, flags, addr, off, size = struct.unpack_from('<IIQQQQ', b, shoff + i * shentsize)
        secs.append((name, off, size))
    if shstrndx >= len(secs):
        return []
    so, ss = secs[shstrndx][1], secs[shstrndx][2]
    strtab = b[so:so + ss]
    out = []
    for name, off, size in secs:
        e = strtab.find(b'\0', name)
        out.append((strtab[name:e].decode('latin-1'), off, size))
    return out


def source_md5_class(direct, wrapped):
    """finding C01-S36: the only difference is inside .debug_line of same-sized objects (clang -g, DWARF 5: MD5 of the
    source files), i.e. an edit that does not change the preprocessed text was answered from the cache"""
    if direct[0] != 0 or wrapped[0] != 0 or direct[1] != wrapped[1] or direct[2] != wrapped[2]:
        return False
    if set(direct[3]) != set(wrapped[3]):
        return False
    found = False
    for k in direct[3]:
        x, y = direct[3][k], wrapped[3][k]
        if x == y:
            continue
        if not x or not y or x[1] != y[1] or len(x[0]) != len(y[0]):
            return False
        secs = [(o, o + n) for name, o, n in elf_sections(x[0]) if name == '.debug_line']
        if not secs:
            return False
        for i in range(len(x[0])):
            if x[0][i] != y[0][i] and not any(a <= i < b for a, b in secs):
                return False
        found = True
    return found


def command_line_numbering_class(direct, wrapped):
    """finding C01-S37: everything equal except the line numbers inside clang's synthetic `<command line>` buffer quoted by a
    diagnostic (sccache emits the forced includes before the defines, so the buffer is laid out differently)"""
    import re
    if direct[0] != wrapped[0] or direct[1] != wrapped[1] or direct[3] != wrapped[3] or direct[2] == wrapped[2]:
        return False
    norm = lambda b: re.sub(rb'<command line>:\d+:', b'<command line>:N:', re.sub(rb'<built-in>:\d+:', b'<built-in>:N:', b))
    return norm(direct[2]) == norm(wrapped[2])


def elf_nondebug(b):
    """the sections of an object that do not carry debug information, by name"""
    secs = elf_sections(b)
    if not secs:
        return None
    return [(n, b[o:o + z]) for n, o, z in secs if not n.startswith(('.debug', '.rela.debug', '.shstrtab', '.strtab', '.symtab')) and n]


def stale_line_numbers_class(direct, wrapped):
    """finding C01-S39: outside preprocessor-cache mode the key is the `-E -P` text, which has no line information; after an edit
    that only moves lines (blank lines, comments) the request is a hit and replays diagnostics and debug line tables with the OLD
    line numbers.  Recognised as: everything equal except line / column numbers in stderr and the debug sections of objects."""
    import re
    if direct[0] != wrapped[0] or direct[1] != wrapped[1] or set(direct[3]) != set(wrapped[3]):
        return False
    sgr = re.compile(rb'\x1b\[[0-9;]*[mK]')

    def norm(b):
        b = sgr.sub(b'', b)
        b = re.sub(rb'(?m)^\s*\d+ \|', b' N |', b)
        return re.sub(rb':\d+', b':N', b)
    if sgr.findall(direct[2]) != sgr.findall(wrapped[2]):
        return False                  # the rendering itself (colour escapes) must be the same
    nd, nw = norm(direct[2]), norm(wrapped[2])
    if nd != nw:
        # carets / underlines may move with the column; compare without the marker lines
        strip = lambda b: b'\n'.join(l for l in b.split(b'\n') if set(l.strip()) - set(b'^~| N'))
        if strip(nd) != strip(nw):
            return False
    changed_something = direct[2] != wrapped[2]
    for k in direct[3]:
        x, y = direct[3][k], wrapped[3][k]
        if x == y:
            continue
        if not x or not y or x[1] != y[1]:
            return False
        if k.endswith('.dia') and len(x[0]) == len(y[0]):
            changed_something = True          # serialized diagnostics carry the same line numbers
            continue
        a, b = elf_nondebug(x[0]), elf_nondebug(y[0])
        if a is None or b is None or a != b:
            return False
        changed_something = True
    return changed_something


def predict(model_fn, kind, args, rsp_files):
    """cacheable / cannot_cache / not_compilation according to the extracted model"""
    return model_fn(kind, args, rsp_files)


def mask_unreproducible(verdict, tree, before, direct, wrapped, rerun_direct):
    """A compiler output that is not reproducible between two DIRECT runs (gcc's per-run stamp in coverage objects, .gcno files
    and in the assembly written by -S; anything else of that kind) cannot be compared byte for byte and must never be reported:
    whenever the direct and the wrapped run differ in stdout, stderr or the bytes of a file, the direct run is repeated (tree
    restored, more than a second later) and every artifact in which the two DIRECT runs differ is masked in both results -
    presence, mode and everything reproducible stay compared."""
    if direct[0] != wrapped[0]:
        return direct, wrapped
    files = [k for k in direct[3] if k in wrapped[3] and direct[3][k] and wrapped[3][k] and direct[3][k][0] != wrapped[3][k][0]]
    if not files and direct[1] == wrapped[1] and direct[2] == wrapped[2]:
        return direct, wrapped
    now = snapshot(tree)
    restore(tree, before)
    time.sleep(1.1)           # gcc's stamp has a resolution of one second
    rc2, o2, e2 = rerun_direct()
    second = changed(before, snapshot(tree))
    restore(tree, now)
    if rc2 != direct[0]:
        verdict.count('unreproducible-direct.exit-status')
        return direct, direct                      # nothing about this request can be judged
    mask = b'<differs between two direct runs>'
    d_out, w_out, d_err, w_err = direct[1], wrapped[1], direct[2], wrapped[2]
    if o2 != direct[1]:
        verdict.count('unreproducible-direct.stdout')
        d_out = w_out = mask
    if e2 != direct[2]:
        verdict.count('unreproducible-direct.stderr')
        d_err = w_err = mask
    df, wf = dict(direct[3]), dict(wrapped[3])
    for k in files:
        if k in second and second[k] and second[k][0] != direct[3][k][0]:
            verdict.count('unreproducible-direct.file')
            df[k] = (mask, df[k][1])
            wf[k] = (mask, wf[k][1])
    return (direct[0], d_out, d_err, df), (wrapped[0], w_out, w_err, wf)


def run_history(hid, rng, sccache, model_fn, port, verdict, n_ops, known_ids):
    root = ROOT_PREFIX + '%d-%d' % (os.getpid(), hid)
    shutil.rmtree(root, ignore_errors=True)
    os.makedirs(root)
    tree = os.path.join(root, 'w')
    os.makedirs(tree)
    compiler = rng.choice(['gcc', 'gcc', 'clang', 'clang', 'g++', 'clang++'])
    cxx = compiler.endswith('++')
    direct_mode = rng.chance(1, 2)
    srv = Server(sccache, root, port, direct_mode)
    # the server's own environment differs from its clients' in variables that matter at the compile stage
    pool = [('LC_ALL', 'C.UTF-8'), ('SOURCE_DATE_EPOCH', '86400'), ('CPATH', os.path.join(tree, 'sdk2')),
            ('CPLUS_INCLUDE_PATH' if cxx else 'C_INCLUDE_PATH', os.path.join(tree, 'sdk1')), ('GCC_COLORS', 'warning=01;36'),
            ('LIBRARY_PATH', '/nonexistent'), ('SCCACHE_C_CUSTOM_CACHE_BUSTER', 'server-side')]
    srv.server_only = dict(rng.shuffle(pool)[:rng.range(2, 4)])
    for k in srv.server_only:
        verdict.count('server-only-env.' + k)
    clock = [hid * 1000]
    files = gen_tree(rng, cxx)
    for rel, c in files.items():
        clock[0] += 1
        write_file(tree, rel, c, clock[0])
    os.makedirs(os.path.join(tree, 'sub'), exist_ok=True)
    fl = Flags(rng, compiler, cxx)
    envx = {}
    stored = set()
    log = []
    history_of_edits = []
    tag = '%s %s' % (compiler, 'pp-cache' if direct_mode else 'no-pp-cache')
    verdict.count('history.' + tag)
    srv.start()
    try:
        def tree_sig():
            h = hashlib.sha1()
            snap = snapshot(tree)
            for k in sorted(snap):
                if k.endswith(('.c', '.cpp', '.h', '.rsp', '.i', '.ii', '.txt')):
                    h.update(k.encode() + b'\0' + snap[k][0] + b'\0')
            return h.hexdigest()

        def one_request(args, expect_known=None, concurrent_group=None):
            """returns (direct, prediction, argv) after running the direct compile and restoring the tree"""
            before = snapshot(tree)
            env = srv.env(envx)
            d_rc, d_out, d_err = run([compiler] + args, tree, env)
            d_files = changed(before, snapshot(tree))
            restore(tree, before)
            return before, (d_rc, d_out, d_err, d_files)

        def wrapped_request(args, before):
            env = srv.env(envx)
            w_rc, w_out, w_err = run([sccache, compiler] + args, tree, env)
            w_files = changed(before, snapshot(tree))
            return (w_rc, w_out, w_err, w_files)

        def judge(args, direct, wrapped, s0, s1, note, expect_known=None, check_stats=True):
            verdict.requests += 1
            kind = 'clang' if 'clang' in compiler else 'gcc'
            rsp = {}
            for a in args:
                if a.startswith('@') and os.path.exists(os.path.join(tree, a[1:])):
                    rsp[a[1:]] = open(os.path.join(tree, a[1:]), 'rb').read()
            pred = predict(model_fn, kind if not cxx else kind, args, rsp)
            verdict.count('predicted.' + pred)
            verdict.count('direct.rc=%d' % direct[0])
            if direct[2]:
                verdict.count('direct.stderr-nonempty')
            replay = {'history': hid, 'n_ops': n_ops, 'compiler': compiler, 'preprocessor_cache_mode': direct_mode, 'args': args,
                      'env': envx, 'note': note, 'log': log[-12:]}
            diffs = describe_diff(direct, wrapped)
            if diffs and not expect_known and preprocess_failure_class(direct, wrapped):
                expect_known = 'C01-S33'
            if diffs and not expect_known and command_line_numbering_class(direct, wrapped):
                expect_known = 'C01-S37'
            if diffs and not expect_known and stale_line_numbers_class(direct, wrapped):
                expect_known = 'C01-S39'
            if diffs and not expect_known and '-g' in args and source_md5_class(direct, wrapped):
                expect_known = 'C01-S36'
            if diffs:
                if expect_known and expect_known in known_ids:
                    verdict.known[expect_known] = verdict.known.get(expect_known, 0) + 1
                else:
                    verdict.violations.append(('transparency', '%s %s [%s; %s]: %s' % (compiler, ' '.join(args), tag, note, '; '.join(diffs)), replay))
            elif expect_known:
                verdict.count('known-not-reproduced.' + expect_known)
            if check_stats and s0 and s1:
                dlt = {k: s1[k] - s0[k] for k in s0}
                cls = ('hit' if dlt['cache_hits'] else 'miss' if dlt['cache_misses'] else
                       'not_cacheable' if dlt['requests_not_cacheable'] else 'not_compile' if dlt['requests_not_compile'] else
                       'error' if dlt['cache_errors'] else 'other')
                verdict.count('served.' + cls)
                exp = {'ok': ('hit', 'miss', 'error', 'other'), 'cannot_cache': ('not_cacheable',), 'not_compilation': ('not_compile',)}.get(pred)
                if dlt['compile_requests'] != 1:
                    verdict.violations.append(('stats', '%s %s: compile_requests changed by %d' % (compiler, ' '.join(args), dlt['compile_requests']), replay))
                elif exp and cls not in exp and not expect_known:
                    verdict.violations.append(('prediction', '%s %s [%s]: the model predicts %s, the server counted the request as %s'
                                               % (compiler, ' '.join(args), tag, pred, cls), replay))
                sig = (tuple(args), tuple(sorted(envx.items())), tree_sig())
                if pred == 'ok' and direct[0] == 0:
                    if sig in stored and cls != 'hit' and not expect_known:
                        verdict.violations.append(('must-hit', '%s %s [%s; %s]: identical request on identical inputs was stored before but is served as %s'
                                                   % (compiler, ' '.join(args), tag, note, cls), replay))
                    if cls in ('hit', 'miss'):
                        stored.add(sig)
            log.append('%s: %s %s -> direct rc=%d' % (note, compiler, ' '.join(args), direct[0]))
            if os.environ.get('C01_E2E_TRACE'):
                print('TRACE h%d %s | %s | diffs=%d env=%s' % (hid, note, ' '.join(args)[:90], len(diffs), envx), flush=True)
            if len(verdict.samples) < 6 and verdict.requests % 37 == 1:
                verdict.samples.append({'compiler': compiler, 'args': args, 'mode': tag, 'note': note})

        def mask_nondeterministic(args, before, direct, wrapped):
            return mask_unreproducible(verdict, tree, before, direct, wrapped,
                                       lambda: run([compiler] + args, tree, srv.env(envx)))

        def do_compile(note, args=None, expect_known=None):
            args = fl.args() if args is None else args
            before, direct = one_request(args)
            s0 = srv.stats()
            wrapped = wrapped_request(args, before)
            s1 = srv.stats()
            direct, wrapped = mask_nondeterministic(args, before, direct, wrapped)
            judge(args, direct, wrapped, s0, s1, note, expect_known)

        def burst(jobs):
            """concurrent clients against the one server: direct runs first (sequentially, tree restored), then all wrapped at once"""
            directs = []
            before = None
            for a in jobs:
                before, d = one_request(a)
                directs.append(d)
            s0 = srv.stats()
            env = srv.env(envx)
            procs = [subprocess.Popen([sccache, compiler] + a, cwd=tree, env=env, stdout=subprocess.PIPE, stderr=subprocess.PIPE,
                                      stdin=subprocess.DEVNULL) for a in jobs]
            res = []
            for p in procs:
                try:
                    o, e = p.communicate(timeout=180)
                except subprocess.TimeoutExpired:
                    p.kill()
                    o, e = b'', b'[timeout]'
                res.append((p.returncode, o, e))
            after = changed(before, snapshot(tree))
            s1 = srv.stats()
            for a, d, r in zip(jobs, directs, res):
                mine = {k: v for k, v in after.items() if k in d[3] or not any(k in dd[3] for dd in directs)}
                d2, w2 = mask_nondeterministic(a, before, d, (r[0], r[1], r[2], mine))
                judge(a, d2, w2, None, None, 'one of %d concurrent clients' % len(jobs), check_stats=False)
            if s0 and s1 and s1['compile_requests'] - s0['compile_requests'] != len(jobs):
                verdict.violations.append(('stats', '%d concurrent requests counted as %d' % (len(jobs), s1['compile_requests'] - s0['compile_requests']),
                                           {'history': hid}))

        do_compile('first')
        do_compile('repeat')

        # (1) options that only change how diagnostics are RENDERED, on a unit that compiles with warnings: the stored entry
        #     carries stderr, so each style is its own result; three styles, then the first again (both orders occur)
        styles = [[], ['-fdiagnostics-color=never'], ['-fdiagnostics-color=always'], ['-fno-diagnostics-show-option'],
                  ['-fmessage-length=40'], ['-w'], ['-fno-diagnostics-color'], ['-fdiagnostics-color=auto'], ['-Werror']]
        styles += ([['-fcolor-diagnostics'], ['-fno-color-diagnostics'], ['-fno-caret-diagnostics'], ['-fno-show-column']] if fl.clang
                   else [['-fno-diagnostics-show-caret'], ['-fdiagnostics-show-location=every-line'], ['-fdiagnostics-color']])
        if '-Wall' not in fl.misc:
            fl.misc.append('-Wall')
        picked = rng.shuffle(styles)[:3]
        for st in picked + [picked[0]]:
            fl.diag = st
            verdict.count('diag-style.' + (' '.join(st) or 'default'))
            do_compile('diagnostics style %s' % (' '.join(st) or '(default)'))
        fl.diag = []

        # (1a) other stages than -c: assembly to the default name and to stdout (`-o -`, the one case with a non-empty stdout)
        sbase = ['-S', fl.src, '-Iinc', '-Iinc2', '-O1']
        for a_, note_ in ((sbase + ['-o', '-'], 'assembly to stdout'), (sbase, 'assembly to the default name'),
                          (sbase + ['-o', '-'], 'assembly to stdout again'), (sbase + ['-o', 'asm.s'], 'assembly to a named file')):
            do_compile(note_, args=a_)
        verdict.count('assembly-stage-block')

        # (1a') response files with quoting: gcc / clang let a backslash escape the next character EVERYWHERE, also inside
        #       single and double quotes (libiberty buildargv / TokenizeGNUCommandLine); whoever expands such a file must agree
        for qi, q in enumerate([b"-D'NAME=1\\2'", b'-D"NAME=2\\3"', b'"-DNAME=4" -D\'PRE=1\\5\'', b'-DNAME=\\6 "-I" "inc"']):
            clock[0] += 1
            write_file(tree, 'q%d.rsp' % qi, q + (' -Iinc -Iinc2 -c %s -o rq.o\n' % fl.src).encode(), clock[0])
            do_compile('response file with quoting %r' % q.decode(), args=['@q%d.rsp' % qi])
        verdict.count('quoted-response-file-block')

        # (1b) input that is ALREADY PREPROCESSED (.i / .ii): the compiler does not preprocess it again, so neither -D nor the
        #      macro names of the dialect may touch its text; produced by a real -E run of a unit that mentions __LINE__
        psrc, pout = ('unit.cpp', 'unit.ii') if cxx else ('unit.c', 'unit.i')
        clock[0] += 1
        write_file(tree, psrc, b'struct os { int unix; int linux; };\nint keep_ident(int a) {\n  struct os o; o.unix = a; o.linux = __LINE__;\n'
                               b'  return o.unix + o.linux;\n}\n', clock[0])
        rc, out, err = run([compiler, '-std=c++14' if cxx else '-std=c11', '-E', psrc, '-o', pout], tree, srv.env(envx))
        if rc == 0:
            t = BASE_MTIME + clock[0] * 100
            os.utime(os.path.join(tree, pout), (t, t))
            verdict.count('preprocessed-input')
            for note in ('already preprocessed input', 'already preprocessed input, again'):
                do_compile(note, args=['-Dkeep_ident=renamed_by_a_second_preprocessing', '-O1', '-c', pout, '-o', 'unit.o'])
            do_compile('already preprocessed input, GNU dialect', args=['-std=gnu++14' if cxx else '-std=gnu11', '-c', pout, '-o', 'unit.o'])

        # (1c) a file whose CONTENTS are hashed besides the source (clang: sanitizer ignore list): rewritten normally, with the
        #      same size and a new mtime, and with the same size and the SAME mtime - all within one server lifetime
        if fl.clang:
            ssrc = 'san.cpp' if cxx else 'san.c'
            clock[0] += 1
            write_file(tree, ssrc, b'int garr[8];\nint ff(int i) { return garr[i]; }\nint gg(int i) { return garr[i + 1]; }\n', clock[0])
            sargs = ['-O1', '-fsanitize=address', '-fsanitize-blacklist=ignore.txt', '-c', ssrc, '-o', 'san.o']
            clock[0] += 1
            write_file(tree, 'ignore.txt', b'fun:ff\n', clock[0])
            do_compile('extra hashed file, first contents', args=sargs)
            clock[0] += 1
            write_file(tree, 'ignore.txt', b'fun:nothing_of_this_name\n', clock[0])
            do_compile('extra hashed file rewritten (other size)', args=sargs)
            clock[0] += 1
            write_file(tree, 'ignore.txt', b'fun:gg\n', clock[0])
            do_compile('extra hashed file rewritten (same size as the first, new mtime)', args=sargs)
            same = clock[0]
            for content in (b'fun:ff\n', b'fun:gg\n', b'fun:ff\n'):
                write_file(tree, 'ignore.txt', content, same)
                do_compile('extra hashed file rewritten (same size, SAME mtime): %s' % content.decode().strip(), args=sargs)
            verdict.count('extra-hash-file-block')

        # (1d) requests answered from the cache OVERLAPPING requests that run the compiler, on one server: 4 hits + 4 misses at once
        for rnd in range(2):
            burst([fl.args(out_override='h%d.o' % j) for j in range(4)]
                  + [fl.args(out_override='m%d.o' % j, define_override=100 + 10 * rnd + j) for j in range(4)])
        verdict.count('mixed-hit-miss-burst', 2)

        # (2) the header search path given through the ENVIRONMENT, two directories with a same-named header of different contents
        var = rng.choice(['CPATH', 'CPLUS_INCLUDE_PATH' if cxx else 'C_INCLUDE_PATH'])
        first_dir = rng.choice(['sdk1', 'sdk2'])
        other_dir = 'sdk2' if first_dir == 'sdk1' else 'sdk1'
        # (with the options that switch the preprocessor cache off - dependency files, -Wp, -Xpreprocessor - set aside, so that
        #  in the histories with preprocessor-cache mode the mode is really in effect for this block)
        saved_dep, saved_extra = fl.dep, fl.extra
        fl.dep = []
        fl.extra = [x for x in fl.extra if not x.startswith(('-Wp,', '-Xpreprocessor', '-DXPDEF'))]
        do_compile('before the include-path environment is set')
        for dname in (first_dir, other_dir, first_dir):
            envx[var] = dname if rng.chance(1, 2) else os.path.join(tree, dname)
            verdict.count('env-include.' + var)
            do_compile('include path from the environment %s=%s' % (var, dname))
        fl.dep, fl.extra = saved_dep, saved_extra
        if rng.chance(1, 2):
            del envx[var]
        ops = ['edit_src_same', 'edit_src_diff', 'edit_hdr_same', 'edit_hdr_diff', 'edit_hdr2_same', 'revert', 'define', 'incpath',
               'language', 'output', 'env_hashed', 'env_cpath', 'restart', 'concurrent', 'error', 'passthrough', 'repeat', 'warn',
               'forced', 'opt', 'known', 'ws_edit', 'env_include', 'diag']
        for step in range(n_ops):
            op = rng.choice(ops)
            verdict.count('op.' + op)
            if op.startswith('edit_'):
                rel = {'edit_src_same': fl.src, 'edit_src_diff': fl.src, 'edit_hdr_same': 'inc/h1.h', 'edit_hdr_diff': 'inc/h2.h',
                       'edit_hdr2_same': 'inc2/h1.h'}[op]
                cur = open(os.path.join(tree, rel), 'rb').read()
                history_of_edits.append((rel, cur))
                new = bump_digit(cur, rng) if op.endswith('same') else cur + b'/* edit %d */\nstatic const int added_%d = %d;\n' % (step, step, step)
                clock[0] += 1
                write_file(tree, rel, new, clock[0])
                do_compile(op + ' ' + rel)
            elif op == 'ws_edit':
                # an edit that only moves lines: blank lines / a comment in front of the code
                rel = fl.src
                cur = open(os.path.join(tree, rel), 'rb').read()
                history_of_edits.append((rel, cur))
                new = rng.choice([b'\n', b'\n\n\n', b'/* moved */\n', b'// c\n\n']) + cur
                clock[0] += 1
                write_file(tree, rel, new, clock[0])
                do_compile('whitespace-only edit ' + rel)
            elif op == 'env_include':
                var = rng.choice(['CPATH', 'CPLUS_INCLUDE_PATH' if cxx else 'C_INCLUDE_PATH'])
                envx[var] = rng.choice(['sdk1', 'sdk2', os.path.join(tree, 'sdk1'), os.path.join(tree, 'sdk2')])
                do_compile('include path from the environment %s=%s' % (var, envx[var]))
            elif op == 'diag':
                fl.diag = rng.choice(styles)
                do_compile('diagnostics style %s' % (' '.join(fl.diag) or '(default)'))
            elif op == 'revert':
                if history_of_edits:
                    rel, old = history_of_edits.pop()
                    clock[0] += 1
                    write_file(tree, rel, old, clock[0])
                    do_compile('revert ' + rel)
            elif op == 'define':
                fl.define = rng.choice([None, 1, 2, 3])
                fl.define_sep = rng.chance(1, 3)
                fl.undef = rng.chance(1, 3)
                do_compile('define')
            elif op == 'incpath':
                fl.alt = not fl.alt
                fl.inc_form = rng.choice(['joined', 'separate', 'iquote'])
                do_compile('include path')
            elif op == 'language':
                if not cxx:
                    fl.xlang = rng.choice([None, 'c', 'c++'])
                else:
                    fl.xlang = rng.choice([None, 'c++'])
                do_compile('language -x %s' % fl.xlang)
            elif op == 'output':
                fl.out = rng.choice(['out.o', 'sub/out.o', 'sub/other.o', None, 'JOINED'])
                do_compile('output path')
            elif op == 'env_hashed':
                k = rng.choice(['SCCACHE_C_CUSTOM_CACHE_BUSTER', 'CCC_OVERRIDE_OPTIONS'])
                if k in envx and rng.chance(1, 2):
                    del envx[k]
                else:
                    envx[k] = rng.choice(['x1', 'x2']) if k.startswith('SCCACHE') else rng.choice(['+-DNAME=7', '+-DCCC=1', '# -O0'])
                do_compile('hashed environment ' + k)
            elif op == 'env_cpath':
                if 'CPATH' in envx:
                    del envx['CPATH']
                else:
                    envx['CPATH'] = rng.choice(['incalt', 'inc2'])
                do_compile('environment CPATH')
            elif op == 'restart':
                srv.stop()
                srv.start()
                do_compile('after server restart')
            elif op == 'concurrent':
                burst([fl.args(out_override='c%d.o' % j, define_override=rng.choice([1, 1, 2, 5])) for j in range(4)])
            elif op == 'error':
                fl.err = True
                do_compile('error variant')
                do_compile('error variant repeated')
                fl.err = False
            elif op == 'warn':
                fl.warn = not fl.warn
                do_compile('warning variant')
            elif op == 'forced':
                fl.forced = not fl.forced
                do_compile('forced include')
            elif op == 'opt':
                fl.opt = rng.choice([[], ['-O0'], ['-O2'], ['-Os'], ['-O1', '-g']])
                do_compile('optimisation')
            elif op == 'repeat':
                do_compile('repeat')
            elif op == 'passthrough':
                which = rng.choice(['E', 'S', 'S_stdout', 'S_default', 'two', 'rsp', 'M', 'nolink', 'rsp_bs'])
                base = fl.args()
                if which == 'E':
                    a = [x for x in base if x not in ('-c',) and not x.startswith('-o') and x not in ('out.o', 'sub/out.o', 'sub/other.o')] + ['-E']
                    a = [x for x in a if x not in ('-MD', '-MMD')]
                elif which == 'S':
                    a = [x if x != '-c' else '-S' for x in base]
                    a = [x for x in a if not x.endswith('.o') and x != '-o'] + ['-o', 'out.s']
                elif which in ('S_stdout', 'S_default'):
                    # assembly to stdout (`-o -`, the one case with a non-empty stdout) / to the default name
                    a = [x if x != '-c' else '-S' for x in base]
                    a = [x for x in a if not x.endswith('.o') and x != '-o' and not x.startswith('-M') and x not in ('out.d', 'tgt', 'a', 'b', 'q$t')]
                    a += ['-o', '-'] if which == 'S_stdout' else []
                elif which == 'two':
                    a = [x for x in base if x not in ('-o', 'out.o', 'sub/out.o', 'sub/other.o', '-oout.o')] + ['other.c']
                elif which == 'rsp':
                    clock[0] += 1
                    write_file(tree, 'args.rsp', ' '.join(x for x in base if ' ' not in x).encode() + b'\n', clock[0])
                    a = ['@args.rsp']
                elif which == 'rsp_bs':
                    # gcc / clang read a backslash in a response file as an escape character
                    clock[0] += 1
                    write_file(tree, 'esc.rsp', ' '.join(x for x in base if ' ' not in x and not x.startswith('-DNAME')).encode() + b' -DNAME=\\4\n', clock[0])
                    a = ['@esc.rsp']
                elif which == 'M':
                    a = [x for x in base if x not in ('-c', '-MD', '-MMD', '-o', 'out.o', 'sub/out.o', 'sub/other.o', '-oout.o')] + ['-M']
                else:
                    a = [x for x in base if x != '-c' and not x.endswith('.o') and x != '-o'] + ['-fsyntax-only']
                do_compile('pass-through ' + which, args=a)
            elif op == 'known':
                which = rng.choice(['C01-S21', 'C01-S23', 'C01-S24', 'C01-S33', 'rsp-backslash'])
                if which == 'C01-S21':
                    a = ['-c', fl.src, '-Iinc', '-Iinc2', '-x', 'c++' if not cxx else 'c', '-o', 'k.o']
                elif which == 'C01-S23':
                    a = ['-c', fl.src, '-Iinc', '-Iinc2', '-MT', 'x', '-o', 'k.o']
                elif which == 'C01-S33':
                    a = ['-c', fl.src, '-Iinc', '-Iinc2', '-DWARN', '-Wall', '-Werror', '-o', 'k.o']
                elif which == 'rsp-backslash':        # regression of the repaired C01-S41: must now be transparent
                    clock[0] += 1
                    write_file(tree, 'k.rsp', ('-DNAME=\\4 -Iinc -Iinc2 -c %s -o k.o\n' % fl.src).encode(), clock[0])
                    a = ['@k.rsp']
                else:
                    a = ['-c', fl.src, '-Iinc', '-Iinc2', '-o', 'k.o', '-I']
                do_compile('witness of ' + which, args=a, expect_known=which if which.startswith('C01-') else None)
    finally:
        try:
            srv.stop()
        except Exception:
            pass
        srv.kill_leftovers()
        shutil.rmtree(root, ignore_errors=True)


# ------------------------------------------------------------------ fixed scenarios (deterministic interleavings / special places)

def _compare(verdict, tag, compiler, args, direct, wrapped, note, known_ids, expect_known=None, replay=None):
    verdict.requests += 1
    diffs = describe_diff(direct, wrapped)
    if diffs:
        if expect_known and expect_known in known_ids:
            verdict.known[expect_known] = verdict.known.get(expect_known, 0) + 1
        else:
            verdict.violations.append(('transparency', '%s %s [%s; %s]: %s' % (compiler, ' '.join(args), tag, note, '; '.join(diffs)), replay or {}))
    elif expect_known:
        verdict.count('known-not-reproduced.' + expect_known)
    return not diffs


_SCRATCH_VERDICT = Verdict()      # counters of the fixed scenarios' re-runs are not reported


def _both(srv, sccache, compiler, args, tree, envx=None):
    """direct run, restore, wrapped run (same directory, same files)"""
    before = snapshot(tree)
    env = srv.env(envx)
    rc, o, e = run([compiler] + args, tree, env)
    d = (rc, o, e, changed(before, snapshot(tree)))
    restore(tree, before)
    rc, o, e = run([sccache, compiler] + args, tree, env)
    w = (rc, o, e, changed(before, snapshot(tree)))
    return mask_unreproducible(_SCRATCH_VERDICT, tree, before, d, w, lambda: run([compiler] + args, tree, env))


def scenario_header_saved_during_compile(sid, sccache, port, verdict, known_ids, real_compiler, cxx):
    """A header is saved by somebody else right after the preprocessor of an in-flight request has read it (made deterministic
    with a compiler shim that, when armed, rewrites the header at the end of its -E run).  Whatever that racy request does, every
    LATER request must produce what the compiler produces from the files as they are then."""
    root = ROOT_PREFIX + '%d-s%d' % (os.getpid(), sid)
    shutil.rmtree(root, ignore_errors=True)
    tree = os.path.join(root, 'w')
    os.makedirs(os.path.join(tree, 'extra'))
    os.makedirs(os.path.join(root, 'bin'))
    real = shutil.which(real_compiler)
    shim = os.path.join(root, 'bin', real_compiler)
    with open(shim, 'w') as fh:
        fh.write('#!/bin/sh\n# the real compiler; when `armed` exists, cfg.h is saved by "somebody else" right after preprocessing\n'
                 'pre=\nfor a in "$@"; do [ "$a" = -E ] && pre=1; done\n'
                 'if [ -n "$pre" ] && [ -e "%s/armed" ]; then\n  rm -f "%s/armed"\n  "%s" "$@"; rc=$?\n  sleep 0.3\n'
                 '  cp "%s/cfg.h.new" "%s/cfg.h"\n  exit $rc\nfi\nexec "%s" "$@"\n' % (tree, tree, real, root, tree, real))
    os.chmod(shim, 0o755)
    src = 'a.cpp' if cxx else 'a.c'
    write_file(tree, src, b'#include "cfg.h"\nint limit(void) { return CFG_LIMIT; }\n', 1)
    write_file(tree, 'cfg.h', b'#define CFG_LIMIT 100\n', 2)
    with open(os.path.join(root, 'cfg.h.new'), 'wb') as fh:
        fh.write(b'#define CFG_LIMIT 200\n')
    srv = Server(sccache, root, port, True)
    tag = '%s shim, pp-cache' % real_compiler
    replay = {'scenario': 'header_saved_during_compile', 'sid': sid, 'compiler': real_compiler, 'cxx': cxx}
    verdict.count('scenario.header-saved-during-compile')
    srv.start()
    try:
        for note in ('cfg.h = 100, compiled and stored', 'again (hit)'):
            d, w = _both(srv, sccache, shim, ['-c', src, '-o', 'a.o'], tree)
            _compare(verdict, tag, real_compiler, ['-c', src, '-o', 'a.o'], d, w, note, known_ids, replay=replay)
        open(os.path.join(tree, 'armed'), 'w').close()
        run([sccache, shim, '-Iextra', '-c', src, '-o', 'a.o'], tree, srv.env())     # the racy request: not judged
        if os.path.exists(os.path.join(tree, 'armed')) or open(os.path.join(tree, 'cfg.h'), 'rb').read() != b'#define CFG_LIMIT 200\n':
            verdict.count('scenario.header-saved-during-compile.not-armed')
        time.sleep(1.3)
        for args, note in ((['-Iextra', '-c', src, '-o', 'a.o'], 'first request after the header was saved mid-compile'),
                           (['-Iextra', '-c', src, '-o', 'a.o'], 'the same again'),
                           (['-c', src, '-o', 'a.o'], 'the original command line again')):
            d, w = _both(srv, sccache, shim, args, tree)
            _compare(verdict, tag, real_compiler, args, d, w, note + ' (cfg.h: %s)' % open(os.path.join(tree, 'cfg.h')).read().strip(),
                     known_ids, replay=replay)
    finally:
        srv.stop()
        srv.kill_leftovers()
        shutil.rmtree(root, ignore_errors=True)


def scenario_two_build_dirs(sid, sccache, port, verdict, known_ids, compiler):
    """The same absolute source compiled from two build directories with a relative -I. and a different config.h in each."""
    root = ROOT_PREFIX + '%d-s%d' % (os.getpid(), sid)
    shutil.rmtree(root, ignore_errors=True)
    for d in ('src', 'b1', 'b2'):
        os.makedirs(os.path.join(root, d))
    src = os.path.join(root, 'src', 'a.c')
    write_file(root, 'src/a.c', b'#include "config.h"\nint v(void) { return CFG; }\n', 1)
    write_file(root, 'b1/config.h', b'#define CFG 1\n', 2)
    write_file(root, 'b2/config.h', b'#define CFG 2\n', 3)
    verdict.count('scenario.two-build-dirs')
    for direct_mode, opts in ((True, None), (False, None), (True, 'hash_working_directory = true\n'), (True, 'hash_working_directory = false\n')):
        sub = ('pp' if direct_mode else 'nopp') + ('' if opts is None else '-' + opts.split()[-1])
        os.makedirs(os.path.join(root, sub))
        srv = Server(sccache, os.path.join(root, sub), port, direct_mode, opts)
        control = opts is not None and 'false' in opts
        tag = '%s %s%s' % (compiler, 'pp-cache' if direct_mode else 'no-pp-cache', '' if opts is None else ' ' + opts.strip())
        srv.start()
        try:
            for bd in ('b1', 'b1', 'b2', 'b1'):
                d, w = _both(srv, sccache, compiler, ['-I.', '-c', src, '-o', 'a.o'], os.path.join(root, bd))
                if control:
                    # documented-unsafe setting ("adds the current working directory in the hash" switched off): the stale
                    # object of the other directory is what the option asks for; recorded, not judged
                    verdict.requests += 1
                    verdict.count('control.hash_working_directory=false.' + ('stale' if describe_diff(d, w) else 'equal'))
                    continue
                _compare(verdict, tag, compiler, ['-I.', '-c', src, '-o', 'a.o'], d, w, 'build directory %s' % bd, known_ids,
                         replay={'scenario': 'two_build_dirs', 'sid': sid, 'compiler': compiler})
        finally:
            srv.stop()
            srv.kill_leftovers()
    shutil.rmtree(root, ignore_errors=True)


def scenario_device_output(sid, sccache, port, verdict, known_ids, compiler):
    """`-o` names a character device (a private copy of the null device; /dev/null itself is never touched)."""
    if os.geteuid() != 0:
        verdict.count('scenario.device-output.skipped-not-root')
        return
    root = ROOT_PREFIX + '%d-s%d' % (os.getpid(), sid)
    shutil.rmtree(root, ignore_errors=True)
    tree = os.path.join(root, 'w')
    os.makedirs(tree)
    os.makedirs(os.path.join(root, 'dev'))
    node = os.path.join(root, 'dev', 'null')
    try:
        os.mknod(node, 0o666 | stat.S_IFCHR, os.makedev(1, 3))
    except OSError:
        verdict.count('scenario.device-output.skipped-no-mknod')
        shutil.rmtree(root, ignore_errors=True)
        return
    write_file(tree, 't.c', b'int t(void) { return 1; }\n', 1)
    srv = Server(sccache, root, port, False)
    verdict.count('scenario.device-output')
    srv.start()
    try:
        args = ['-c', 't.c', '-o', node]
        run([compiler] + args, tree, srv.env())
        ok_direct = stat.S_ISCHR(os.lstat(node).st_mode)
        kinds = []
        for _ in range(2):          # stored, then answered from the cache
            rc, o, e = run([sccache, compiler] + args, tree, srv.env())
            kinds.append((rc, stat.S_ISCHR(os.lstat(node).st_mode)))
        verdict.requests += 2
        if ok_direct and not all(k for _, k in kinds):
            if True:
                verdict.violations.append(('transparency', '%s %s: the output is a character device; the direct compile writes into it, the wrapped one '
                                           'replaces the device node by a regular file (%r)' % (compiler, ' '.join(args), kinds),
                                           {'scenario': 'device_output', 'sid': sid, 'compiler': compiler}))
    finally:
        srv.stop()
        srv.kill_leftovers()
        shutil.rmtree(root, ignore_errors=True)


SCENARIOS = {
    'header_saved_during_compile': scenario_header_saved_during_compile,
    'two_build_dirs': scenario_two_build_dirs,
    'device_output': scenario_device_output,
}


def _table_source(name, chunks):
    """a C unit with one constant table; chunks = [(kind, n)], kind in random / zero / text: how well the object compresses"""
    x = 12345
    vals = []
    for kind, n in chunks:
        for i in range(n):
            if kind == 'random':
                x = (x * 1103515245 + 12345) & 0x7fffffff
                vals.append((x >> 16) & 255)
            elif kind == 'zero':
                vals.append(0)
            else:
                vals.append(97 + i % 7)
    body = ','.join(map(str, vals))
    return ('const unsigned char %s[%d] = {%s};\nint use_%s(int i) { return %s[i]; }\n' % (name, len(vals), body, name, name)).encode()


def scenario_large_objects(sid, sccache, port, verdict, known_ids, compiler):
    """Objects of very different size and compressibility (below / at / above the 64 KiB and 128 KiB block sizes of the entry
    encoding; random tables that zstd stores raw, zeros, text, mixtures): compiled, answered from the cache, answered again
    after a server restart - each time compared byte for byte with a direct compile."""
    root = ROOT_PREFIX + '%d-s%d' % (os.getpid(), sid)
    shutil.rmtree(root, ignore_errors=True)
    tree = os.path.join(root, 'w')
    os.makedirs(tree)
    units = [('r300k', [('random', 300000)]), ('r70k', [('random', 70000)]), ('r131k', [('random', 131073)]),
             ('mix', [('zero', 100000), ('random', 150000), ('text', 50000)]), ('z400k', [('zero', 400000)])]
    for i, (name, chunks) in enumerate(units):
        write_file(tree, name + '.c', _table_source(name, chunks), i + 1)
    srv = Server(sccache, root, port, False)
    tag = '%s no-pp-cache' % compiler
    verdict.count('scenario.large-objects')
    srv.start()
    try:
        for name, chunks in units:
            args = ['-c', name + '.c', '-o', name + '.o']
            for note in ('compiled and stored', 'answered from the cache'):
                d, w = _both(srv, sccache, compiler, args, tree)
                _compare(verdict, tag, compiler, args, d, w, '%s, object of %d table bytes (%s)' % (note, sum(n for _, n in chunks), '+'.join(k for k, _ in chunks)),
                         known_ids, replay={'scenario': 'large_objects', 'sid': sid, 'compiler': compiler})
        srv.stop()
        srv.start()
        for name, chunks in units[:2]:
            args = ['-c', name + '.c', '-o', name + '.o']
            d, w = _both(srv, sccache, compiler, args, tree)
            _compare(verdict, tag, compiler, args, d, w, 'answered from the cache after a server restart', known_ids,
                     replay={'scenario': 'large_objects', 'sid': sid, 'compiler': compiler})
    finally:
        srv.stop()
        srv.kill_leftovers()
        shutil.rmtree(root, ignore_errors=True)


SCENARIOS['large_objects'] = scenario_large_objects


def scenario_two_checkouts_coverage(sid, sccache, port, verdict, known_ids, compiler):
    """The same project checked out twice, built with coverage instrumentation and the same RELATIVE -o in both: the object
    embeds the absolute place of its .gcda file, so the second checkout must not get the first one's object."""
    root = ROOT_PREFIX + '%d-s%d' % (os.getpid(), sid)
    shutil.rmtree(root, ignore_errors=True)
    for d in ('co1/obj', 'co2/obj'):
        os.makedirs(os.path.join(root, d))
    src = b'int garr[4];\nint cov(int i) { if (i > 2) return garr[1]; return garr[i]; }\n'
    write_file(root, 'co1/cov.c', src, 1)
    write_file(root, 'co2/cov.c', src, 1)
    verdict.count('scenario.two-checkouts-coverage')
    # -frandom-seed makes gcc's .gcno stamp reproducible, so that the bytes can be compared
    flagsets = [['--coverage', '-frandom-seed=1'], ['-fprofile-arcs', '-ftest-coverage', '-frandom-seed=1', '-O1']]
    for direct_mode in (False, True):
        sub = 'pp' if direct_mode else 'nopp'
        os.makedirs(os.path.join(root, sub))
        srv = Server(sccache, os.path.join(root, sub), port, direct_mode)
        tag = '%s %s' % (compiler, 'pp-cache' if direct_mode else 'no-pp-cache')
        srv.start()
        try:
            for fs_ in flagsets:
                args = fs_ + ['-c', 'cov.c', '-o', 'obj/cov.o']
                for co in ('co1', 'co1', 'co2', 'co2', 'co1'):
                    d, w = _both(srv, sccache, compiler, args, os.path.join(root, co))
                    _compare(verdict, tag, compiler, args, d, w, 'checkout %s' % co, known_ids,
                             replay={'scenario': 'two_checkouts_coverage', 'sid': sid, 'compiler': compiler})
        finally:
            srv.stop()
            srv.kill_leftovers()
    shutil.rmtree(root, ignore_errors=True)


SCENARIOS['two_checkouts_coverage'] = scenario_two_checkouts_coverage


def scenario_two_driver_names(sid, sccache, port, verdict, known_ids, drivers):
    """Both driver names of ONE binary (clang / clang++ are links to the same file) against one server, on a .c input whose
    language the driver name decides: each request must be compiled the way the name it was issued under compiles it."""
    root = ROOT_PREFIX + '%d-s%d' % (os.getpid(), sid)
    shutil.rmtree(root, ignore_errors=True)
    tree = os.path.join(root, 'w')
    os.makedirs(tree)
    write_file(tree, 'unit.c', b'int twice(int x) { return 2 * x; }\n', 1)
    write_file(tree, 'unit.cpp', b'int thrice(int x) { return 3 * x; }\n', 2)
    verdict.count('scenario.two-driver-names')
    for direct_mode in (False, True):
        sub = os.path.join(root, 'pp' if direct_mode else 'nopp')
        os.makedirs(sub)
        srv = Server(sccache, sub, port, direct_mode)
        tag = '%s %s' % ('/'.join(drivers), 'pp-cache' if direct_mode else 'no-pp-cache')
        for order in (drivers, drivers[::-1]):
            srv.start()
            try:
                for drv in (order[0], order[1], order[0], order[1]):
                    for src in ('unit.c', 'unit.cpp'):
                        args = ['-c', src, '-o', src.split('.')[0] + '.o']
                        d, w = _both(srv, sccache, drv, args, tree)
                        # finding C01-S43: everything equal except the driver's own remark about the language it picked
                        kept = b'\n'.join(l for l in d[2].split(b'\n') if b"treating 'c' input as 'c++'" not in l)
                        s43 = d[2] != w[2] and kept == w[2] and (d[0], d[1], d[3]) == (w[0], w[1], w[3])
                        _compare(verdict, tag, drv, args, d, w, 'driver name %s after %s on one server' % (drv, order[0]), known_ids,
                                 expect_known='C01-S43' if s43 else None, replay={'scenario': 'two_driver_names', 'sid': sid})
            finally:
                srv.stop()          # the compiler-info map lives in the server: the second order starts from a fresh one
                srv.kill_leftovers()
    shutil.rmtree(root, ignore_errors=True)


def scenario_symlinked_include_dir(sid, sccache, port, verdict, known_ids, compiler):
    """An include directory reached through a symbolic link (-Isdk, sdk -> vendor/sdk-1.2/include) with a header that includes
    `../defs.h`: lexical and real resolution of that path differ.  defs.h is then edited (other size, same size) between compiles
    of the unchanged unit; a plain layout without the link is the control."""
    root = ROOT_PREFIX + '%d-s%d' % (os.getpid(), sid)
    shutil.rmtree(root, ignore_errors=True)
    clock = [0]

    def put(rel, content):
        clock[0] += 1
        write_file(root, rel, content, clock[0])
    layouts = {'linked': ('linked/vendor/sdk-1.2/include/api.h', 'linked/vendor/sdk-1.2/defs.h', '-Isdk'),
               'plain': ('plain/inc/api.h', 'plain/defs.h', '-Iinc')}
    for name, (api, defs, _) in layouts.items():
        put(api, b'#include "../defs.h"\nint api(int);\n')
        put(defs, b'#define LIMIT 10\n')
        put(name + '/unit.c', b'#include "api.h"\nint api(int x) { return x < LIMIT ? x : LIMIT; }\n')
    os.symlink('vendor/sdk-1.2/include', os.path.join(root, 'linked', 'sdk'))
    verdict.count('scenario.symlinked-include-dir')
    for direct_mode in (True, False):
        sub = os.path.join(root, 'cache-pp' if direct_mode else 'cache-nopp')
        os.makedirs(sub)
        srv = Server(sccache, sub, port, direct_mode)
        tag = '%s %s' % (compiler, 'pp-cache' if direct_mode else 'no-pp-cache')
        srv.start()
        try:
            for content in (b'#define LIMIT 10\n', b'#define LIMIT 20\n', b'#define LIMIT 300\n', b'#define LIMIT 20\n'):
                for name, (api, defs, inc) in layouts.items():
                    put(defs, content)
                    for rep_ in ('after the edit', 'again'):
                        args = [inc, '-c', 'unit.c', '-o', 'unit.o']
                        d, w = _both(srv, sccache, compiler, args, os.path.join(root, name))
                        _compare(verdict, tag, compiler, args, d, w, 'layout %s, defs.h = %s, %s' % (name, content.decode().strip(), rep_), known_ids,
                                 replay={'scenario': 'symlinked_include_dir', 'sid': sid, 'compiler': compiler})
        finally:
            srv.stop()
            srv.kill_leftovers()
    shutil.rmtree(root, ignore_errors=True)


SCENARIOS['two_driver_names'] = scenario_two_driver_names
SCENARIOS['symlinked_include_dir'] = scenario_symlinked_include_dir


def scenario_plan(tier):
    """(name, kwargs) list; quick runs each scenario once, thorough for every compiler"""
    plan = [('header_saved_during_compile', dict(real_compiler='gcc', cxx=False)),
            ('two_build_dirs', dict(compiler='gcc')), ('device_output', dict(compiler='gcc')),
            ('large_objects', dict(compiler='gcc')), ('two_checkouts_coverage', dict(compiler='clang')),
            ('two_driver_names', dict(drivers=['clang', 'clang++'])), ('symlinked_include_dir', dict(compiler='gcc'))]
    if tier == 'thorough':
        plan += [('header_saved_during_compile', dict(real_compiler='clang', cxx=False)),
                 ('header_saved_during_compile', dict(real_compiler='g++', cxx=True)),
                 ('header_saved_during_compile', dict(real_compiler='clang++', cxx=True)),
                 ('two_build_dirs', dict(compiler='clang')), ('device_output', dict(compiler='clang')),
                 ('large_objects', dict(compiler='clang')), ('two_checkouts_coverage', dict(compiler='gcc')),
                 ('two_driver_names', dict(drivers=['gcc', 'g++'])), ('symlinked_include_dir', dict(compiler='clang'))]
    return plan
