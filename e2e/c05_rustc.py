"""End-to-end histories for property C05 with a real `sccache` server and the real `rustc` (validation and search
for failing inputs only; never a proof).

A history = one generated small crate (module tree incl. a nested module and a file with a space in its name,
`include_str!`, `env!`, `option_env!`, a cfg feature, an extern rlib) and a sequence of steps; every step changes ONE
input class (a source file, the included file, the variable read by option_env! unset/empty/value, a CARGO_* variable,
an unrelated variable, the order / the set of --cfg, the order of -L, the extern rlib, the remaining arguments, the
out-dir) and then compiles twice in the same working directory with the same command line and environment:
first `rustc` directly, then `sccache rustc`; the out-dir is emptied in between.  Observed per step: exit status,
stderr, the bytes of every file in --out-dir of both runs, and the server's hit / miss / not-cacheable counters.

Each history has its own cache directory and its own server (own port); servers are stopped with --stop-server and,
as a fallback, killed by pid found through a /proc/*/environ scan for the unique cache directory (state Z skipped).
"""
import json
import os
import shutil
import socket
import subprocess
import tempfile
import time
from concurrent.futures import ThreadPoolExecutor


HAVE_CC = bool(shutil.which('cc') and shutil.which('ar'))


def make_archive(objdir, version, cache):
    """libfoo.a whose foo_version() returns `version` (cc + ar rcsD: deterministic bytes)"""
    if version in cache:
        return cache[version]
    os.makedirs(objdir, exist_ok=True)
    open(os.path.join(objdir, 'foo.c'), 'w').write('int foo_version(void) { return %d; }\n' % version)
    env = {'PATH': os.environ.get('PATH', '/usr/bin:/bin')}
    a = os.path.join(objdir, 'libfoo.a')
    if os.path.exists(a):
        os.remove(a)
    r1 = subprocess.run(['cc', '-c', 'foo.c', '-o', 'foo.o'], cwd=objdir, env=env, stdout=subprocess.PIPE, stderr=subprocess.PIPE, timeout=120)
    r2 = subprocess.run(['ar', 'rcsD', 'libfoo.a', 'foo.o'], cwd=objdir, env=env, stdout=subprocess.PIPE, stderr=subprocess.PIPE, timeout=120)
    if r1.returncode or r2.returncode:
        raise RuntimeError('cc/ar failed: %r %r' % (r1.stderr[-200:], r2.stderr[-200:]))
    cache[version] = open(a, 'rb').read()
    return cache[version]


def real_rustc():
    """the toolchain's rustc, not the rustup proxy"""
    try:
        sysroot = subprocess.run(['rustc', '--print', 'sysroot'], stdout=subprocess.PIPE, timeout=60).stdout.decode().strip()
        p = os.path.join(sysroot, 'bin', 'rustc')
        if os.path.exists(p):
            return p
    except Exception:
        pass
    return shutil.which('rustc')


def free_port():
    s = socket.socket()
    s.bind(('127.0.0.1', 0))
    p = s.getsockname()[1]
    s.close()
    return p


def run(cmd, env, cwd, timeout=180):
    try:
        p = subprocess.run(cmd, env=env, cwd=cwd, stdout=subprocess.PIPE, stderr=subprocess.PIPE, timeout=timeout,
                           stdin=subprocess.DEVNULL)
        return p.returncode, p.stdout, p.stderr
    except subprocess.TimeoutExpired:
        return 124, b'', b'[timeout]'


def server_pids(cache_dir):
    want = ('SCCACHE_DIR=' + cache_dir).encode()
    out = []
    for d in os.listdir('/proc'):
        if not d.isdigit():
            continue
        try:
            env = open('/proc/%s/environ' % d, 'rb').read().split(b'\0')
            if want not in env or b'SCCACHE_START_SERVER=1' not in env:
                continue
            st = open('/proc/%s/stat' % d).read()
            state = st[st.rindex(')') + 2]
            if state != 'Z':
                out.append(int(d))
        except (OSError, ValueError):
            continue
    return out


class Server:
    def __init__(self, sccache, root):
        self.sccache = sccache
        self.cache = os.path.join(root, 'cache')
        os.makedirs(self.cache, exist_ok=True)
        self.base_env = {'PATH': os.environ.get('PATH', '/usr/bin:/bin'), 'HOME': os.environ.get('HOME', '/root'),
                         'SCCACHE_DIR': self.cache, 'SCCACHE_IDLE_TIMEOUT': '600', 'SCCACHE_LOG': 'off',
                         'SCCACHE_CACHE_SIZE': '1G'}
        self.root = root

    def start(self):
        for attempt in range(3):
            self.base_env['SCCACHE_SERVER_PORT'] = str(free_port())
            rc = subprocess.run([self.sccache, '--start-server'], env=self.base_env, cwd=self.root,
                                stdout=subprocess.DEVNULL, stderr=subprocess.DEVNULL, stdin=subprocess.DEVNULL,
                                timeout=120).returncode
            if rc == 0:
                return True
            time.sleep(0.5)
        return False

    def stats(self):
        rc, out, _ = run([self.sccache, '--show-stats', '--stats-format', 'json'], self.base_env, self.root)
        try:
            j = json.loads(out.decode())['stats']
            return {'hit': sum(j['cache_hits']['counts'].values()), 'miss': sum(j['cache_misses']['counts'].values()),
                    'notc': j['requests_not_cacheable'], 'notcompile': j['requests_not_compile'],
                    'errors': sum(j['cache_errors']['counts'].values()), 'req': j['compile_requests']}
        except Exception:
            return None

    def stop(self):
        try:
            subprocess.run([self.sccache, '--stop-server'], env=self.base_env, cwd=self.root, stdout=subprocess.DEVNULL,
                           stderr=subprocess.DEVNULL, stdin=subprocess.DEVNULL, timeout=60)
        except Exception:
            pass
        for _ in range(20):
            pids = server_pids(self.cache)
            if not pids:
                return
            time.sleep(0.1)
        for pid in server_pids(self.cache):
            try:
                os.kill(pid, 9)
            except OSError:
                pass


# ----------------------------------------------------------------------------------------------- crates

class Crate:
    """the inputs of one rustc invocation, as python data"""

    def __init__(self, rng, idx):
        self.name = 'kr%d' % idx
        self.files = {}
        self.env = {'CARGO_PKG_VERSION': '0.1.%d' % idx, 'CARGO_PKG_NAME': self.name, 'UNRELATED': 'a'}
        self.vv = None                     # option_env!("VV"): None = unset
        self.cfgs = ['feature="fast"', 'zed', 'feature="other"']
        self.lpaths = ['dependency=deps', 'dependency=deps_empty']
        self.dep_version = 1
        self.extra = ['-C', 'opt-level=1']
        self.emit = rng.choice(['link,dep-info,metadata', 'dep-info,link', 'dep-info,metadata', 'link,dep-info,metadata'])
        self.crate_type = rng.choice(['lib', 'rlib', 'lib'])
        self.out_dir = 'out'
        self.cwd = 'w'
        self.reg = None                    # option_env!("CARGO_REGISTRIES_MIRROR_TOKEN"): a CARGO_* name the key's CARGO_ loop skips
        self.have_cc = HAVE_CC
        self.color = None                  # --color never|always: not an input of the key, must not change what is stored
        self.keep = set()                  # files whose mtime must be put back after the next write (same size, SAME mtime)
        self.remap = False                 # --remap-path-prefix=<parent of the working directory>=/x
        self.natives = ['own', 'fallback'] # both hold libfoo.a; command-line order is not the sorted order
        self.foo = {'own': 1, 'fallback': 100}
        self.edits = 0
        lib = ['#![allow(dead_code)]\n', 'extern crate dep;\n', 'pub mod alpha;\n', 'pub mod beta;\n',
               '#[path = "sp ace.rs"]\npub mod spaced;\n',
               'pub static DATA: &str = include_str!("../data/d.txt");\n',
               'pub static VER: &str = env!("CARGO_PKG_VERSION");\n',
               'pub fn vv() -> Option<&\'static str> { option_env!("VV") }\n',
               '#[cfg(feature = "fast")]\npub fn fast() -> u32 { 1 }\n',
               '#[cfg(not(feature = "fast"))]\npub fn fast() -> u32 { 0 }\n',
               '#[cfg(zed)]\npub fn zed() -> u32 { 26 }\n',
               'pub fn usedep() -> u32 { dep::f() + %d }\n' % rng.below(100),
               'pub fn reg() -> Option<&\'static str> { option_env!("CARGO_REGISTRIES_MIRROR_TOKEN") }\n',
               'pub fn lint_probe() -> u32 { let unused_probe = 3; 4 }\n',
               'pub static PLUGIN: &[u8] = include_bytes!("../assets/plugin.so");\n',
               '#[cfg(not(debug_assertions))]\npub mod fast;\n#[cfg(debug_assertions)]\npub mod slow;\n']
        if self.have_cc:
            lib.append('extern "C" { fn foo_version() -> i32; }\npub fn foov() -> i32 { unsafe { foo_version() } }\n')
        self.files['src/lib.rs'] = ''.join(lib)
        self.files['src/alpha.rs'] = 'pub const TOK: &str = "t0000";\npub fn a() -> u32 { %d }\n' % rng.below(1000)
        self.files['src/beta.rs'] = 'pub mod inner;\npub fn b() -> u32 { inner::deep() }\n'
        self.files['src/beta/inner.rs'] = 'pub fn deep() -> u32 { %d }\n' % rng.below(1000)
        self.files['src/sp ace.rs'] = 'pub fn s() -> u32 { 5 }\n'
        self.files['assets/plugin.so'] = 'ELF-not-really %d\n' % rng.below(1000)   # embedded with include_bytes!: a source like any other
        self.files['src/fast.rs'] = 'pub fn speed() -> u32 { 9 }\n'        # only part of an optimised build (-C opt-level)
        self.files['src/slow.rs'] = 'pub fn speed() -> u32 { 1 }\n'
        self.files['data/d.txt'] = 'tok t0000\nincluded text %d\n' % rng.below(1000)
        self.initial = None

    def snapshot(self):
        return (dict(self.files), dict(self.env), self.vv, list(self.cfgs), list(self.lpaths), self.dep_version,
                list(self.extra), self.out_dir, self.cwd, self.reg, list(self.natives), dict(self.foo), self.remap, self.color)

    def restore(self, snap):
        (f, e, self.vv, c, l, self.dep_version, x, self.out_dir, self.cwd, self.reg, n, foo, self.remap, self.color) = snap
        self.files, self.env, self.cfgs, self.lpaths, self.extra = dict(f), dict(e), list(c), list(l), list(x)
        self.natives, self.foo = list(n), dict(foo)

    def argv(self):
        a = ['--crate-name', self.name, '--edition=2021', 'src/lib.rs', '--crate-type', self.crate_type,
             '--emit=' + self.emit, '--out-dir', self.out_dir]
        for c in self.cfgs:
            a += ['--cfg', c]
        if self.have_cc:
            a += ['-l', 'static=foo']
            for d in self.natives:
                a += ['-L', 'native=' + d]
        for l in self.lpaths:
            a += ['-L', l]
        a += ['--extern', 'dep=deps/libdep.rlib']
        if self.color is not None:
            a += ['--color', self.color]
        if self.remap:
            a += ['--remap-path-prefix=@PARENT@=/x']     # @PARENT@ = the directory above the working directory
        return a + self.extra

    def environment(self, base):
        e = dict(base)
        e.update(self.env)
        if self.vv is not None:
            e['VV'] = self.vv
        if self.reg is not None:
            e['CARGO_REGISTRIES_MIRROR_TOKEN'] = self.reg
        return e

    def fingerprint_no_extra(self):
        f = self.fingerprint(False)
        return f[:6] + f[7:]

    def fingerprint(self, with_out_dir):
        """every input the property names; --cfg as a multiset, -L order ignored"""
        return (tuple(sorted(self.files.items())), tuple(sorted((k, v) for k, v in self.env.items() if k.startswith('CARGO_'))),
                ('set', self.vv) if self.vv is not None else ('unset',), tuple(sorted(self.cfgs)), tuple(sorted(self.lpaths)),
                self.dep_version, tuple(self.extra), self.emit, self.crate_type, self.cwd,
                ('set', self.reg) if self.reg is not None else ('unset',), self.remap,
                # the static library: the search directories in order, and the archive rustc takes (the first one's)
                (tuple(self.natives), self.foo[self.natives[0]]) if self.have_cc else None,
                self.out_dir if with_out_dir else None)

    def source_files(self):
        # every compile passes -C opt-level=1: cfg(debug_assertions) is off, src/slow.rs is not part of the crate
        return sorted(f for f in self.files if f != 'src/slow.rs')


def append_line(crate, path, what):
    crate.edits += 1
    crate.files[path] = crate.files[path] + what % crate.edits


STEPS = {
    'same': lambda c: None,
    'edit_lib': lambda c: append_line(c, 'src/lib.rs', 'pub fn added_%d() {}\n'),
    'edit_mod': lambda c: append_line(c, 'src/alpha.rs', 'pub fn a_added_%d() {}\n'),
    'edit_nested': lambda c: append_line(c, 'src/beta/inner.rs', 'pub fn i_added_%d() {}\n'),
    'edit_spaced': lambda c: append_line(c, 'src/sp ace.rs', 'pub fn s_added_%d() {}\n'),
    'edit_included': lambda c: append_line(c, 'data/d.txt', 'more %d\n'),
    'vv_empty': lambda c: setattr(c, 'vv', ''),
    'vv_value': lambda c: setattr(c, 'vv', 'x=1'),
    'vv_unset': lambda c: setattr(c, 'vv', None),
    'cargo_ver': lambda c: c.env.__setitem__('CARGO_PKG_VERSION', c.env['CARGO_PKG_VERSION'] + '9'),
    'unrelated_env': lambda c: c.env.__setitem__('UNRELATED', c.env['UNRELATED'] + 'b'),
    'cfg_swap': lambda c: setattr(c, 'cfgs', c.cfgs[1:] + c.cfgs[:1]),
    'cfg_toggle': lambda c: setattr(c, 'cfgs', [x for x in c.cfgs if x != 'zed'] if 'zed' in c.cfgs else c.cfgs + ['zed']),
    'l_swap': lambda c: setattr(c, 'lpaths', c.lpaths[::-1]),
    'extern_v2': lambda c: setattr(c, 'dep_version', 2),
    'extern_v1': lambda c: setattr(c, 'dep_version', 1),
    'args_split': lambda c: setattr(c, 'extra', ['-C', 'opt-level=1', '-C', 'metadata=a', '-C', 'metadata=b']),
    'args_merged': lambda c: setattr(c, 'extra', ['-C', 'opt-level=1', '-C', 'metadata=a-Cmetadata=b']),
    'args_plain': lambda c: setattr(c, 'extra', ['-C', 'opt-level=1']),
    'warn': lambda c: append_line(c, 'src/alpha.rs', 'pub fn w_%d() { let unused_variable = 1; }\n'),
    'broken': lambda c: c.files.__setitem__('src/alpha.rs', c.files['src/alpha.rs'] + 'pub fn broken( {\n'),
    'unbreak': lambda c: c.files.__setitem__('src/alpha.rs', c.files['src/alpha.rs'].replace('pub fn broken( {\n', '')),
    'outdir': lambda c: setattr(c, 'out_dir', 'out2' if c.out_dir == 'out' else 'out'),
    'cwd_swap': lambda c: setattr(c, 'cwd', 'w2' if c.cwd == 'w' else 'w'),
    'revert_all': lambda c: c.restore(c.initial),
    # a CARGO_REGISTRIES_* variable read through option_env!
    'reg_set': lambda c: setattr(c, 'reg', 't0'),
    'reg_change': lambda c: setattr(c, 'reg', (c.reg or '') + 'x'),
    'reg_empty': lambda c: setattr(c, 'reg', ''),
    'reg_unset': lambda c: setattr(c, 'reg', None),
    # lint level flags: the later one wins in rustc, so the order is an input
    'lint_da': lambda c: setattr(c, 'extra', ['-C', 'opt-level=1', '-D', 'unused_variables', '-A', 'unused_variables']),
    'lint_ad': lambda c: setattr(c, 'extra', ['-C', 'opt-level=1', '-A', 'unused_variables', '-D', 'unused_variables']),
    'lint_wa': lambda c: setattr(c, 'extra', ['-C', 'opt-level=1', '--warn', 'unused', '-A', 'unused_variables']),
    'lint_aw': lambda c: setattr(c, 'extra', ['-C', 'opt-level=1', '-A', 'unused_variables', '--warn', 'unused']),
    # the static library exists in both search directories: rustc takes the one named first
    'static_first_edit': lambda c: bump_foo(c, 0),
    'static_second_edit': lambda c: bump_foo(c, 1),
    'static_swap': lambda c: setattr(c, 'natives', c.natives[::-1]),
}


def retoken(c, path, keep):
    """replace the fixed-width token of a file: same size, other content; keep = put the old mtime back"""
    import re as _re
    c.edits += 1
    c.files[path] = _re.sub(r't\d{4}', 't%04d' % (c.edits % 10000), c.files[path], count=1)
    if keep:
        c.keep.add(path)


def swap_files(c, a, b):
    c.files[a], c.files[b] = c.files[b], c.files[a]


def same_size_dep(c, keep):
    c.dep_version = 2 if c.dep_version == 1 else 1
    if keep:
        c.keep.add('deps/libdep.rlib')


def same_size_foo(c, keep):
    c.edits += 1
    c.foo[c.natives[0]] = 2000 + c.edits % 1000          # four digits: object code of the same size
    if keep:
        c.keep.add(c.natives[0] + '/libfoo.a')


STEPS.update({
    # same size, new mtime / same size, SAME mtime — for every file-input class, within one server lifetime
    'ss_src': lambda c: retoken(c, 'src/alpha.rs', False), 'sm_src': lambda c: retoken(c, 'src/alpha.rs', True),
    'ss_inc': lambda c: retoken(c, 'data/d.txt', False), 'sm_inc': lambda c: retoken(c, 'data/d.txt', True),
    'ss_ext': lambda c: same_size_dep(c, False), 'sm_ext': lambda c: same_size_dep(c, True),
    'ss_static': lambda c: same_size_foo(c, False), 'sm_static': lambda c: same_size_foo(c, True),
    # contents exchanged between two files of one group
    'swap_src': lambda c: swap_files(c, 'src/alpha.rs', 'src/sp ace.rs'),
    # the working directory under a remapped common parent
    'remap_on': lambda c: setattr(c, 'remap', True), 'remap_off': lambda c: setattr(c, 'remap', False),
    # the colour option is no input of the key: whoever creates the entry, every later reader must see what rustc shows HIM
    'color_never': lambda c: setattr(c, 'color', 'never'), 'color_always': lambda c: setattr(c, 'color', 'always'),
    'color_none': lambda c: setattr(c, 'color', None),
    # line endings only, of the include_str!d file and of a module
    # a module that only exists under cfg(not(debug_assertions)), i.e. because of -C opt-level
    'edit_plugin': lambda c: append_line(c, 'assets/plugin.so', 'more plugin bytes %d\n'),
    'edit_fast': lambda c: append_line(c, 'src/fast.rs', 'pub fn f_added_%d() {}\n'),
    'crlf_inc': lambda c: toggle_crlf(c, 'data/d.txt'), 'crlf_src': lambda c: toggle_crlf(c, 'src/alpha.rs'),
})


def toggle_crlf(c, path):
    t = c.files[path]
    c.files[path] = t.replace('\r\n', '\n') if '\r\n' in t else t.replace('\n', '\r\n')

def bump_foo(c, i):
    c.edits += 1
    c.foo[c.natives[i]] = 1000 + c.edits

FIXED_HISTORIES = [
    ['same', 'vv_empty', 'vv_value', 'vv_unset', 'vv_empty', 'edit_lib', 'vv_unset', 'revert_all'],
    ['args_split', 'args_merged', 'args_split', 'cfg_swap', 'l_swap', 'cfg_toggle', 'cfg_toggle', 'args_plain', 'outdir', 'outdir'],
    ['edit_lib', 'edit_mod', 'edit_nested', 'edit_included', 'edit_spaced', 'same', 'cwd_swap', 'same', 'cwd_swap', 'revert_all'],
    ['extern_v2', 'extern_v1', 'cargo_ver', 'unrelated_env', 'broken', 'broken', 'unbreak', 'warn', 'same'],
    ['reg_set', 'reg_change', 'reg_empty', 'reg_unset', 'reg_set', 'lint_da', 'lint_ad', 'lint_da', 'lint_wa', 'lint_aw', 'lint_wa', 'args_plain'],
    ['static_first_edit', 'same', 'static_second_edit', 'static_swap', 'static_first_edit', 'static_swap', 'static_second_edit',
     'static_first_edit', 'revert_all'],
]
RANDOM_POOL = ['same', 'edit_lib', 'edit_mod', 'edit_nested', 'edit_spaced', 'edit_included', 'vv_empty', 'vv_value',
               'vv_unset', 'cargo_ver', 'unrelated_env', 'cfg_swap', 'cfg_toggle', 'l_swap', 'extern_v2', 'extern_v1',
               'args_split', 'args_merged', 'args_plain', 'warn', 'revert_all', 'cwd_swap', 'reg_set', 'reg_change', 'reg_empty',
               'reg_unset', 'lint_da', 'lint_ad', 'lint_wa', 'lint_aw', 'static_first_edit', 'static_second_edit', 'static_swap']
FIXED_HISTORIES.append(['sm_src', 'ss_src', 'sm_inc', 'ss_inc', 'sm_ext', 'ss_ext', 'sm_ext', 'sm_static', 'ss_static', 'sm_static', 'same'])
FIXED_HISTORIES.append(['swap_src', 'swap_src', 'swap_src', 'remap_on', 'cwd_swap', 'cwd_swap', 'remap_off', 'cwd_swap', 'remap_on', 'same'])
FIXED_HISTORIES.append(['color_never', 'edit_lib', 'color_always', 'color_none', 'edit_mod', 'color_never', 'color_always', 'warn', 'color_never',
                        'crlf_inc', 'crlf_inc', 'crlf_src', 'edit_included', 'crlf_inc', 'crlf_src'])
RANDOM_POOL.extend(['color_never', 'color_always', 'color_none', 'crlf_inc', 'crlf_src', 'edit_fast'])
FIXED_HISTORIES[2] = FIXED_HISTORIES[2] + ['edit_fast', 'same', 'edit_fast', 'edit_plugin', 'same', 'edit_plugin']
RANDOM_POOL.append('edit_plugin')
RANDOM_POOL.extend(['ss_src', 'sm_src', 'ss_inc', 'sm_inc', 'ss_ext', 'sm_ext', 'ss_static', 'sm_static', 'swap_src', 'remap_on', 'remap_off'])


def read_dir(d):
    out = {}
    if os.path.isdir(d):
        for root, _, names in os.walk(d):
            for n in names:
                p = os.path.join(root, n)
                out[os.path.relpath(p, d)] = open(p, 'rb').read()
    return out


class Clock:
    """modification times are assigned, not taken from the wall clock: every write gets a new time in the past (two
    hours ago, 2 s apart) unless the old one is to be put back (same path, same mtime: what cp -p / rsync -t / a
    restored build cache do)"""

    def __init__(self):
        self.t = int(time.time()) - 7200

    def put(self, path, data, keep):
        old = None
        if keep and os.path.exists(path):
            old = os.stat(path).st_mtime_ns
        os.makedirs(os.path.dirname(path), exist_ok=True)
        with open(path, 'wb') as f:
            f.write(data if isinstance(data, bytes) else data.encode())
        if old is None:
            self.t += 2
            old = self.t * 1000000000 + 123456789
        os.utime(path, ns=(old, old))


def write_files(w, files, previous, clock=None, keep=()):
    for rel, txt in files.items():
        if previous.get(rel) != txt:
            p = os.path.join(w, rel)
            if clock is not None:
                clock.put(p, txt, rel in keep)
                continue
            os.makedirs(os.path.dirname(p), exist_ok=True)
            open(p, 'w').write(txt)
    for rel in previous:
        if rel not in files:
            try:
                os.remove(os.path.join(w, rel))
            except OSError:
                pass


def fresh_out(w, out_dir):
    p = os.path.join(w, out_dir)
    shutil.rmtree(p, ignore_errors=True)
    os.makedirs(p)


def run_history(sccache, rustc, rng, idx, steps, scratch):
    """returns dict(steps=[...], fatal=str|None)"""
    root = tempfile.mkdtemp(prefix='c05-e2e-%d-' % idx, dir=scratch)
    w = os.path.join(root, 'w')
    os.makedirs(w)
    srv = Server(sccache, root)
    res = {'idx': idx, 'labels': ['init'] + steps, 'steps': [], 'fatal': None, 'root': root}
    crate = Crate(rng, idx)
    try:
        # the extern crate, two versions, built directly
        for v in (1, 2):
            d = os.path.join(w, 'deps%d' % v)
            os.makedirs(d)
            open(os.path.join(w, 'dep%d.rs' % v), 'w').write('pub fn f() -> u32 { %d }\n' % v)
            rc, _, err = run([rustc, '--crate-name', 'dep', '--crate-type', 'rlib', '--emit=link', '--edition=2021',
                              'dep%d.rs' % v, '--out-dir', 'deps%d' % v], srv.base_env, w)
            if rc != 0:
                res['fatal'] = 'building the extern crate failed: ' + err.decode('utf-8', 'replace')[-300:]
                return res
        os.makedirs(os.path.join(w, 'deps'))
        os.makedirs(os.path.join(w, 'deps_empty'))
        shutil.copytree(w, os.path.join(root, 'w2'))
        dep_bytes = {v: open(os.path.join(w, 'deps%d' % v, 'libdep.rlib'), 'rb').read() for v in (1, 2)}
        if not srv.start():
            res['fatal'] = 'server did not start'
            return res
        crate.initial = crate.snapshot()
        written_in = {'w': {}, 'w2': {}}
        foo_in = {'w': {}, 'w2': {}}
        archive_cache = {}
        clock = Clock()
        dep_in = {'w': None, 'w2': None}
        w0 = w
        seen_full = set()
        seen_nodir = set()
        stored_from = {}
        stored_extra = {}
        for label in ['init'] + steps:
            if label != 'init':
                STEPS[label](crate)
            w = os.path.join(root, crate.cwd)
            write_files(w, crate.files, written_in[crate.cwd], clock, crate.keep)
            written_in[crate.cwd] = dict(crate.files)
            if dep_in[crate.cwd] != crate.dep_version:
                clock.put(os.path.join(w, 'deps', 'libdep.rlib'), dep_bytes[crate.dep_version], 'deps/libdep.rlib' in crate.keep)
                dep_in[crate.cwd] = crate.dep_version
            archives = {}
            if crate.have_cc:
                for d, ver in crate.foo.items():
                    data = make_archive(os.path.join(root, 'obj'), ver, archive_cache)
                    archives[d + '/libfoo.a'] = data
                    if foo_in[crate.cwd].get(d) != ver:
                        clock.put(os.path.join(w, d, 'libfoo.a'), data, (d + '/libfoo.a') in crate.keep)
                        foo_in[crate.cwd][d] = ver
            crate.keep = set()
            argv = [a.replace('@PARENT@', root) for a in crate.argv()]
            env = crate.environment(srv.base_env)
            # what sccache asks rustc for the key: the dep-info of this state (used for the model's prediction)
            dep_tmp = os.path.join(root, 'probe.d')
            probe = [a for a in argv if not a.startswith('--emit=')]
            i = probe.index('--out-dir')
            del probe[i:i + 2]
            rcp, _, _ = run([rustc] + probe + ['--emit', 'dep-info', '-o', dep_tmp], env, w)
            depinfo = open(dep_tmp, 'rb').read() if rcp == 0 and os.path.exists(dep_tmp) else None
            if os.path.exists(dep_tmp):
                os.remove(dep_tmp)
            fresh_out(w, crate.out_dir)
            rc_d, out_d, err_d = run([rustc] + argv, env, w)
            files_d = read_dir(os.path.join(w, crate.out_dir))
            fresh_out(w, crate.out_dir)
            s0 = srv.stats()
            rc_s, out_s, err_s = run([sccache, rustc] + argv, env, w)
            s1 = srv.stats()
            files_s = read_dir(os.path.join(w, crate.out_dir))
            if s0 is None or s1 is None:
                res['fatal'] = 'no statistics from the server at step %s' % label
                return res
            delta = {k: s1[k] - s0[k] for k in s0}
            observed = 'hit' if delta['hit'] == 1 and delta['miss'] == 0 else \
                       'miss' if delta['miss'] == 1 and delta['hit'] == 0 else \
                       'not_cacheable' if delta['notc'] == 1 else 'other:%r' % delta
            fp_full, fp_nodir = crate.fingerprint(True), crate.fingerprint(False)
            if fp_full in seen_full:
                expect = 'hit'
            elif fp_nodir in seen_nodir:
                expect = None          # same inputs, other out-dir: see finding C05-S21
            else:
                expect = 'miss'
            if rc_d == 0:
                seen_full.add(fp_full)
                seen_nodir.add(fp_nodir)
                if observed == 'miss':
                    stored_from[fp_nodir] = crate.out_dir
            # finding C05-S22: an earlier stored compile with the same inputs whose arguments differ from these but
            # concatenate to the same string (all of `extra` is hashed)
            fne = crate.fingerprint_no_extra()
            s22_with = None
            for ex in stored_extra.get(fne, []):
                if list(ex) != list(crate.extra) and ''.join(ex) == ''.join(crate.extra):
                    s22_with = list(ex)
            if rc_d == 0 and observed == 'miss':
                stored_extra.setdefault(fne, []).append(tuple(crate.extra))
            diff = sorted(n for n in set(files_d) | set(files_s) if files_d.get(n) != files_s.get(n))
            res['steps'].append({
                'label': label, 'argv': argv, 'vv': crate.vv, 'env': {k: v for k, v in env.items() if k not in srv.base_env},
                'expect': expect, 'observed': observed, 'rc_direct': rc_d, 'rc_sccache': rc_s,
                'stderr_equal': err_d == err_s, 'stdout_equal': out_d == out_s, 'diff_files': diff,
                'produced': sorted(files_d), 'stderr_direct': err_d.decode('utf-8', 'replace')[-400:],
                'stderr_sccache': err_s.decode('utf-8', 'replace')[-400:],
                'depinfo': depinfo, 'direct_dep_file': files_d.get(crate.name + '.d'),
                'files': dict(crate.files), 'dep_version': crate.dep_version, 'dep_bytes': dep_bytes[crate.dep_version],
                'sources': crate.source_files(), 'compiled_ok': rc_d == 0, 'out_dir': crate.out_dir, 'cwd': crate.cwd, 'entry_out_dir': stored_from.get(fp_nodir), 's22_with': s22_with, 'archives': archives,
            })
        return res
    except Exception as e:  # report, never hide
        import traceback
        res['fatal'] = traceback.format_exc()[-1500:]
        return res
    finally:
        srv.stop()
        shutil.rmtree(root, ignore_errors=True)


def judge(step):
    """the property's own predicates on one step of the REAL system: list of (kind, text)"""
    v = []
    lab = step['label']
    if step['rc_direct'] != step['rc_sccache']:
        v.append(('status', 'exit status %d through sccache, %d directly' % (step['rc_sccache'], step['rc_direct'])))
    if step['diff_files']:
        v.append(('outputs', 'files in --out-dir differ from a direct rustc run: %s (request was a cache %s)'
                  % (', '.join(step['diff_files']), step['observed'])))
    if not step['stderr_equal']:
        v.append(('diagnostics', 'stderr differs from a direct rustc run: %r vs %r' % (step['stderr_sccache'][-200:], step['stderr_direct'][-200:])))
    if not step['stdout_equal']:
        v.append(('diagnostics', 'stdout differs from a direct rustc run'))
    if step['expect'] == 'miss' and step['observed'] == 'hit':
        v.append(('false_hit', 'an input changed (%s) but the stored result was reused' % lab))
    if step['expect'] == 'hit' and step['observed'] != 'hit':
        v.append(('no_reuse', 'no input changed since an earlier compile (%s) but the request was a %s' % (lab, step['observed'])))
    return v


def run_all(sccache, rustc, rng, tier, scratch='/dev/shm'):
    hs = [list(h) for h in FIXED_HISTORIES]
    nrand, length = (12, 12) if tier != 'thorough' else (200, 20)
    for i in range(nrand):
        r = rng.fork('h%d' % i)
        h = [r.choice(RANDOM_POOL) for _ in range(length)]
        if tier == 'thorough' and i % 4 == 0:
            h.insert(r.below(len(h)), 'outdir')
        hs.append(h)
    jobs = [(i, h, rng.fork('crate%d' % i)) for i, h in enumerate(hs)]
    with ThreadPoolExecutor(max_workers=8) as ex:
        return list(ex.map(lambda j: run_history(sccache, rustc, j[2], j[0], j[1], scratch), jobs))
