"""c04_e2e.py — end-to-end scenarios for C04: the real sccache server + real gcc, a header edit between two
compiles, the object handed out by sccache compared with a direct compile, and the direct-mode decision in the
server log compared with the extracted model (Run/C04.v, leg ppcache).

One scenario = (config index 0..31, edit name).  Everything lives in a fresh directory under /dev/shm.
The cache directory is configured through the config FILE (any SCCACHE_DIR-style variable would wipe the
[cache.disk.preprocessor_cache_mode] section, finding S20)."""
import os
import shutil
import signal
import subprocess
import tempfile
import time

MAIN_C = b'#include "a.h"\n#include "b.h"\nint f(void) { return A_VAL + B_VAL; }\nconst char *s = STR;\n'
A_H = b'#define A_VAL 11\n'
B_H = b'#define B_VAL 22\n#define STR "x"\n'
B_H_DATE = b'// __DATE__\n#define B_VAL 22\n#define STR "x"\n'
B_H_USES_DATE = b'#define B_VAL 22\n#define STR __DATE__\n'

# name -> (initial b.h, edited b.h or None (=unchanged bytes), restore mtime?, SOURCE_DATE_EPOCH change?)
EDITS = {
    'none':                 (B_H, None, False, False),
    'touch':                (B_H, B_H, False, False),
    'same_size':            (B_H, B_H.replace(b'22', b'33'), False, False),
    'same_size_backdated':  (B_H, B_H.replace(b'22', b'33'), True, False),
    'size_change':          (B_H, B_H.replace(b'22', b'333'), False, False),
    'date_comment_same_size':           (B_H_DATE, B_H_DATE.replace(b'22', b'33'), False, False),
    'date_comment_same_size_backdated': (B_H_DATE, B_H_DATE.replace(b'22', b'33'), True, False),
    'date_used_epoch_changes':          (B_H_USES_DATE, None, False, True),
    'date_comment_unchanged':           (B_H_DATE, None, False, False),
}


def cfg_toml(cdir, ci):
    b = lambda x: 'true' if x else 'false'
    return ('[cache.disk]\ndir = "%s"\nsize = 100000000\n\n[cache.disk.preprocessor_cache_mode]\n'
            'use_preprocessor_cache_mode = true\nfile_stat_matches = %s\nuse_ctime_for_stat = %s\n'
            'ignore_time_macros = %s\nskip_system_headers = %s\nhash_working_directory = %s\n'
            % (cdir, b(ci & 16), b(ci & 8), b(ci & 4), b(ci & 2), b(ci & 1)))


def clean_env(extra):
    env = {k: v for k, v in os.environ.items() if not k.startswith('SCCACHE_') and k != 'SOURCE_DATE_EPOCH'}
    env.update(extra)
    return env


def run_scenario(sccache, ci, edit, keep=False):
    """returns dict(ok=bool, detail=..., decisions=[...], obj_equal=bool, ...)"""
    init, edited, backdate, epoch_change = EDITS[edit]
    d = tempfile.mkdtemp(prefix='vh-c04e-', dir='/dev/shm')
    srv = None
    try:
        src = os.path.join(d, 'src')
        os.makedirs(src)
        cdir = os.path.join(d, 'cache')
        open(os.path.join(d, 'config'), 'w').write(cfg_toml(cdir, ci))
        for n, b in ((b'main.c', MAIN_C), (b'a.h', A_H), (b'b.h', init)):
            open(os.path.join(src, n.decode()), 'wb').write(b)
        base_env = {'SCCACHE_CONF': os.path.join(d, 'config'), 'SCCACHE_SERVER_UDS': os.path.join(d, 'sock'),
                    'SCCACHE_IDLE_TIMEOUT': '0', 'SCCACHE_LOG': 'sccache::compiler=debug', 'SCCACHE_NO_DAEMON': '1'}
        # the server reads SOURCE_DATE_EPOCH from ITS environment: one server per epoch value
        def start_server(epoch):
            e = dict(base_env, SCCACHE_START_SERVER='1')
            if epoch is not None:
                e['SOURCE_DATE_EPOCH'] = epoch
            log = open(os.path.join(d, 'server.log'), 'ab')
            p = subprocess.Popen([sccache], env=clean_env(e), stdout=log, stderr=log, cwd=src)
            for _ in range(200):
                if os.path.exists(os.path.join(d, 'sock')):
                    break
                time.sleep(0.02)
            return p

        def stop_server(p):
            subprocess.run([sccache, '--stop-server'], env=clean_env(base_env), stdout=subprocess.DEVNULL,
                           stderr=subprocess.DEVNULL, timeout=30)
            try:
                p.wait(timeout=10)
            except subprocess.TimeoutExpired:
                p.kill()
                p.wait()
            try:
                os.unlink(os.path.join(d, 'sock'))
            except OSError:
                pass

        def compile_(out, epoch):
            # the client strips SOURCE_DATE_EPOCH from the environment it forwards (src/cmdline.rs), so the
            # compiler never sees it; only the server's own value enters the date salt
            e = dict(base_env)
            r = subprocess.run([sccache, 'gcc', '-c', 'main.c', '-o', out], env=clean_env(e), cwd=src,
                               stdout=subprocess.PIPE, stderr=subprocess.STDOUT, timeout=120)
            return r.returncode, r.stdout.decode('utf-8', 'replace')

        epoch0 = '86400' if epoch_change else None
        epoch1 = '172800' if epoch_change else None
        time.sleep(0.05)    # headers strictly older than the compile start (ctime cannot be backdated)
        srv = start_server(epoch0)
        rc1, o1 = compile_('o1.o', epoch0)
        rc2, o2 = compile_('o2.o', epoch0)
        st = os.stat(os.path.join(src, 'b.h'))
        if edited is not None:
            time.sleep(0.02)
            open(os.path.join(src, 'b.h'), 'wb').write(edited)
            if backdate:
                os.utime(os.path.join(src, 'b.h'), ns=(st.st_atime_ns, st.st_mtime_ns))
        if epoch_change:
            stop_server(srv)
            srv = start_server(epoch1)
        rc3, o3 = compile_('o3.o', epoch1)
        stop_server(srv)
        srv = None
        e = clean_env({})
        r = subprocess.run(['gcc', '-c', 'main.c', '-o', 'ref.o'], env=e, cwd=src, stdout=subprocess.PIPE,
                           stderr=subprocess.STDOUT, timeout=120)
        log = open(os.path.join(d, 'server.log'), 'rb').read().decode('utf-8', 'replace')
        decisions = []
        for line in log.split('\n'):
            if 'Preprocessor cache hit' in line:
                decisions.append('hit')
            elif 'Preprocessor cache miss' in line:
                decisions.append('miss')
            elif 'Disabling preprocessor cache mode' in line or 'too new' in line:
                decisions.append('disabled')
        rd = lambda n: open(os.path.join(src, n), 'rb').read() if os.path.exists(os.path.join(src, n)) else None
        res = dict(ci=ci, edit=edit, rcs=[rc1, rc2, rc3, r.returncode], decisions=decisions,
                   obj_equal=(rd('o3.o') is not None and rd('o3.o') == rd('ref.o')),
                   first_pair_equal=(rd('o1.o') == rd('o2.o')), out=(o1 + o2 + o3)[-500:])
        if keep:
            res['dir'] = d
        return res
    finally:
        if srv is not None:
            try:
                srv.kill()
                srv.wait()
            except Exception:
                pass
        if not keep:
            shutil.rmtree(d, ignore_errors=True)


def run_dotdot(sccache, ci=9):
    """-I../inc with a decoy <cwd>/inc/c.h: the header that is really read lives outside the working directory
    (defect S21: normalize_path dropped the leading `..`, the decoy was tracked, the edit below went unnoticed)"""
    d = tempfile.mkdtemp(prefix='vh-c04e-', dir='/dev/shm')
    srv = None
    try:
        w = os.path.join(d, 'top', 'w')
        os.makedirs(os.path.join(w, 'inc'))
        os.makedirs(os.path.join(d, 'top', 'inc'))
        open(os.path.join(d, 'top', 'inc', 'c.h'), 'w').write('#define C 3\n')
        open(os.path.join(w, 'inc', 'c.h'), 'w').write('#define C 9\n')
        open(os.path.join(w, 'input.c'), 'w').write('#include "c.h"\nint f(void) { return C; }\n')
        open(os.path.join(d, 'config'), 'w').write(cfg_toml(os.path.join(d, 'cache'), ci))
        base = {'SCCACHE_CONF': os.path.join(d, 'config'), 'SCCACHE_SERVER_UDS': os.path.join(d, 'sock'),
                'SCCACHE_IDLE_TIMEOUT': '0', 'SCCACHE_LOG': 'sccache::compiler=debug', 'SCCACHE_NO_DAEMON': '1'}
        time.sleep(0.05)
        log = open(os.path.join(d, 'server.log'), 'ab')
        srv = subprocess.Popen([sccache], env=clean_env(dict(base, SCCACHE_START_SERVER='1')), stdout=log, stderr=log, cwd=w)
        for _ in range(200):
            if os.path.exists(os.path.join(d, 'sock')):
                break
            time.sleep(0.02)

        def cc(out):
            return subprocess.run([sccache, 'gcc', '-I../inc', '-c', 'input.c', '-o', out], env=clean_env(base), cwd=w,
                                  stdout=subprocess.PIPE, stderr=subprocess.STDOUT, timeout=120).returncode
        rcs = [cc('o1.o'), cc('o2.o')]
        open(os.path.join(d, 'top', 'inc', 'c.h'), 'w').write('#define C 4\n')
        rcs.append(cc('o3.o'))
        rcs.append(subprocess.run(['gcc', '-I../inc', '-c', 'input.c', '-o', 'ref.o'], cwd=w, env=clean_env({}),
                                  stdout=subprocess.DEVNULL, stderr=subprocess.DEVNULL).returncode)
        subprocess.run([sccache, '--stop-server'], env=clean_env(base), stdout=subprocess.DEVNULL, stderr=subprocess.DEVNULL, timeout=30)
        try:
            srv.wait(timeout=10)
        except subprocess.TimeoutExpired:
            srv.kill()
        srv = None
        logt = open(os.path.join(d, 'server.log'), 'rb').read().decode('utf-8', 'replace')
        decisions = ['hit' if 'Preprocessor cache hit' in l else 'miss' for l in logt.split('\n')
                     if 'Preprocessor cache hit' in l or 'Preprocessor cache miss' in l]
        rd = lambda n: open(os.path.join(w, n), 'rb').read() if os.path.exists(os.path.join(w, n)) else None
        return dict(rcs=rcs, decisions=decisions, obj_equal=rd('o3.o') is not None and rd('o3.o') == rd('ref.o'))
    finally:
        if srv is not None:
            try:
                srv.kill()
                srv.wait()
            except Exception:
                pass
        shutil.rmtree(d, ignore_errors=True)


# ---- only the include-path-affecting arguments / environment change between two compiles ----
# name -> (directories/files to create below the project dir, (args1, env1), (args2, env2))
# x.c includes <value.h> (and uses A, B); the two requests must find DIFFERENT headers / get different macros, and the
# pairs marked "shift" have the same concatenation of arguments resp. NAME=value strings.
def arg_scenarios(proj):
    P = lambda *a: os.path.join(proj, *a)
    return {
        # boundary shift between two -I arguments (a directory whose name contains "-I")
        'I_shift': ({'bar/value.h': 1, 'foo-Ibar/value.h': 2, 'foo/.keep': None},
                    (['-Ifoo', '-Ibar'], {}), (['-Ifoo-Ibar'], {})),
        # -D boundary shift: A=1,B=2 versus A="1-DB=2" (B falls back to its default)
        'D_shift': ({'inc/value.h': 1}, (['-Iinc', '-DA=1', '-DB=2'], {}), (['-Iinc', '-DA=1-DB=2'], {})),
        # split "-I dir" / "-Idir" spelling with different directories of the same concatenation
        'I_split': ({'x/value.h': 1, '-Iy/value.h': 3, '-Iy-Ix/value.h': 4},
                    (['-I', '-Iy', '-Ix'], {}), (['-I-Iy-Ix'], {})),
        # ordinary changes
        'I_order': ({'a/value.h': 1, 'b/value.h': 2}, (['-Ia', '-Ib'], {}), (['-Ib', '-Ia'], {})),
        'I_other_dir': ({'a/value.h': 1, 'b/value.h': 2}, (['-Ia'], {}), (['-Ib'], {})),
        'D_value': ({'inc/value.h': 1}, (['-Iinc', '-DA=1'], {}), (['-Iinc', '-DA=7'], {})),
        'include_file': ({'inc/value.h': 1, 'c1.h': 'A 5', 'c2.h': 'A 6'},
                         (['-Iinc', '-include', 'c1.h'], {}), (['-Iinc', '-include', 'c2.h'], {})),
        'isystem_vs_I': ({'a/value.h': 1, 'b/value.h': 2}, (['-isystem', 'a', '-Ib'], {}), (['-Ia', '-isystem', 'b'], {})),
        # environment: CPATH / C_INCLUDE_PATH, incl. the name/value shift CPATH=/a C_INCLUDE_PATH=/b -> CPATH=/aC_INCLUDE_PATH=/b
        'CPATH_change': ({'a/value.h': 1, 'b/value.h': 2}, ([], {'CPATH': P('a')}), ([], {'CPATH': P('b')})),
        'CPATH_to_C_INCLUDE_PATH': ({'a/value.h': 1, 'b/value.h': 2},
                                    ([], {'CPATH': P('a'), 'C_INCLUDE_PATH': P('b')}), ([], {'CPATH': P('b'), 'C_INCLUDE_PATH': P('a')})),
        'env_shift': ({'b/value.h': 1, 'a/.keep': None, ('aC_INCLUDE_PATH=' + P('b')) + '/value.h': 2},
                      ([], {'CPATH': P('a'), 'C_INCLUDE_PATH': P('b')}),
                      ([], {'CPATH': P('a') + 'C_INCLUDE_PATH=' + P('b')})),
        'arg_to_env': ({'a/value.h': 1, 'b/value.h': 2}, (['-Ia'], {}), ([], {'CPATH': P('b')})),
    }


ARG_SCENARIOS = ['I_shift', 'D_shift', 'I_split', 'I_order', 'I_other_dir', 'D_value', 'include_file', 'isystem_vs_I',
                 'CPATH_change', 'CPATH_to_C_INCLUDE_PATH', 'env_shift', 'arg_to_env']


def run_arg_scenario(sccache, name, ci=9, swap=False):
    """compile x.c with (args1, env1), then with (args2, env2) - headers untouched; the second object must be what
    gcc alone produces for (args2, env2), and the second request must not be a direct-mode hit"""
    d = tempfile.mkdtemp(prefix='vh-c04e-', dir='/dev/shm')
    srv = None
    try:
        proj = os.path.join(d, 'proj')
        os.makedirs(proj)
        files, r1, r2 = arg_scenarios(proj)[name]
        if swap:
            r1, r2 = r2, r1
        for rel, val in files.items():
            p = os.path.join(proj, rel)
            os.makedirs(os.path.dirname(p), exist_ok=True)
            if val is None:
                open(p, 'w').write('')
            elif isinstance(val, int):
                open(p, 'w').write('#define VALUE %d\n' % val)
            else:
                open(p, 'w').write('#define %s\n' % val)
        open(os.path.join(proj, 'x.c'), 'w').write(
            '#include <value.h>\n#ifndef A\n#define A 100\n#endif\n#ifndef B\n#define B 200\n#endif\n'
            '#define STR2(x) #x\n#define STR(x) STR2(x)\n'
            'int value = VALUE;\nconst char *a = STR(A);\nconst char *b = STR(B);\n')
        open(os.path.join(d, 'config'), 'w').write(cfg_toml(os.path.join(d, 'cache'), ci))
        base = {'SCCACHE_CONF': os.path.join(d, 'config'), 'SCCACHE_SERVER_UDS': os.path.join(d, 'sock'),
                'SCCACHE_IDLE_TIMEOUT': '0', 'SCCACHE_LOG': 'sccache::compiler=debug', 'SCCACHE_NO_DAEMON': '1'}
        time.sleep(0.05)
        log = open(os.path.join(d, 'server.log'), 'ab')
        srv = subprocess.Popen([sccache], env=clean_env(dict(base, SCCACHE_START_SERVER='1')), stdout=log, stderr=log, cwd=proj)
        for _ in range(200):
            if os.path.exists(os.path.join(d, 'sock')):
                break
            time.sleep(0.02)

        def cc(wrapper, req, out):
            args, env = req
            e = clean_env(dict(base, **env) if wrapper else dict(env))
            e = {k: v for k, v in e.items() if wrapper or not k.startswith('SCCACHE_')}
            return subprocess.run(wrapper + ['gcc'] + args + ['-c', 'x.c', '-o', out], env=e, cwd=proj,
                                  stdout=subprocess.PIPE, stderr=subprocess.STDOUT, timeout=120).returncode
        rcs = [cc([sccache], r1, 'first.o'), cc([sccache], r1, 'again.o'), cc([sccache], r2, 'second.o'),
               cc([], r1, 'ref1.o'), cc([], r2, 'ref2.o')]
        subprocess.run([sccache, '--stop-server'], env=clean_env(base), stdout=subprocess.DEVNULL, stderr=subprocess.DEVNULL, timeout=30)
        try:
            srv.wait(timeout=10)
        except subprocess.TimeoutExpired:
            srv.kill()
        srv = None
        logt = open(os.path.join(d, 'server.log'), 'rb').read().decode('utf-8', 'replace')
        hits = [l for l in logt.split('\n') if 'Preprocessor cache hit' in l]
        rd = lambda n: open(os.path.join(proj, n), 'rb').read() if os.path.exists(os.path.join(proj, n)) else None
        return dict(name=name, swap=swap, rcs=rcs, direct_hits=len(hits),
                    first_ok=rd('first.o') is not None and rd('first.o') == rd('ref1.o') == rd('again.o'),
                    second_ok=rd('second.o') is not None and rd('second.o') == rd('ref2.o'),
                    refs_differ=rd('ref1.o') != rd('ref2.o'))
    finally:
        if srv is not None:
            try:
                srv.kill()
                srv.wait()
            except Exception:
                pass
        shutil.rmtree(d, ignore_errors=True)


# ---- the same source compiled from two working directories (relative include paths mean other directories) ----
CWD_VARIANTS = ['top_then_sub', 'sub_then_top', 'abs_input', 'iquote']


def run_cwd_scenario(sccache, variant, ci=9):
    """proj/config.h (VALUE 1), proj/sub/config.h (VALUE 2), proj/sub/x.c includes <config.h>.  The file is compiled
    with `-I.` from proj/ (as sub/x.c) and from proj/sub/ (as x.c) - same absolute input path, same hashed arguments,
    other headers.  With hash_working_directory (ci has bit 0) the second request must not be answered from the first
    one's manifest: its object must equal what gcc alone produces in that directory."""
    d = tempfile.mkdtemp(prefix='vh-c04e-', dir='/dev/shm')
    srv = None
    try:
        proj = os.path.join(d, 'proj')
        sub = os.path.join(proj, 'sub')
        os.makedirs(sub)
        open(os.path.join(proj, 'config.h'), 'w').write('#define VALUE 1\n')
        open(os.path.join(sub, 'config.h'), 'w').write('#define VALUE 2\n')
        inc = '#include "config.h"' if variant == 'iquote' else '#include <config.h>'
        open(os.path.join(sub, 'x.c'), 'w').write(inc + '\nint value = VALUE;\n')
        flag = ['-iquote', '.'] if variant == 'iquote' else ['-I.']
        if variant == 'iquote':
            # "config.h" is first looked up next to x.c: give both directories a different neighbour-independent header
            os.rename(os.path.join(sub, 'config.h'), os.path.join(sub, 'cfg2.h'))
            os.makedirs(os.path.join(sub, 'q'))
            os.makedirs(os.path.join(proj, 'q'))
            open(os.path.join(proj, 'q', 'config.h'), 'w').write('#define VALUE 1\n')
            open(os.path.join(sub, 'q', 'config.h'), 'w').write('#define VALUE 2\n')
            os.unlink(os.path.join(proj, 'config.h'))
            os.unlink(os.path.join(sub, 'cfg2.h'))
            flag = ['-iquote', 'q']
        absx = os.path.join(sub, 'x.c')
        top = (proj, absx if variant == 'abs_input' else 'sub/x.c')
        low = (sub, absx if variant == 'abs_input' else 'x.c')
        first, second = (low, top) if variant == 'sub_then_top' else (top, low)
        open(os.path.join(d, 'config'), 'w').write(cfg_toml(os.path.join(d, 'cache'), ci))
        base = {'SCCACHE_CONF': os.path.join(d, 'config'), 'SCCACHE_SERVER_UDS': os.path.join(d, 'sock'),
                'SCCACHE_IDLE_TIMEOUT': '0', 'SCCACHE_LOG': 'sccache::compiler=debug', 'SCCACHE_NO_DAEMON': '1'}
        time.sleep(0.05)
        log = open(os.path.join(d, 'server.log'), 'ab')
        srv = subprocess.Popen([sccache], env=clean_env(dict(base, SCCACHE_START_SERVER='1')), stdout=log, stderr=log, cwd=proj)
        for _ in range(200):
            if os.path.exists(os.path.join(d, 'sock')):
                break
            time.sleep(0.02)

        def cc(wrapper, req, out):
            cwd, src = req
            e = clean_env(base) if wrapper else clean_env({})
            return subprocess.run(wrapper + ['gcc'] + flag + ['-c', src, '-o', os.path.join(d, out)], env=e, cwd=cwd,
                                  stdout=subprocess.PIPE, stderr=subprocess.STDOUT, timeout=120).returncode
        rcs = [cc([sccache], first, 'first.o'), cc([sccache], first, 'again.o'), cc([sccache], second, 'second.o'),
               cc([], first, 'ref1.o'), cc([], second, 'ref2.o')]
        subprocess.run([sccache, '--stop-server'], env=clean_env(base), stdout=subprocess.DEVNULL, stderr=subprocess.DEVNULL, timeout=30)
        try:
            srv.wait(timeout=10)
        except subprocess.TimeoutExpired:
            srv.kill()
        srv = None
        logt = open(os.path.join(d, 'server.log'), 'rb').read().decode('utf-8', 'replace')
        hits = [l for l in logt.split('\n') if 'Preprocessor cache hit' in l]
        rd = lambda n: open(os.path.join(d, n), 'rb').read() if os.path.exists(os.path.join(d, n)) else None
        return dict(variant=variant, rcs=rcs, direct_hits=len(hits),
                    first_ok=rd('first.o') is not None and rd('first.o') == rd('ref1.o') == rd('again.o'),
                    second_ok=rd('second.o') is not None and rd('second.o') == rd('ref2.o'),
                    refs_differ=rd('ref1.o') != rd('ref2.o'))
    finally:
        if srv is not None:
            try:
                srv.kill()
                srv.wait()
            except Exception:
                pass
        shutil.rmtree(d, ignore_errors=True)


# ---- a header is saved while a compile that includes it is in flight ----
RACE_VARIANTS = ['after', 'slow_after', 'during', 'before']


def run_race(sccache, variant, ci=9):
    """A `gcc` shim (the real gcc, except that ONE armed -E run also saves cfg.h: right after the preprocessor
    finished / 0.3 s after / while the preprocessor process is still alive / just before it starts) makes the
    interleaving deterministic.  The racy request itself is not judged; every LATER request, made when nothing is
    being edited any more, must produce what gcc alone produces from the files as they then are.  The model
    (Model/PpTimeline.v, C04_record_instant_sound) says the racy request must give up recording ("too new")."""
    realcc = shutil.which('gcc')
    d = tempfile.mkdtemp(prefix='vh-c04e-', dir='/dev/shm')
    srv = None
    try:
        w = os.path.join(d, 'w')
        os.makedirs(os.path.join(w, 'extra'))
        os.makedirs(os.path.join(d, 'bin'))
        armed = os.path.join(w, 'armed')
        save = 'cp "%s/cfg.h.new" "%s/cfg.h"' % (w, w)
        body = {
            'after': '"%s" "$@"; rc=$?; %s; exit $rc' % (realcc, save),
            'slow_after': '"%s" "$@"; rc=$?; sleep 0.3; %s; exit $rc' % (realcc, save),
            'during': 'o=$(mktemp); "%s" "$@" > "$o"; rc=$?; %s; sleep 0.2; cat "$o"; rm -f "$o"; exit $rc' % (realcc, save),
            'before': '%s; "%s" "$@"; exit $?' % (save, realcc),
        }[variant]
        shim = os.path.join(d, 'bin', 'gcc')
        open(shim, 'w').write('#!/bin/sh\npre=\nfor a in "$@"; do [ "$a" = -E ] && pre=1; done\n'
                              'if [ -n "$pre" ] && [ -e "%s" ]; then\n  rm -f "%s"\n  %s\nfi\nexec "%s" "$@"\n'
                              % (armed, armed, body, realcc))
        os.chmod(shim, 0o755)
        open(os.path.join(w, 'a.c'), 'w').write('#include "cfg.h"\nint limit(void) { return CFG_LIMIT; }\n')
        open(os.path.join(w, 'cfg.h'), 'w').write('#define CFG_LIMIT 100\n')
        open(os.path.join(w, 'cfg.h.new'), 'w').write('#define CFG_LIMIT 200\n')
        open(os.path.join(d, 'config'), 'w').write(cfg_toml(os.path.join(d, 'cache'), ci))
        base = {'SCCACHE_CONF': os.path.join(d, 'config'), 'SCCACHE_SERVER_UDS': os.path.join(d, 'sock'),
                'SCCACHE_IDLE_TIMEOUT': '0', 'SCCACHE_LOG': 'sccache::compiler=debug', 'SCCACHE_NO_DAEMON': '1'}
        time.sleep(0.05)
        log = open(os.path.join(d, 'server.log'), 'ab')
        srv = subprocess.Popen([sccache], env=clean_env(dict(base, SCCACHE_START_SERVER='1')), stdout=log, stderr=log, cwd=w)
        for _ in range(200):
            if os.path.exists(os.path.join(d, 'sock')):
                break
            time.sleep(0.02)
        judged = []

        def check(what, args):
            r1 = subprocess.run([realcc] + args + ['-o', 'direct.o'], cwd=w, env=clean_env({}), stdout=subprocess.PIPE,
                                stderr=subprocess.STDOUT, timeout=120)
            r2 = subprocess.run([sccache, shim] + args + ['-o', 'wrapped.o'], cwd=w, env=clean_env(base),
                                stdout=subprocess.PIPE, stderr=subprocess.STDOUT, timeout=120)
            rd = lambda n: open(os.path.join(w, n), 'rb').read() if os.path.exists(os.path.join(w, n)) else None
            ok = r1.returncode == 0 and r2.returncode == 0 and rd('direct.o') is not None and rd('direct.o') == rd('wrapped.o')
            judged.append((what, ok, open(os.path.join(w, 'cfg.h')).read().strip()))
            for n in ('direct.o', 'wrapped.o'):
                try:
                    os.unlink(os.path.join(w, n))
                except OSError:
                    pass
        check('cfg.h = 100, first compile', ['-c', 'a.c'])
        check('cfg.h = 100, again', ['-c', 'a.c'])
        mark = os.path.getsize(os.path.join(d, 'server.log'))
        open(armed, 'w').write('')
        subprocess.run([sccache, shim, '-Iextra', '-c', 'a.c', '-o', 'racy.o'], cwd=w, env=clean_env(base),
                       stdout=subprocess.PIPE, stderr=subprocess.STDOUT, timeout=120)
        fired = not os.path.exists(armed)
        racy_log = open(os.path.join(d, 'server.log'), 'rb').read()[mark:].decode('utf-8', 'replace')
        time.sleep(0.05)
        check('cfg.h = 200, nothing is being edited any more (-Iextra)', ['-Iextra', '-c', 'a.c'])
        check('cfg.h = 200, again (-Iextra)', ['-Iextra', '-c', 'a.c'])
        check('cfg.h = 200, without the extra include path', ['-c', 'a.c'])
        subprocess.run([sccache, '--stop-server'], env=clean_env(base), stdout=subprocess.DEVNULL, stderr=subprocess.DEVNULL, timeout=30)
        try:
            srv.wait(timeout=10)
        except subprocess.TimeoutExpired:
            srv.kill()
        srv = None
        return dict(variant=variant, fired=fired, judged=judged,
                    racy_gave_up=('is too new' in racy_log or 'Disabling preprocessor cache mode' in racy_log),
                    racy_recorded='Added result key' in racy_log)
    finally:
        if srv is not None:
            try:
                srv.kill()
                srv.wait()
            except Exception:
                pass
        shutil.rmtree(d, ignore_errors=True)


def model_case(ci, edit):
    """the same scenario as a ppcache case for the extracted model (system headers, unchanged, are left out)"""
    init, edited, backdate, epoch_change = EDITS[edit]
    m0 = 490000
    files0 = [[b'a.h', 0, A_H, m0, 0], [b'b.h', 0, init, m0, 0]]
    look_files = []
    if edited is not None:
        look_files = [[b'b.h', 0, edited, m0 if backdate else 495020, 0]]
    d0 = b'86400' if epoch_change else b''
    d1 = b'172800' if epoch_change else b''
    return [[b'rec', 1, d0, b'k1', [[b'a.h', 0], [b'b.h', 0]], files0], [b'look', d0, []], [b'look', d1, look_files]]


if __name__ == '__main__':
    import sys
    import json
    if sys.argv[2] == 'cwd':
        for v in CWD_VARIANTS:
            print(json.dumps(run_cwd_scenario(sys.argv[1], v)))
    elif sys.argv[2] == 'race':
        for v in RACE_VARIANTS:
            print(json.dumps(run_race(sys.argv[1], v)))
    elif sys.argv[2] == 'args':
        for n in ARG_SCENARIOS:
            print(json.dumps(run_arg_scenario(sys.argv[1], n)))
    else:
        print(json.dumps(run_scenario(sys.argv[1], int(sys.argv[2]), sys.argv[3], keep=len(sys.argv) > 4), indent=1))
