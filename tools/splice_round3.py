#!/usr/bin/env python3
"""tools/splice_round3.py — splice the paragraphs of seeded/ROUND3_NOTES.md ("Cxx: text", "pipeline ...: text") into
DESIGN.md: each property's paragraph goes to the end of its §5 section between <!-- R3:Cxx --> markers (idempotent);
the pipeline paragraph goes to the end of §2.1."""
import os, re
V = os.path.dirname(os.path.dirname(os.path.abspath(__file__)))
notes = open(os.path.join(V, 'seeded', 'ROUND3_NOTES.md')).read()
paras = {}
for blk in re.split(r'\n\s*\n', notes):
    m = re.match(r'(C\d\d|pipeline)[^:]*:\s*(.*)', blk.strip(), re.S)
    if m:
        paras.setdefault(m.group(1), []).append(m.group(2).strip())
d = open(os.path.join(V, 'DESIGN.md')).read()
d = re.sub(r'\n<!-- R3:(\w+) -->.*?<!-- /R3:\1 -->\n', '\n', d, flags=re.S)
heads = [(m.start(), m.group(0)) for m in re.finditer(r'^(###? .*)$', d, re.M)]
def section_end(pred):
    for i, (pos, h) in enumerate(heads):
        if pred(h):
            return heads[i + 1][0] if i + 1 < len(heads) else len(d)
    return None
ins = []
for k, ps in paras.items():
    if k == 'pipeline':
        e = section_end(lambda h: h.startswith('### 2.1'))
        text = '*Added after round 3*: ' + ' '.join(ps)
    else:
        e = section_end(lambda h, k=k: h.startswith('### %s ' % k))
        text = '*Added after round 3 of seeding*: ' + ' '.join(ps)
    if e is None:
        print('no section for', k)
        continue
    ins.append((e, '<!-- R3:%s -->\n%s\n<!-- /R3:%s -->\n\n' % (k, text, k)))
for e, t in sorted(ins, reverse=True):
    d = d[:e].rstrip('\n') + '\n\n' + t + d[e:]
open(os.path.join(V, 'DESIGN.md'), 'w').write(d)
print('spliced', sorted(paras))
