#!/usr/bin/env python3
"""tools/thmcounts.py — recount the pinned theorems in coq/theories/Properties/*.v and refresh the count line in
DESIGN.md §7 ("All N pinned theorems (C01 a + ...)") and the Composition header.  Prints the counts."""
import os, re
V = os.path.dirname(os.path.dirname(os.path.abspath(__file__)))
P = os.path.join(V, 'coq', 'theories', 'Properties')
counts = {}
for f in sorted(os.listdir(P)):
    if f.endswith('.v'):
        counts[f[:-2]] = len(re.findall(r'^Theorem\s', open(os.path.join(P, f)).read(), re.M))
total = sum(counts.values())
txt = ' + '.join('%s %d' % (k, v) for k, v in counts.items())
d = open(os.path.join(V, 'DESIGN.md')).read()
d, n = re.subn(r'All \d+ pinned theorems \([^)]*\)', 'All %d pinned theorems (%s)' % (total, txt), d)
d, m = re.subn(r'`Properties/Composition.v` \(\d+ pinned theorems', '`Properties/Composition.v` (%d pinned theorems' % counts.get('Composition', 0), d)
open(os.path.join(V, 'DESIGN.md'), 'w').write(d)
print(total, txt, '| replaced', n, m)
