#!/usr/bin/env python3
"""tools/overview.py — refresh the table of DESIGN.md §1.1: model files = the Model/*.v files in the dependency closure
of Properties/<id>.v (own models; shared Base/ excluded), pinned theorems, and fixed/open counts from
KNOWN_FINDINGS.json.  The hand-written columns (claim, ties) are kept."""
import json, os, re, sys
V = os.path.dirname(os.path.dirname(os.path.abspath(__file__)))
sys.path.insert(0, V)
from lib import pipeline
k = json.load(open(os.path.join(V, 'KNOWN_FINDINGS.json')))
fixed = {}
for l in k['fixed']:
    m = re.match(r'fixed: property=(C\d+)', l)
    if m:
        fixed[m.group(1)] = fixed.get(m.group(1), 0) + 1
opn = {}
for e in k['findings']:
    opn[e['property']] = opn.get(e['property'], 0) + 1
p = os.path.join(V, 'DESIGN.md')
d = open(p).read()
a = d.index('| id | claim |')
b = d.index('\n\n', a)
rows = d[a:b].split('\n')
out = ['| id | claim | model files (`coq/theories/Model/`) | pinned theorems | ties | genuine defects on the pinned tree |', '|---|---|---|---|---|---|']
for r in rows[2:]:
    c = [x.strip() for x in r.strip().strip('|').split('|')]
    pid, claim = c[0], c[1]
    ties = c[-2]
    pf = 'theories/Properties/%s.v' % pid
    clo = pipeline.coq_closure([pf])
    models = sorted(os.path.basename(f)[:-2] for f in clo if '/Model/' in f)
    n = len(re.findall(r'^Theorem\s', open(os.path.join(V, 'coq', pf)).read(), re.M))
    o = []
    if fixed.get(pid):
        o.append('%d fixed' % fixed[pid])
    if opn.get(pid):
        o.append('%d open' % opn[pid])
    out.append('| %s | %s | %s | %d | %s | %s |' % (pid, claim, ' '.join(models), n, ties, ', '.join(o) or 'none found'))
d = d[:a] + '\n'.join(out) + d[b:]
open(p, 'w').write(d)
print('\n'.join(out))
