#!/usr/bin/env python3
"""tools/splice_findings.py — regenerate DESIGN.md §6.1 (repaired) and §6.2 (open) from KNOWN_FINDINGS.json."""
import json, os, re
V = os.path.dirname(os.path.dirname(os.path.abspath(__file__)))
k = json.load(open(os.path.join(V, 'KNOWN_FINDINGS.json')))
p = os.path.join(V, 'DESIGN.md')
d = open(p).read()
fx = []
for l in k['fixed']:
    m = re.match(r'fixed: property=(C\d+) (\S+) (.*)', l, re.S)
    if m:
        fx.append('* **%s** `%s` — %s' % (m.group(1), m.group(2), re.sub(r'\s+', ' ', m.group(3))))
    else:
        fx.append('* ' + l)
op = ['* **%s** `%s` (leg `%s`) — %s' % (e['property'], e['id'], e.get('leg', '-'), re.sub(r'\s+', ' ', e['what'])) for e in k['findings']]
a = d.index('### 6.1 '); a2 = d.index('\n', a) + 1
b = d.index('### 6.2 '); b2 = d.index('\n', b) + 1
c = d.index('### 6.3 ')
d = d[:a2] + '\n' + '\n'.join(fx) + '\n\n' + d[b:b2] + '\n' + '\n'.join(op) + '\n\n' + d[c:]
open(p, 'w').write(d)
print(len(fx), 'fixed,', len(op), 'open')
