#!/usr/bin/env bash
# Run /repo's pinned test suite with the guard OFF and compare with BASELINE.json's stable set.
cd /repo && cargo nextest run --workspace --no-fail-fast --tool-config-file pb:/w/lib/nextest.toml --profile pb --test-threads 8 --offline > /tmp/baseline_run.log 2>&1
python3 - <<'PY'
import json,re
b=json.load(open('/root/.vp/BASELINE.json')); stable=set(b['stable_pass'])
log=open('/tmp/baseline_run.log').read()
fails=set(a+'::'+t for a,t in re.findall(r'FAIL \[[^\]]*\] \(\d+/\d+\) (\S+) (\S+)',log))
bad=[f for f in fails if f in stable]
print(re.findall(r'Summary.*',log)); print('stable tests failing now:', bad)
PY
