#!/usr/bin/env python3
"""Render seeded/RESULTS.json (+ each seed's meta.json) as the markdown table of DESIGN.md §9.1 and splice it in
between the markers <!-- SEEDTABLE:BEGIN --> / <!-- SEEDTABLE:END --> (or replace the bare word SEEDTABLE)."""
import json, os, re
V = os.path.dirname(os.path.dirname(os.path.abspath(__file__)))
R = json.load(open(os.path.join(V, 'seeded', 'RESULTS.json')))

def short(txt, n=150):
    txt = re.sub(r'\s+', ' ', txt or '').strip()
    return (txt[:n - 1] + '…') if len(txt) > n else txt

rows = []
stats = dict(total=0, own_first=0, own_now=0, any_now=0, concrete_now=0)
for seed in sorted(R, key=lambda s: (s.split('-')[0], int(s.split('-')[1]))):
    e = R[seed]
    own = e['property']
    meta = {}
    mp = os.path.join(V, 'seeded', seed, 'meta.json')
    if os.path.exists(mp):
        try:
            meta = json.load(open(mp))
        except Exception:
            meta = {}
    what = short(meta.get('what_breaks', ''), 170).replace('|', '/')
    own_runs = [r for r in e['runs'] if r['check'] == own]
    first = next((r for r in own_runs if r['phase'].endswith('first')), None) or (own_runs[0] if own_runs else None)
    last = own_runs[-1] if own_runs else None
    cross = sorted(set(r['check'] for r in e['runs'] if r['check'] != own and r['verdict'] == 'CAUGHT'))
    def fmt(r):
        if r is None:
            return '–'
        if r['verdict'] == 'MISSED':
            return 'missed'
        return 'caught' + (' (failing input)' if r['kind'] == 'failing-input' else ' (no-failing-input-found)')
    stats['total'] += 1
    if first and first['verdict'] == 'CAUGHT':
        stats['own_first'] += 1
    if last and last['verdict'] == 'CAUGHT':
        stats['own_now'] += 1
        if last['kind'] == 'failing-input':
            stats['concrete_now'] += 1
    if (last and last['verdict'] == 'CAUGHT') or cross:
        stats['any_now'] += 1
    rows.append('| %s | %s | %s | %s | %s |' % (seed, what, fmt(first), fmt(last) if last is not first else 'same', ', '.join(cross) or '–'))
hdr = ('%d seeded changes in total.  Own check on the first run: %d caught; own check now (after the strengthening each miss '
       'triggered): %d caught, %d of them with a concrete failing input; caught by at least one check now: %d.\n\n'
       '| seed | what it breaks (seeder\'s words, shortened) | own check, first run | own check, now | also caught by |\n|---|---|---|---|---|\n'
       % (stats['total'], stats['own_first'], stats['own_now'], stats['concrete_now'], stats['any_now']))
table = '<!-- SEEDTABLE:BEGIN -->\n' + hdr + '\n'.join(rows) + '\n<!-- SEEDTABLE:END -->'
p = os.path.join(V, 'DESIGN.md')
s = open(p).read()
if '<!-- SEEDTABLE:BEGIN -->' in s:
    s = re.sub(r'<!-- SEEDTABLE:BEGIN -->.*?<!-- SEEDTABLE:END -->', lambda m: table, s, flags=re.S)
else:
    s = s.replace('SEEDTABLE', table, 1)
open(p, 'w').write(s)
print(stats)
