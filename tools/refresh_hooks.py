#!/usr/bin/env python3
"""Refresh the list of hook commits (tools/claims.json _hooks -> MANIFEST.hooks.source_commits) and DESIGN.md §3's list
from /repo's main branch."""
import json, re, subprocess
hooks = subprocess.run("git -C /repo log --reverse --format='%h %s' --grep='^verif hooks' 0ffab70..main", shell=True, stdout=subprocess.PIPE).stdout.decode().strip().split('\n')
c = json.load(open('/verif/tools/claims.json'))
c['_hooks'] = [h.split()[0] for h in hooks]
json.dump(c, open('/verif/tools/claims.json', 'w'), indent=1)
p = '/verif/DESIGN.md'
s = open(p).read()
a = s.index('(`tools/baseline_check.sh` compares a nextest run with `BASELINE.json`\'s stable set).')
b = s.index('What they are: re-exports of')
lst = '\n\n' + ''.join('* `%s`\n' % h for h in hooks) + '\n'
s = s[:a] + "(`tools/baseline_check.sh` compares a nextest run with `BASELINE.json`'s stable set)." + lst + s[b:]
open(p, 'w').write(s)
print(len(hooks), 'hook commits')
