#!/usr/bin/env python3
"""Regenerate MANIFEST.json from tools/claims.json (per-property level texts) + properties.jsonl.
A property is claimed iff it has an entry in claims.json; all others are listed under not_applicable with a reason."""
import json, os, subprocess
V = os.path.dirname(os.path.dirname(os.path.abspath(__file__)))
props = [json.loads(l) for l in open(os.path.join(V, 'properties.jsonl'))]
claims = json.load(open(os.path.join(V, 'tools', 'claims.json')))
hooks = claims.pop('_hooks')
na = claims.pop('_not_applicable', {})
m = {
    "version": 1,
    "setup_cmd": "./check --setup",
    "hooks": {
        "guard": "sccache_verif",
        "enable": "RUSTFLAGS=\"--cfg sccache_verif\" (harness/.cargo/config.toml for the harness crate; lib/pipeline.py sets it when building /repo's own binaries into .build/target-e2e)",
        "baseline_off_cmd": "cd /repo && cargo nextest run --workspace --no-fail-fast --tool-config-file pb:/w/lib/nextest.toml --profile pb --test-threads 8 --offline",
        "source_commits": hooks,
        "add_only": True,
    },
    "engines": [{
        "name": "coq-model+correspondence", "path": "/verif/check",
        "serves_properties": sorted(claims.keys()),
        "kind_free_text": "Coq 8.16 theorems over executable Gallina models (coq/theories); models extracted to OCaml (ExtrOcamlBasic) and run against the real Rust code on the same cases by /verif/harness; translators regenerate source-derived tables into coq/theories/Gen on every run",
    }],
    "checks": [],
    "not_applicable": [],
    "notes": "DESIGN.md explains the approach, the trusted base and, per property, which checks catch which seeded changes; KNOWN_FINDINGS.json lists repaired (fixed:) and recorded (open) genuine defects.",
}
def pinned(pid):
    import re
    f = os.path.join(V, 'coq', 'theories', 'Properties', pid + '.v')
    return len(re.findall(r'^Theorem\s', open(f).read(), re.M)) if os.path.exists(f) else 0
for p in props:
    pid = p['id']
    if pid in claims:
        c = claims[pid]
        import re
        c['text'] = re.sub(r'now \d+ pinned theorems in Properties/%s\.v' % pid, 'now %d pinned theorems in Properties/%s.v' % (pinned(pid), pid), c['text'])
        m['checks'].append({
            "property_id": pid,
            "quick_cmd": "./check %s --tier quick" % pid,
            "thorough_cmd": "./check %s --tier thorough" % pid,
            "evidence_file": "/verif/evidence/%s.json" % pid,
            "replay_cmd_template": "./check %s --replay {path}" % pid,
            "engine": "coq-model+correspondence",
            "level_claimed": {"category": "proof", "text": c['text'], "design_ref": "DESIGN.md §5 " + pid},
            "level_note": c['note'],
            "technique": c.get('technique', "machine-checked proof in Coq (Rocq) over an executable model + model/implementation correspondence check"),
        })
    else:
        m['not_applicable'].append({"property_id": pid, "reason": na.get(pid, "not yet claimed: model and correspondence under construction (DESIGN.md §5)")})
json.dump(m, open(os.path.join(V, 'MANIFEST.json'), 'w'), indent=1)
print('claimed:', sorted(claims.keys()))
