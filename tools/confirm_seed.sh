#!/usr/bin/env bash
# tools/confirm_seed.sh <PID>  — in the scratch worktree /tmp/seed/<PID>: for N=1..3 run the demo on the clean tree
# (must pass) and with patch.diff applied (must fail); log to /tmp/seed/confirm-<PID>.log
pid=$1; wt=/tmp/seed/$pid; log=/tmp/seed/confirm-$pid.log; : > $log
export CARGO_TARGET_DIR=/tmp/seed/$pid-target CARGO_NET_OFFLINE=true
for n in ${2:-1 2 3}; do
  d=/tmp/seed/out/$pid-$n; [ -d $d ] || continue
  git -C $wt checkout -q -- . ; git -C $wt clean -fdq
  bash $d/demo.sh $wt > $d/clean.out 2>&1; c=$?
  git -C $wt checkout -q -- . ; git -C $wt clean -fdq
  if git -C $wt apply $d/patch.diff 2>>$log; then bash $d/demo.sh $wt > $d/patched.out 2>&1; p=$?; else p=APPLYFAIL; fi
  git -C $wt checkout -q -- . ; git -C $wt clean -fdq
  echo "$pid-$n clean_rc=$c patched_rc=$p" >> $log
done
rm -rf /tmp/seed/$pid-target
echo DONE >> $log
