#!/usr/bin/env python3
"""Maintain seeded/RESULTS.json from seedtest2 log lines:  tools/seedresults.py <phase> <logfile>...
A log line is `CAUGHT (Cxx, Cyy-n, rc=1) kind | detail` or `MISSED (Cxx, Cyy-n, rc=0)`; Cxx = the property whose
check was run (may differ from the seed's own property = cross-property detection)."""
import json, os, re, sys
V = os.path.dirname(os.path.dirname(os.path.abspath(__file__)))
p = os.path.join(V, 'seeded', 'RESULTS.json')
R = json.load(open(p)) if os.path.exists(p) else {}
phase = sys.argv[1]
for f in sys.argv[2:]:
    for line in open(f):
        m = re.match(r'(CAUGHT|MISSED) \((C\d+), (C\d+-\d+), rc=\d+\)\s*(.*)', line)
        if not m:
            continue
        verdict, prop, seed, rest = m.groups()
        own = seed.split('-')[0]
        e = R.setdefault(seed, {'property': own, 'runs': []})
        kind = ''
        if verdict == 'CAUGHT':
            kind = 'failing-input' if rest.startswith('failing-input') else 'no-failing-input-found'
        e['runs'].append({'phase': phase, 'check': prop, 'verdict': verdict, 'kind': kind, 'detail': rest[:220]})
json.dump(R, open(p, 'w'), indent=1, sort_keys=True)
print(len(R), 'seeds')
