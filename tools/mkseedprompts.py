#!/usr/bin/env python3
"""tools/mkseedprompts.py <round> <first N>  — write /tmp/seed/prompts/Cxxr<round>.txt for every property from the
round-3 prompt texts (which contain ONLY the property text and generic instructions, nothing from /verif), with the
list of already used ideas regenerated from seeded/*/meta.json and the output numbers first..first+2."""
import glob, json, os, re, sys
rnd, first = sys.argv[1], int(sys.argv[2])
V = os.path.dirname(os.path.dirname(os.path.abspath(__file__)))
for pf in sorted(glob.glob('/tmp/seed/prompts/C??r3.txt')):
    pid = os.path.basename(pf)[:3]
    t = open(pf).read()
    head = t[:t.index('Already used:')]
    head = head.replace('%sr3' % pid, '%sr%s' % (pid, rnd))
    a, b, c = first, first + 1, first + 2
    head = head.replace('N=7..9', 'N=%d..%d' % (a, c)).replace('(N = 7, 8, 9)', '(N = %d, %d, %d)' % (a, b, c))
    head = head.replace('Number your outputs 7, 8, 9', 'Number your outputs %d, %d, %d' % (a, b, c))
    head = head.replace('/tmp/seed/out/%s-7, -8, -9' % pid, '/tmp/seed/out/%s-%d, -%d, -%d' % (pid, a, b, c))
    assert '-7' not in head and ' 7,' not in head, (pid, [l for l in head.split('\n') if '7' in l][:3])
    used = []
    for d in sorted(glob.glob(os.path.join(V, 'seeded', pid + '-*')), key=lambda x: int(x.rsplit('-', 1)[1])):
        m = json.load(open(os.path.join(d, 'meta.json')))
        used.append('- ' + re.sub(r'\s+', ' ', m['what_breaks'])[:300])
    open('/tmp/seed/prompts/%sr%s.txt' % (pid, rnd), 'w').write(head + 'Already used:\n' + '\n'.join(used) + '\n')
    print(pid, len(used))
