#!/usr/bin/env bash
# tools/runall.sh [tier] [ids...] — run the claimed checks one after another; one summary line each.
tier=${1:-quick}; shift
ids=${@:-$(python3 -c "import json;print(' '.join(c['property_id'] for c in json.load(open('/verif/MANIFEST.json'))['checks']))")}
cd /verif
for p in $ids; do
  s=$(date +%s); out=$(./check $p --tier $tier 2>&1); rc=$?; e=$(date +%s)
  echo "$p rc=$rc $((e-s))s $(echo "$out" | grep -E "quick:|thorough:" | sed 's/.*obligations/obligations/')"
  echo "$out" | grep -E "^VIOLATION|OBLIGATION FAILED" | cut -c1-300
done
