#!/usr/bin/env bash
# tools/seedsweep.sh "<seeds>" [ids...] — run the quick checks under other VERIF_SEED values (evidence goes to
# /tmp/ev-sweep, never to /verif/evidence); one line per (seed, property); a check must be green for EVERY seed.
seeds=$1; shift
ids=${@:-$(python3 -c "import json;print(' '.join(c['property_id'] for c in json.load(open('/verif/MANIFEST.json'))['checks']))")}
cd /verif
for s in $seeds; do for p in $ids; do
  t0=$(date +%s); out=$(VERIF_SEED=$s VERIF_EVIDENCE_DIR=/tmp/ev-sweep ./check $p --tier quick 2>&1); rc=$?; t1=$(date +%s)
  echo "seed=$s $p rc=$rc $((t1-t0))s $(echo "$out" | grep -E "quick:" | sed 's/.*obligations/obligations/')"
  echo "$out" | grep -E "^VIOLATION|OBLIGATION FAILED" | cut -c1-300
  if [ $rc -ne 0 ]; then for f in $(echo "$out" | grep -o "replay=[^ ]*" | cut -d= -f2); do cp "$f" /tmp/ev-sweep/ 2>/dev/null; done; fi
done; done
