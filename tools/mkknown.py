#!/usr/bin/env python3
"""Assemble KNOWN_FINDINGS.json from the per-property fragments known/Cxx.json (only for properties that are
claimed in tools/claims.json) and known/_manual.json.  Commit ids in 'fixed:' lines are rewritten to the ids the
commits have on /repo's main branch (matched by subject)."""
import json, os, re, subprocess, glob
V = os.path.dirname(os.path.dirname(os.path.abspath(__file__)))
claims = json.load(open(os.path.join(V, 'tools', 'claims.json')))

def git(*a):
    return subprocess.run(['git', '-C', '/repo'] + list(a), stdout=subprocess.PIPE, stderr=subprocess.DEVNULL).stdout.decode().strip()

main_by_subject = {}
for line in git('log', '--format=%h\t%s', '0ffab70..main').split('\n'):
    if '\t' in line:
        h, s = line.split('\t', 1)
        main_by_subject[s] = h

def remap(text):
    def sub(m):
        h = m.group(0)
        subj = git('log', '-1', '--format=%s', h)
        if subj and subj in main_by_subject:
            return main_by_subject[subj]
        return h
    return re.sub(r'\b[0-9a-f]{7}\b', sub, text)

findings, fixed = [], []
frags = sorted(glob.glob(os.path.join(V, 'known', '*.json')))
for f in frags:
    data = json.load(open(f))
    pid = os.path.basename(f)[:-5]
    if pid != '_manual' and pid not in claims:
        continue
    items = data if isinstance(data, list) else data.get('findings', [])
    for e in items:
        if e.get('status') == 'open':
            findings.append(e)
        elif e.get('status') == 'fixed':
            line = e.get('fixed_line') or ('fixed: property=%s %s %s' % (e['property'], e.get('commit', e.get('fix', '')), e['what']))
            fixed.append(remap(line))
    if isinstance(data, dict):
        for l in data.get('fixed', []):
            fixed.append(remap(l))
out = {
    "_comment": "Known findings for mozilla/sccache at the pinned commit. 'findings' = genuine defects recorded but not repaired (status open): the property's check prints a KNOWN-FINDING line for each and exits 0, and still reports any other violation. 'fixed' = genuine defects repaired by a fix: commit in /repo (ids on /repo's main branch); a fixed entry suppresses nothing. This file is assembled by tools/mkknown.py from known/*.json and is never written at run time.",
    "findings": findings,
    "fixed": fixed,
}
json.dump(out, open(os.path.join(V, 'KNOWN_FINDINGS.json'), 'w'), indent=1)
print('open:', [e['id'] for e in findings]); print('fixed:', len(fixed))
