//! c10 — drives the REAL `CacheRead::extract_objects` (src/cache/cache.rs) and observes HOW it installs
//! the output files.
//!
//!   c10 strace   one case per line: build a real entry with the real `CacheWrite::from_objects`, optionally
//!                damage one member inside the zip, pre-populate the output directories, then re-execute
//!                THIS binary (`c10 child <scratch>`) under `strace -f` so that every file-changing system
//!                call of the real extraction is recorded; turn the log into FsModel events and print
//!                ( result (canonical events) (final state per output) leftovers (aliases_bad rewritten_in_place) (raw events) ).
//!                The previous output may be a plain file, a file with a second hard link, a symbolic link to a
//!                file elsewhere, or sit in a 0700 directory; `aliases_bad` counts other names of the previous
//!                file that no longer hold its complete bytes, `rewritten_in_place` outputs whose new content sits in
//!                the PREVIOUS inode (whatever calls put it there).  ANY open-for-writing / truncate / write / data call
//!                on an existing non-temp path below the output root is reported, however the path was reached.
//!   c10 live     large outputs; the real extraction runs on a tokio blocking thread while polling readers
//!                open+read every output path and holders keep a descriptor opened before; prints
//!                ( result torn holders_bad (final state) leftovers (aliases_bad rewritten_in_place) (counts) ).
//!   c10 request  whole requests through the real `get_cached_or_compile` (gcc front end, shell-script compiler, real
//!                DiskCache): a miss that stores the entry, then — previous outputs in place, entry possibly damaged,
//!                compiler failing — the request that should be a hit, in a child under strace; same observation
//!                as `strace` with result hit | compile_failed | error.  Catches what the CALLER of
//!                extract_objects does to the output paths.
//!   c10 child D  (internal) run the extraction described in D/spec.sx on D/entry.bin.
use sccache::verif_hooks::cache::{CacheRead, CacheWrite, DecompressionFailure, FileObjectSource};
use std::collections::HashMap;
use std::ffi::OsStr;
use std::io::{Cursor, Read, Seek, SeekFrom};
use std::os::unix::ffi::OsStrExt;
use std::os::unix::fs::PermissionsExt;
use std::path::{Path, PathBuf};
use std::sync::atomic::{AtomicBool, Ordering};
use std::sync::Arc;
use vh::Sx;

// ---------------------------------------------------------------- cases

#[derive(Clone, Debug)]
struct Out {
    dir: String,
    name: String,
    size: usize,
    mode: u32,
    optional: bool,
    old: Option<(usize, u32)>, // size, mode
    old_is_dir: bool,
    /// the output path is a character device (a private copy of the null device, made with mknod in the scratch
    /// directory): the code writes INTO it instead of renaming a file over it
    old_special: bool,
    /// shape of the previous output: plain | hardlink (a second name `links/<i>` for the same inode) |
    /// symlink (the output path is a symbolic link to `links/<i>`) | dir700 (its directory has mode 0700)
    shape: String,
    fault: String, // none missing corrupt_head corrupt_mid corrupt_tail bad_method no_dir
    /// what the NEW content looks like: mixed (default) | zeros | ff — long constant runs compress by far more
    /// than 1000:1 (a zero-filled data section, a sparse profile file)
    kind: String,
}

impl Out {
    fn rel(&self) -> String {
        format!("{}/{}", self.dir, self.name)
    }
}

fn parse_outs(x: &Sx) -> Vec<Out> {
    x.list()
        .iter()
        .map(|o| {
            let old = o.arg(5);
            let old_is_dir = old.is_sym("dir");
            let old_special = old.is_sym("special");
            Out {
                dir: o.arg(0).str(),
                name: o.arg(1).str(),
                size: o.arg(2).u64() as usize,
                mode: o.arg(3).u64() as u32,
                optional: o.arg(4).as_bool(),
                old: if old.list().len() >= 2 { Some((old.arg(0).u64() as usize, old.arg(1).u64() as u32)) } else { None },
                old_is_dir,
                old_special,
                shape: if old.list().len() >= 3 { old.arg(2).str() } else { "plain".to_string() },
                fault: o.arg(6).str(),
                kind: if o.list().len() > 7 { o.arg(7).str() } else { "mixed".to_string() },
            }
        })
        .collect()
}

/// deterministic, partly compressible bytes; first byte tags old ('O') / new ('N') contents
fn content(seed: u64, idx: usize, new: bool, size: usize) -> Vec<u8> {
    let mut s = seed
        .wrapping_mul(0x9E37_79B9_7F4A_7C15)
        .wrapping_add((idx as u64 + 1).wrapping_mul(0xBF58_476D_1CE4_E5B9))
        .wrapping_add(if new { 0x1234_5678 } else { 0x8765_4321 });
    let mut next = move || {
        s = s.wrapping_add(0x9E37_79B9_7F4A_7C15);
        let mut z = s;
        z = (z ^ (z >> 30)).wrapping_mul(0xBF58_476D_1CE4_E5B9);
        z = (z ^ (z >> 27)).wrapping_mul(0x94D0_49BB_1331_11EB);
        z ^ (z >> 31)
    };
    let mut v = Vec::with_capacity(size);
    while v.len() < size {
        let r = next();
        let run = 1 + (r >> 8) as usize % 96;
        if r & 3 == 0 {
            // a run of one byte
            let b = (r >> 40) as u8;
            for _ in 0..run {
                v.push(b);
            }
        } else {
            let mut left = run;
            while left > 0 {
                let w = next().to_le_bytes();
                let k = left.min(8);
                v.extend_from_slice(&w[..k]);
                left -= k;
            }
        }
    }
    v.truncate(size);
    if size > 0 {
        v[0] = if new { b'N' } else { b'O' };
    }
    v
}

// ---------------------------------------------------------------- building (and damaging) a real entry

fn le16(b: &[u8], o: usize) -> usize {
    b[o] as usize | (b[o + 1] as usize) << 8
}
fn le32(b: &[u8], o: usize) -> usize {
    le16(b, o) | le16(b, o + 2) << 16
}

/// (data start, data length) of member `name`: walk the local file headers
fn member_data(zip: &[u8], name: &[u8]) -> Option<(usize, usize)> {
    let mut o = 0;
    while o + 30 <= zip.len() && zip[o..o + 4] == [0x50, 0x4b, 3, 4] {
        let csize = le32(zip, o + 18);
        let nlen = le16(zip, o + 26);
        let elen = le16(zip, o + 28);
        let start = o + 30 + nlen + elen;
        if &zip[o + 30..o + 30 + nlen] == name {
            return Some((start, csize));
        }
        o = start + csize;
    }
    None
}

/// offset of the central-directory header of member `name`
fn central_header(zip: &[u8], name: &[u8]) -> Option<usize> {
    let mut o = 0;
    while o + 46 <= zip.len() {
        if zip[o..o + 4] == [0x50, 0x4b, 1, 2] {
            let nlen = le16(zip, o + 28);
            if o + 46 + nlen <= zip.len() && &zip[o + 46..o + 46 + nlen] == name {
                return Some(o);
            }
        }
        o += 1;
    }
    None
}

struct Built {
    td: tempfile::TempDir,
    outroot: PathBuf,
    entry: Vec<u8>,
    objects: Vec<FileObjectSource>,
    news: Vec<Vec<u8>>,
    olds: Vec<Option<Vec<u8>>>,
    /// inode number of the previous regular file at each output path
    old_inos: Vec<Option<u64>>,
}

fn build(seed: u64, outs: &[Out], rt: &tokio::runtime::Runtime) -> Result<Built, String> {
    let td = tempfile::Builder::new().prefix("vh-c10-").tempdir_in("/dev/shm").map_err(|e| e.to_string())?;
    let src = td.path().join("src");
    let outroot = td.path().join("out");
    std::fs::create_dir_all(&src).unwrap();
    std::fs::create_dir_all(&outroot).unwrap();
    let mut news = vec![];
    let mut olds = vec![];
    let mut stored = vec![];
    for (i, o) in outs.iter().enumerate() {
        let c = match o.kind.as_str() {
            // a short header, then one constant run (what a linker-filled table or a placeholder file looks like)
            "zeros" | "ff" => {
                let fill = if o.kind == "zeros" { 0u8 } else { 0xffu8 };
                let mut v = vec![fill; o.size];
                let head = content(seed, i, true, o.size.min(24));
                v[..head.len()].copy_from_slice(&head);
                v
            }
            _ => content(seed, i, true, o.size),
        };
        let p = src.join(format!("s{}", i));
        std::fs::write(&p, &c).unwrap();
        std::fs::set_permissions(&p, std::fs::Permissions::from_mode(o.mode)).unwrap();
        news.push(c);
        if o.fault != "missing" {
            stored.push(FileObjectSource { key: format!("k{}", i), path: p, optional: false });
        }
    }
    // the REAL writer
    let h = rt.handle().clone();
    let entry = rt
        .block_on(async move { CacheWrite::from_objects(stored, &h).await })
        .map_err(|e| format!("from_objects: {:#}", e))?;
    let mut entry = entry.finish().map_err(|e| format!("finish: {:#}", e))?;
    for (i, o) in outs.iter().enumerate() {
        let name = format!("k{}", i);
        match o.fault.as_str() {
            "corrupt_head" | "corrupt_mid" | "corrupt_tail" => {
                let (st, len) = member_data(&entry, name.as_bytes()).ok_or("member not found")?;
                if len == 0 {
                    return Err("empty member data".into());
                }
                let at = match o.fault.as_str() {
                    "corrupt_head" => st,
                    "corrupt_tail" => st + len - 1,
                    _ => st + len / 2 + (seed as usize % 7).min(len - len / 2 - 1),
                };
                entry[at] ^= 0x5a;
            }
            "bad_method" => {
                let c = central_header(&entry, name.as_bytes()).ok_or("central header not found")?;
                entry[c + 10] = 99;
                entry[c + 11] = 0;
            }
            _ => {}
        }
    }
    // the output directories as the request finds them
    for (i, o) in outs.iter().enumerate() {
        let d = outroot.join(&o.dir);
        if o.fault != "no_dir" {
            std::fs::create_dir_all(&d).unwrap();
        }
        let p = d.join(&o.name);
        if o.old_is_dir {
            std::fs::create_dir_all(&p).unwrap();
            olds.push(None);
        } else if o.old_special {
            // never the real /dev/null: a node of our own with the null device's numbers
            let cp = std::ffi::CString::new(p.as_os_str().as_bytes()).unwrap();
            let rc = unsafe { libc::mknod(cp.as_ptr(), libc::S_IFCHR | 0o666, libc::makedev(1, 3)) };
            if rc != 0 {
                return Err(format!("mknod: {}", std::io::Error::last_os_error()));
            }
            std::fs::set_permissions(&p, std::fs::Permissions::from_mode(0o666)).unwrap();
            // what anybody reads there, before, during and after: nothing
            olds.push(Some(vec![]));
        } else if let Some((sz, mode)) = o.old {
            let c = content(seed, i, false, sz);
            let links = outroot.join("links");
            let alias = links.join(format!("{}", i));
            match o.shape.as_str() {
                "symlink" => {
                    // the previous output is a symbolic link to a file elsewhere
                    std::fs::create_dir_all(&links).unwrap();
                    std::fs::write(&alias, &c).unwrap();
                    std::fs::set_permissions(&alias, std::fs::Permissions::from_mode(mode)).unwrap();
                    std::os::unix::fs::symlink(&alias, &p).unwrap();
                }
                "hardlink" => {
                    // the previous output has a second name (cargo / ccache-style hard-linked artefacts)
                    std::fs::create_dir_all(&links).unwrap();
                    std::fs::write(&p, &c).unwrap();
                    std::fs::set_permissions(&p, std::fs::Permissions::from_mode(mode)).unwrap();
                    std::fs::hard_link(&p, &alias).unwrap();
                }
                _ => {
                    std::fs::write(&p, &c).unwrap();
                    std::fs::set_permissions(&p, std::fs::Permissions::from_mode(mode)).unwrap();
                }
            }
            if o.shape == "dir700" {
                std::fs::set_permissions(&d, std::fs::Permissions::from_mode(0o700)).unwrap();
            }
            olds.push(Some(c));
        } else {
            olds.push(None);
        }
    }
    let objects: Vec<FileObjectSource> = outs
        .iter()
        .enumerate()
        .map(|(i, o)| FileObjectSource { key: format!("k{}", i), path: outroot.join(&o.dir).join(&o.name), optional: o.optional })
        .collect();
    let old_inos = objects
        .iter()
        .map(|o| {
            use std::os::unix::fs::MetadataExt;
            use std::os::unix::fs::FileTypeExt;
            std::fs::symlink_metadata(&o.path).ok().filter(|m| m.file_type().is_file() || m.file_type().is_char_device()).map(|m| m.ino())
        })
        .collect();
    Ok(Built { td, outroot, entry, objects, news, olds, old_inos })
}

fn result_kind(r: &Result<(), anyhow::Error>) -> &'static str {
    match r {
        Ok(()) => "ok",
        Err(e) if e.downcast_ref::<DecompressionFailure>().is_some() => "decompression_failure",
        Err(_) => "other_error",
    }
}

fn final_state(b: &Built, outs: &[Out]) -> (Sx, usize, Sx) {
    use std::os::unix::fs::MetadataExt;
    let mut fin = vec![];
    let mut alias_bad = 0;
    let mut inplace = 0;
    for (i, o) in outs.iter().enumerate() {
        let p = b.outroot.join(&o.dir).join(&o.name);
        // every other name of the PREVIOUS file (second hard link, symlink target) must still hold the complete
        // previous bytes: the previous inode is never written
        if o.shape == "hardlink" || o.shape == "symlink" {
            let alias = b.outroot.join("links").join(format!("{}", i));
            if std::fs::read(&alias).ok() != b.olds[i] {
                alias_bad += 1;
            }
        }
        let (class, mode) = match std::fs::symlink_metadata(&p) {
            Err(_) => ("absent", 0),
            Ok(m) if o.old_special => {
                use std::os::unix::fs::FileTypeExt;
                // still OUR device node (same inode, still a character device)?
                let same = m.file_type().is_char_device() && b.old_inos[i] == Some(m.ino()) && m.rdev() == libc::makedev(1, 3);
                (if same { "special" } else { "other" }, m.permissions().mode() & 0o7777)
            }
            Ok(m) if m.is_dir() => (if o.old_is_dir { "old" } else { "other" }, 0),
            Ok(m) if m.file_type().is_symlink() => {
                // still the previous symbolic link: fine only if what it points to is the untouched previous file
                let c = std::fs::read(&p).unwrap_or_default();
                let mode = std::fs::metadata(&p).map(|m| m.permissions().mode() & 0o7777).unwrap_or(0);
                (if o.shape == "symlink" && b.olds[i].as_ref() == Some(&c) { "old" } else { "other" }, mode)
            }
            Ok(m) => {
                let c = std::fs::read(&p).unwrap_or_default();
                let class = if c == b.news[i] {
                    "new"
                } else if b.olds[i].as_ref() == Some(&c) {
                    "old"
                } else {
                    "other"
                };
                // the new content must sit in a NEW inode (installed by rename), not in the previous one
                if class == "new" && b.olds[i].is_some() && b.old_inos[i] == Some(m.ino()) {
                    inplace += 1;
                }
                (class, m.permissions().mode() & 0o7777)
            }
        };
        fin.push(Sx::L(vec![Sx::sym(&o.rel()), Sx::sym(class), Sx::n(mode)]));
    }
    // anything in the output directories that is not an output
    let mut left = 0;
    let mut dirs: Vec<&String> = outs.iter().map(|o| &o.dir).collect();
    dirs.sort();
    dirs.dedup();
    for d in dirs {
        if let Ok(rd) = std::fs::read_dir(b.outroot.join(d)) {
            for e in rd.flatten() {
                let n = e.file_name().to_string_lossy().into_owned();
                if !outs.iter().any(|o| &o.dir == d && o.name == n) {
                    left += 1;
                }
            }
        }
    }
    (Sx::L(fin), left, Sx::L(vec![Sx::usize(alias_bad), Sx::usize(inplace)]))
}

// ---------------------------------------------------------------- child: the extraction itself

fn child(scratch: &Path) -> i32 {
    let spec = std::fs::read_to_string(scratch.join("spec.sx")).unwrap();
    let spec = Sx::parse(spec.trim()).unwrap();
    let objects: Vec<FileObjectSource> = spec
        .list()
        .iter()
        .map(|o| FileObjectSource {
            key: o.arg(0).str(),
            path: PathBuf::from(OsStr::from_bytes(o.arg(1).bytes())),
            optional: o.arg(2).as_bool(),
        })
        .collect();
    let entry = std::fs::read(scratch.join("entry.bin")).unwrap();
    let rt = tokio::runtime::Builder::new_multi_thread().worker_threads(1).enable_all().build().unwrap();
    // warm the blocking pool so that thread start-up is outside the marked window
    let h = rt.handle().clone();
    rt.block_on(async { h.spawn_blocking(|| ()).await.unwrap() });
    let _ = std::fs::metadata(scratch.join("__c10_begin__"));
    let _ = std::fs::File::open(scratch.join("__c10_begin__"));
    let kind = match CacheRead::from(Cursor::new(entry)) {
        Err(_) => "unreadable_entry",
        Ok(cr) => {
            let h = rt.handle().clone();
            let r = rt.block_on(async move { cr.extract_objects(objects, &h).await });
            result_kind(&r)
        }
    };
    let _ = std::fs::File::open(scratch.join("__c10_end__"));
    println!("{}", kind);
    0
}

// ---------------------------------------------------------------- strace log -> events

#[derive(Debug, Clone)]
struct Call {
    pid: String,
    name: String,
    args: String,
    ret: i64,
}

/// quoted strings of an argument list, C escapes undone (paths here are plain ASCII)
fn quoted(args: &str) -> Vec<String> {
    let b = args.as_bytes();
    let mut out = vec![];
    let mut i = 0;
    while i < b.len() {
        if b[i] == b'"' {
            let mut s = Vec::new();
            i += 1;
            while i < b.len() && b[i] != b'"' {
                if b[i] == b'\\' && i + 1 < b.len() {
                    i += 1;
                    match b[i] {
                        b'n' => s.push(b'\n'),
                        b't' => s.push(b'\t'),
                        b'0'..=b'7' => {
                            let mut v = 0u32;
                            let mut k = 0;
                            while k < 3 && i < b.len() && (b'0'..=b'7').contains(&b[i]) {
                                v = v * 8 + (b[i] - b'0') as u32;
                                i += 1;
                                k += 1;
                            }
                            i -= 1;
                            s.push(v as u8);
                        }
                        c => s.push(c),
                    }
                } else {
                    s.push(b[i]);
                }
                i += 1;
            }
            out.push(String::from_utf8_lossy(&s).into_owned());
        }
        i += 1;
    }
    out
}

fn parse_log(log: &str) -> Vec<Call> {
    let mut pending: HashMap<String, String> = HashMap::new();
    let mut calls = vec![];
    for line in log.lines() {
        let line = line.trim_end();
        let (pid, rest) = match line.split_once(char::is_whitespace) {
            Some((p, r)) if p.chars().all(|c| c.is_ascii_digit()) => (p.to_string(), r.trim_start()),
            _ => ("0".to_string(), line),
        };
        let full: String;
        let pid_of_line = pid.clone();
        if let Some(stripped) = rest.strip_suffix("<unfinished ...>") {
            pending.insert(pid, stripped.to_string());
            continue;
        } else if rest.starts_with("<... ") {
            let after = match rest.find("resumed>") {
                Some(k) => &rest[k + 8..],
                None => continue,
            };
            let pre = pending.remove(&pid).unwrap_or_default();
            full = format!("{}{}", pre, after);
        } else {
            full = rest.to_string();
        }
        if full.starts_with("+++") || full.starts_with("---") {
            continue;
        }
        let open = match full.find('(') {
            Some(k) => k,
            None => continue,
        };
        // `name(args)<padding> = ret ...`
        let eqs = match full.rfind(" = ") {
            Some(k) => k,
            None => continue,
        };
        let head = full[..eqs].trim_end();
        if !head.ends_with(')') || head.len() - 1 < open {
            continue;
        }
        let eq = head.len() - 1;
        let name = full[..open].to_string();
        let args = full[open + 1..eq].to_string();
        let rv = full[eqs + 3..].split_whitespace().next().unwrap_or("0");
        let ret = rv.parse::<i64>().unwrap_or(if rv.starts_with('-') { -1 } else { 0 });
        calls.push(Call { pid: pid_of_line, name, args, ret });
    }
    calls
}

fn first_int(args: &str) -> Option<i64> {
    let t: String = args.trim_start().chars().take_while(|c| c.is_ascii_digit()).collect();
    t.parse().ok()
}

fn octal_last(args: &str) -> u32 {
    let t = args.rsplit(',').next().unwrap_or("").trim();
    u32::from_str_radix(t.trim_start_matches("0o"), 8).unwrap_or(0)
}

#[derive(Debug, Clone)]
enum Raw {
    Create(String),
    OpenW(String, String),
    Write(String, u64),
    Rename(String, String),
    Chmod(String, u32),
    Unlink(String),
    Link(String, String),
    /// another data-changing call (truncate, copy_file_range, …) on a path under the output root
    Data(String, String),
    Unresolved(String),
}

/// system calls between the two markers -> events on paths relative to the output root
fn raw_events(calls: &[Call], outroot: &str) -> Vec<Raw> {
    let mut ev = vec![];
    let mut fds: HashMap<i64, String> = HashMap::new();
    let mut active = false;
    let rel = |p: &str| -> Option<String> { p.strip_prefix(outroot).map(|s| s.trim_start_matches('/').to_string()) };
    // processes that exec inside the window are compilers started by the request (leg `request`): what THEY do to the
    // outputs is the compiler's business, not the cache's
    let mut foreign: std::collections::HashSet<String> = std::collections::HashSet::new();
    {
        let mut on = false;
        for c in calls {
            if c.args.contains("__c10_begin__") {
                on = true;
            } else if c.args.contains("__c10_end__") {
                break;
            } else if on && c.name == "execve" {
                foreign.insert(c.pid.clone());
            }
        }
    }
    for c in calls {
        if c.args.contains("__c10_begin__") {
            active = true;
            continue;
        }
        if foreign.contains(&c.pid) {
            continue;
        }
        if c.args.contains("__c10_end__") {
            break;
        }
        if !active {
            continue;
        }
        let q = quoted(&c.args);
        let at_ok = |a: &str| a.trim_start().starts_with("AT_FDCWD");
        match c.name.as_str() {
            "open" | "openat" | "creat" => {
                let p = match q.first() {
                    Some(p) => p.clone(),
                    None => continue,
                };
                let r = match rel(&p) {
                    Some(r) => r,
                    None => continue,
                };
                if c.name == "openat" && !at_ok(&c.args) {
                    ev.push(Raw::Unresolved(c.name.clone()));
                    continue;
                }
                if c.ret < 0 {
                    continue;
                }
                let flags = c.args.clone();
                let creat = c.name == "creat" || flags.contains("O_CREAT");
                let excl = flags.contains("O_EXCL");
                let wr = c.name == "creat" || flags.contains("O_WRONLY") || flags.contains("O_RDWR") || flags.contains("O_TRUNC") || flags.contains("O_APPEND");
                if creat && excl {
                    ev.push(Raw::Create(r.clone()));
                    fds.insert(c.ret, r);
                } else if wr || creat {
                    let mut fl: Vec<&str> = vec![];
                    for f in ["O_WRONLY", "O_RDWR", "O_TRUNC", "O_CREAT", "O_APPEND"] {
                        if flags.contains(f) {
                            fl.push(f);
                        }
                    }
                    ev.push(Raw::OpenW(r.clone(), fl.join("+")));
                    fds.insert(c.ret, r);
                }
            }
            "close" => {
                if let Some(fd) = first_int(&c.args) {
                    fds.remove(&fd);
                }
            }
            "write" | "pwrite64" | "writev" | "pwritev" => {
                if let Some(fd) = first_int(&c.args) {
                    if let Some(p) = fds.get(&fd) {
                        if c.ret > 0 {
                            ev.push(Raw::Write(p.clone(), c.ret as u64));
                        }
                    }
                }
            }
            "rename" | "renameat" | "renameat2" => {
                if q.len() < 2 {
                    continue;
                }
                let (a, b) = (rel(&q[0]), rel(&q[1]));
                if a.is_none() && b.is_none() {
                    continue;
                }
                if c.name != "rename" && c.args.matches("AT_FDCWD").count() < 2 {
                    ev.push(Raw::Unresolved(c.name.clone()));
                    continue;
                }
                if c.ret < 0 {
                    continue;
                }
                let a = a.unwrap_or_else(|| format!("OUTSIDE:{}", q[0]));
                let b = b.unwrap_or_else(|| format!("OUTSIDE:{}", q[1]));
                for v in fds.values_mut() {
                    if *v == a {
                        *v = b.clone();
                    }
                }
                ev.push(Raw::Rename(a, b));
            }
            "unlink" | "unlinkat" => {
                if let Some(r) = q.first().and_then(|p| rel(p)) {
                    if c.name == "unlinkat" && !at_ok(&c.args) {
                        ev.push(Raw::Unresolved(c.name.clone()));
                        continue;
                    }
                    if c.ret >= 0 {
                        ev.push(Raw::Unlink(r));
                    }
                }
            }
            "chmod" | "fchmodat" => {
                if let Some(r) = q.first().and_then(|p| rel(p)) {
                    if c.name == "fchmodat" && !at_ok(&c.args) {
                        ev.push(Raw::Unresolved(c.name.clone()));
                        continue;
                    }
                    if c.ret >= 0 {
                        let m = if c.name == "fchmodat" {
                            // fchmodat(AT_FDCWD, "p", 0644[, flags])
                            c.args.split(',').nth(2).map(|t| u32::from_str_radix(t.trim(), 8).unwrap_or(0)).unwrap_or(0)
                        } else {
                            octal_last(&c.args)
                        };
                        ev.push(Raw::Chmod(r, m & 0o7777));
                    }
                }
            }
            "fchmod" => {
                if let Some(fd) = first_int(&c.args) {
                    if let Some(p) = fds.get(&fd) {
                        if c.ret >= 0 {
                            ev.push(Raw::Chmod(p.clone(), octal_last(&c.args) & 0o7777));
                        }
                    }
                }
            }
            "truncate" => {
                if let Some(r) = q.first().and_then(|p| rel(p)) {
                    if c.ret >= 0 {
                        ev.push(Raw::Data(c.name.clone(), r));
                    }
                }
            }
            "ftruncate" | "fallocate" | "sendfile" => {
                // first argument is the descriptor that is changed
                if let Some(fd) = first_int(&c.args) {
                    if let Some(p) = fds.get(&fd) {
                        if c.ret >= 0 {
                            ev.push(Raw::Data(c.name.clone(), p.clone()));
                        }
                    }
                }
            }
            "copy_file_range" | "splice" => {
                // (fd_in, off_in, fd_out, off_out, len, flags)
                let fd_out = c.args.split(',').nth(2).and_then(|t| first_int(t));
                if let Some(fd) = fd_out {
                    if let Some(p) = fds.get(&fd) {
                        if c.ret > 0 {
                            ev.push(Raw::Data(c.name.clone(), p.clone()));
                        }
                    }
                }
            }
            "symlink" | "symlinkat" => {
                if let Some(r) = q.get(1).and_then(|p| rel(p)) {
                    if c.ret >= 0 {
                        ev.push(Raw::Link(q[0].clone(), r));
                    }
                }
            }
            "link" | "linkat" => {
                if q.len() >= 2 {
                    let (a, b) = (rel(&q[0]), rel(&q[1]));
                    if (a.is_some() || b.is_some()) && c.ret >= 0 {
                        ev.push(Raw::Link(a.unwrap_or_default(), b.unwrap_or_default()));
                    }
                }
            }
            _ => {}
        }
    }
    ev
}

fn dir_of(p: &str) -> &str {
    p.rsplit_once('/').map(|x| x.0).unwrap_or("")
}

fn raw_sx(ev: &[Raw]) -> Sx {
    Sx::L(ev
        .iter()
        .map(|e| match e {
            Raw::Create(p) => Sx::L(vec![Sx::sym("create"), Sx::B(p.clone().into_bytes())]),
            Raw::OpenW(p, f) => Sx::L(vec![Sx::sym("open_w"), Sx::B(p.clone().into_bytes()), Sx::sym(f)]),
            Raw::Write(p, n) => Sx::L(vec![Sx::sym("write"), Sx::B(p.clone().into_bytes()), Sx::n(*n)]),
            Raw::Rename(a, b) => Sx::L(vec![Sx::sym("rename"), Sx::B(a.clone().into_bytes()), Sx::B(b.clone().into_bytes())]),
            Raw::Chmod(p, m) => Sx::L(vec![Sx::sym("chmod"), Sx::B(p.clone().into_bytes()), Sx::n(*m)]),
            Raw::Unlink(p) => Sx::L(vec![Sx::sym("unlink"), Sx::B(p.clone().into_bytes())]),
            Raw::Link(a, b) => Sx::L(vec![Sx::sym("link"), Sx::B(a.clone().into_bytes()), Sx::B(b.clone().into_bytes())]),
            Raw::Data(n, p) => Sx::L(vec![Sx::sym("data_call"), Sx::sym(n), Sx::B(p.clone().into_bytes())]),
            Raw::Unresolved(n) => Sx::L(vec![Sx::sym("unresolved"), Sx::sym(n)]),
        })
        .collect())
}

/// canonical form compared with the model: temp files numbered in creation order, chunk sizes dropped,
/// every access to a FINAL output path that is not a rename from a live temp spelled out.
fn canonical(ev: &[Raw], outs: &[Out]) -> Sx {
    let is_out = |p: &str| outs.iter().any(|o| o.rel() == p);
    let is_special = |p: &str| outs.iter().any(|o| o.rel() == p && o.old_special);
    let mut temps: HashMap<String, usize> = HashMap::new(); // live temp path -> number
    let mut n = 0;
    let mut out = vec![];
    let s = |x: &str| Sx::B(x.as_bytes().to_vec());
    for e in ev {
        match e {
            Raw::Create(p) => {
                if is_out(p) {
                    out.push(Sx::L(vec![Sx::sym("create_final"), s(p)]));
                } else {
                    temps.insert(p.clone(), n);
                    out.push(Sx::L(vec![Sx::sym("create_tmp"), Sx::usize(n), s(dir_of(p))]));
                    n += 1;
                }
            }
            Raw::OpenW(p, f) => {
                if is_special(p) && f == "O_WRONLY" {
                    // the ONE shape for which opening the output for writing is what the code is meant to do
                    out.push(Sx::L(vec![Sx::sym("open_special"), s(p)]));
                } else if is_out(p) {
                    out.push(Sx::L(vec![Sx::sym("open_final_for_writing"), s(p), Sx::sym(f)]));
                } else if !temps.contains_key(p) {
                    out.push(Sx::L(vec![Sx::sym("open_other_for_writing"), s(p), Sx::sym(f)]));
                }
            }
            Raw::Write(p, _) => {
                if is_special(p) {
                    // bytes into the device node
                } else if is_out(p) {
                    let last_same = matches!(out.last(), Some(Sx::L(l)) if l.len() == 2 && l[0].is_sym("write_final") && l[1].bytes() == p.as_bytes());
                    if !last_same {
                        out.push(Sx::L(vec![Sx::sym("write_final"), s(p)]));
                    }
                } else if !temps.contains_key(p) {
                    out.push(Sx::L(vec![Sx::sym("write_other"), s(p)]));
                }
            }
            Raw::Rename(a, b) => match temps.remove(a) {
                Some(k) if is_out(b) && dir_of(a) == dir_of(b) => out.push(Sx::L(vec![Sx::sym("rename"), Sx::usize(k), s(b)])),
                Some(k) => out.push(Sx::L(vec![Sx::sym("rename_tmp_elsewhere"), Sx::usize(k), s(dir_of(a)), s(b)])),
                None => out.push(Sx::L(vec![Sx::sym("rename_not_from_tmp"), s(a), s(b)])),
            },
            Raw::Chmod(p, m) => {
                if let Some(k) = temps.get(p) {
                    out.push(Sx::L(vec![Sx::sym("chmod_tmp"), Sx::usize(*k), Sx::n(*m)]));
                } else {
                    out.push(Sx::L(vec![Sx::sym("chmod"), s(p), Sx::n(*m)]));
                }
            }
            Raw::Unlink(p) => match temps.remove(p) {
                Some(k) => out.push(Sx::L(vec![Sx::sym("unlink_tmp"), Sx::usize(k)])),
                None => out.push(Sx::L(vec![Sx::sym(if is_out(p) { "unlink_final" } else { "unlink_other" }), s(p)])),
            },
            Raw::Link(a, b) => out.push(Sx::L(vec![Sx::sym("link"), s(a), s(b)])),
            Raw::Data(nm, p) => {
                // a temp file may be filled by any data call; anything else may not be touched
                if !temps.contains_key(p) {
                    out.push(Sx::L(vec![Sx::sym(if is_out(p) { "data_call_on_final" } else { "data_call_on_other" }), Sx::sym(nm), s(p)]));
                }
            }
            Raw::Unresolved(nm) => out.push(Sx::L(vec![Sx::sym("unresolved"), Sx::sym(nm)])),
        }
    }
    Sx::L(out)
}

fn harness_error(msg: &str) -> Sx {
    Sx::L(vec![Sx::sym("harness_error"), Sx::B(msg.as_bytes().to_vec())])
}

fn strace_case(case: &Sx, rt: &tokio::runtime::Runtime) -> Sx {
    let seed = case.arg(0).u64();
    let outs = parse_outs(case.arg(1));
    let b = match build(seed, &outs, rt) {
        Ok(b) => b,
        Err(e) => return harness_error(&e),
    };
    let scratch = b.td.path().to_path_buf();
    std::fs::write(scratch.join("entry.bin"), &b.entry).unwrap();
    let spec = Sx::L(b
        .objects
        .iter()
        .map(|o| Sx::L(vec![Sx::sym(&o.key), Sx::B(o.path.as_os_str().as_bytes().to_vec()), Sx::bool(o.optional)]))
        .collect());
    std::fs::write(scratch.join("spec.sx"), format!("{}\n", spec)).unwrap();
    let log = scratch.join("trace.log");
    let exe = std::env::current_exe().unwrap();
    let res = std::process::Command::new("strace")
        .arg("-f")
        .arg("-qq")
        .arg("-e")
        .arg("trace=open,openat,creat,close,write,pwrite64,writev,pwritev,rename,renameat,renameat2,unlink,unlinkat,fchmod,chmod,fchmodat,link,linkat,symlink,symlinkat,truncate,ftruncate,fallocate,copy_file_range,sendfile,splice")
        .arg("-o")
        .arg(&log)
        .arg(&exe)
        .arg("child")
        .arg(&scratch)
        .stdin(std::process::Stdio::null())
        .stderr(std::process::Stdio::null())
        .output();
    let res = match res {
        Ok(r) => r,
        Err(e) => return harness_error(&format!("strace: {}", e)),
    };
    let kind = String::from_utf8_lossy(&res.stdout).trim().to_string();
    if kind.is_empty() {
        return harness_error("child printed nothing");
    }
    let logtxt = std::fs::read_to_string(&log).unwrap_or_default();
    if let Ok(keep) = std::env::var("C10_KEEP_LOG") {
        let _ = std::fs::write(keep, &logtxt);
    }
    let calls = parse_log(&logtxt);
    let root = b.outroot.to_string_lossy().into_owned();
    let raw = raw_events(&calls, &root);
    let (fin, left, alias_bad) = final_state(&b, &outs);
    Sx::L(vec![Sx::sym(&kind), canonical(&raw, &outs), fin, Sx::usize(left), alias_bad, raw_sx(&raw)])
}

// ---------------------------------------------------------------- whole requests (leg `request`)
//
// The cache-hit arm of `get_cached_or_compile` (src/compiler/compiler.rs) is the caller of extract_objects: anything it
// does to the output paths before or after the extraction is part of "how a hit installs the outputs".  This leg
// drives whole requests: a shell script that answers sccache's gcc detection and "compiles" by copying prepared
// files to `-o foo.o` (and `foo.dwo` with -gsplit-dwarf, an OPTIONAL output); request 1 (in the harness) is a miss
// that stores the entry in a real DiskCache; the entry may then be damaged on disk, the previous outputs are put
// in place, the compiler is made to fail (so a fallback compile changes nothing), and request 2 runs in a child
// under strace.  Observation = the calls of the sccache process itself + the state the request leaves behind.

fn compiler_script(root: &Path, m0: u32, m1: u32) -> String {
    format!(
        r#"#!/bin/sh
mode=C; out=; src=; prev=; dwo=0
for a in "$@"; do
  case "$a" in -E) mode=E;; -vV) mode=V;; -gsplit-dwarf) dwo=1;; *.c) src=$a;; esac
  [ "$prev" = -o ] && out=$a
  prev=$a
done
[ $mode = V ] && {{ echo "unrecognized option -vV" >&2; exit 1; }}
case "$src" in *testfile.c) [ $mode = E ] && mode=D;; esac
case $mode in
  D) echo "compiler_id=gcc"; echo 'compiler_version="12.0"'; exit 0;;
  E) cat "$src"; exit 0;;
  C) [ -e {root}/failcompile ] && {{ echo "compiler failed" >&2; exit 1; }}
     cp {root}/new0 "$out"; chmod {m0:o} "$out"
     if [ $dwo = 1 ] && [ -e {root}/new1 ]; then d="${{out%.o}}.dwo"; cp {root}/new1 "$d"; chmod {m1:o} "$d"; fi
     exit 0;;
esac
"#,
        root = root.display(),
        m0 = m0,
        m1 = m1
    )
}

/// one request through the real compiler_info / parse_arguments / get_cached_or_compile on a real DiskCache
fn run_request(root: &Path, split_dwarf: bool, rt: &tokio::runtime::Runtime, mark: bool) -> &'static str {
    use futures::FutureExt;
    use sccache::server::SccacheService;
    use sccache::verif_hooks::cache::disk::DiskCache;
    use sccache::verif_hooks::cache::{CacheMode, PreprocessorCacheModeConfig, Storage};
    use sccache::verif_hooks::compiler::{CacheControl, CompileResult, CompilerArguments};
    use sccache::verif_hooks::jobserver::Client;
    use sccache::verif_hooks::mock_command::{CommandCreatorSync, ProcessCommandCreator};
    use std::ffi::OsString;
    let pool = rt.handle().clone();
    let cwd = root.join("out").join("w");
    let storage: Arc<dyn Storage> = Arc::new(DiskCache::new(
        root.join("cache"),
        1 << 32,
        &pool,
        PreprocessorCacheModeConfig { use_preprocessor_cache_mode: false, ..Default::default() },
        CacheMode::ReadWrite,
    ));
    let service: SccacheService<ProcessCommandCreator> = SccacheService::mock_with_storage(storage.clone(), pool.clone());
    let creator = ProcessCommandCreator::new(&Client::new_num(2));
    let compiler = root.join("bin").join("gcc");
    let src = root.join("src").join("foo.c");
    let mut args: Vec<OsString> = vec!["-c".into(), src.into_os_string(), "-o".into(), "foo.o".into()];
    if split_dwarf {
        args.push("-g".into());
        args.push("-gsplit-dwarf".into());
    }
    let env: Vec<(OsString, OsString)> = vec![];
    let info = rt.block_on(std::panic::AssertUnwindSafe(service.compiler_info(compiler, cwd.clone(), &args, &env)).catch_unwind());
    let c = match info {
        Ok(Ok(c)) => c,
        _ => return "unsupported_compiler",
    };
    let hasher = match c.parse_arguments(&args, &cwd, &env) {
        CompilerArguments::Ok(h) => h,
        _ => return "not_cacheable",
    };
    if mark {
        let _ = std::fs::File::open(root.join("__c10_begin__"));
    }
    let r = rt.block_on(async {
        let r = hasher
            .get_cached_or_compile(&service, None, creator.clone(), storage.clone(), args.clone(), cwd.clone(), env.clone(), CacheControl::Default, pool.clone())
            .await;
        match r {
            Ok((CompileResult::CacheMiss(_, _, _, fut), o)) => {
                let _ = fut.await;
                if o.status.success() { "miss" } else { "compile_failed" }
            }
            Ok((CompileResult::CacheHit(_), _)) => "hit",
            Ok((CompileResult::CompileFailed(..), _)) => "compile_failed",
            Ok(_) => "other",
            Err(e) => {
                if std::env::var("C10_DEBUG").is_ok() {
                    eprintln!("request error: {:#}", e);
                }
                "error"
            }
        }
    });
    if mark {
        let _ = std::fs::File::open(root.join("__c10_end__"));
    }
    r
}

fn request_child(root: &Path) -> i32 {
    let rt = tokio::runtime::Builder::new_multi_thread().worker_threads(2).enable_all().build().unwrap();
    let h = rt.handle().clone();
    rt.block_on(async { h.spawn_blocking(|| ()).await.unwrap() });
    let split = root.join("split_dwarf").exists();
    println!("{}", run_request(root, split, &rt, true));
    0
}

fn walk_files(d: &Path, out: &mut Vec<PathBuf>) {
    if let Ok(rd) = std::fs::read_dir(d) {
        for e in rd.flatten() {
            let p = e.path();
            if p.is_dir() {
                walk_files(&p, out);
            } else {
                out.push(p);
            }
        }
    }
}

fn request_case(case: &Sx, rt: &tokio::runtime::Runtime) -> Sx {
    let seed = case.arg(0).u64();
    let mut outs = parse_outs(case.arg(1));
    if outs.is_empty() || outs.len() > 2 {
        return harness_error("request leg: one or two outputs");
    }
    // the outputs gcc derives from `-o foo.o [-gsplit-dwarf]`: foo.o, and foo.dwo which it marks optional
    outs[0].dir = "w".into();
    outs[0].name = "foo.o".into();
    outs[0].optional = false;
    if outs.len() == 2 {
        outs[1].dir = "w".into();
        outs[1].name = "foo.dwo".into();
        outs[1].optional = true;
    }
    let split = outs.len() == 2;
    let td = match tempfile::Builder::new().prefix("vh-c10r-").tempdir_in("/dev/shm") {
        Ok(t) => t,
        Err(e) => return harness_error(&e.to_string()),
    };
    let root = td.path().to_path_buf();
    let outroot = root.join("out");
    let cwd = outroot.join("w");
    for d in ["bin", "src", "out/w", "cache"] {
        std::fs::create_dir_all(root.join(d)).unwrap();
    }
    std::fs::write(root.join("src/foo.c"), format!("int f{}(void){{return 0;}}\n", seed)).unwrap();
    if split {
        std::fs::write(root.join("split_dwarf"), b"").unwrap();
    }
    let mut news = vec![];
    for (i, o) in outs.iter().enumerate() {
        let c = match o.kind.as_str() {
            "zeros" | "ff" => {
                let fill = if o.kind == "zeros" { 0u8 } else { 0xffu8 };
                let mut v = vec![fill; o.size];
                let head = content(seed, i, true, o.size.min(24));
                v[..head.len()].copy_from_slice(&head);
                v
            }
            _ => content(seed, i, true, o.size),
        };
        // an optional output the compiler does not produce is simply not there to be stored
        if !(o.fault == "missing" && i == 1) {
            std::fs::write(root.join(format!("new{}", i)), &c).unwrap();
        }
        news.push(c);
    }
    let gcc = root.join("bin/gcc");
    std::fs::write(&gcc, compiler_script(&root, outs[0].mode, outs.get(1).map(|o| o.mode).unwrap_or(0o644))).unwrap();
    std::fs::set_permissions(&gcc, std::fs::Permissions::from_mode(0o755)).unwrap();
    // request 1: a miss that stores the entry
    let r1 = run_request(&root, split, rt, false);
    if r1 != "miss" {
        return harness_error(&format!("first request: {}", r1));
    }
    for o in &outs {
        let _ = std::fs::remove_file(cwd.join(&o.name));
    }
    // damage the stored entry
    let mut files = vec![];
    walk_files(&root.join("cache"), &mut files);
    if files.len() != 1 {
        return harness_error(&format!("{} files in the cache after one store", files.len()));
    }
    let mut entry = std::fs::read(&files[0]).unwrap();
    for (i, o) in outs.iter().enumerate() {
        let name: &[u8] = if i == 0 { b"obj" } else { b"dwo" };
        if matches!(o.fault.as_str(), "corrupt_head" | "corrupt_mid" | "corrupt_tail") {
            let (st, len) = match member_data(&entry, name) {
                Some(x) if x.1 > 0 => x,
                _ => return harness_error("member not found in the stored entry"),
            };
            let at = match o.fault.as_str() {
                "corrupt_head" => st,
                "corrupt_tail" => st + len - 1,
                _ => st + len / 2,
            };
            entry[at] ^= 0x5a;
        }
    }
    std::fs::write(&files[0], &entry).unwrap();
    // the previous outputs, and a compiler that fails from now on
    let mut olds = vec![];
    for (i, o) in outs.iter().enumerate() {
        let p = cwd.join(&o.name);
        if let Some((sz, mode)) = o.old {
            let c = content(seed, i, false, sz);
            std::fs::write(&p, &c).unwrap();
            std::fs::set_permissions(&p, std::fs::Permissions::from_mode(mode)).unwrap();
            olds.push(Some(c));
        } else {
            olds.push(None);
        }
    }
    std::fs::write(root.join("failcompile"), b"").unwrap();
    let objects: Vec<FileObjectSource> = outs
        .iter()
        .enumerate()
        .map(|(i, o)| FileObjectSource { key: if i == 0 { "obj".into() } else { "dwo".into() }, path: cwd.join(&o.name), optional: o.optional })
        .collect();
    let old_inos = objects
        .iter()
        .map(|o| {
            use std::os::unix::fs::MetadataExt;
            std::fs::symlink_metadata(&o.path).ok().filter(|m| m.file_type().is_file()).map(|m| m.ino())
        })
        .collect();
    let b = Built { td, outroot: outroot.clone(), entry: vec![], objects, news, olds, old_inos };
    // request 2 under strace
    let log = root.join("trace.log");
    let exe = std::env::current_exe().unwrap();
    let res = std::process::Command::new("strace")
        .arg("-f")
        .arg("-qq")
        .arg("-e")
        .arg("trace=execve,open,openat,creat,close,write,pwrite64,writev,pwritev,rename,renameat,renameat2,unlink,unlinkat,fchmod,chmod,fchmodat,link,linkat,symlink,symlinkat,truncate,ftruncate,fallocate,copy_file_range,sendfile,splice")
        .arg("-o")
        .arg(&log)
        .arg(&exe)
        .arg("reqchild")
        .arg(&root)
        .stdin(std::process::Stdio::null())
        .stderr(if std::env::var("C10_DEBUG").is_ok() { std::process::Stdio::inherit() } else { std::process::Stdio::null() })
        .output();
    let res = match res {
        Ok(r) => r,
        Err(e) => return harness_error(&format!("strace: {}", e)),
    };
    let kind = String::from_utf8_lossy(&res.stdout).trim().to_string();
    if kind.is_empty() {
        return harness_error("child printed nothing");
    }
    let logtxt = std::fs::read_to_string(&log).unwrap_or_default();
    if let Ok(keep) = std::env::var("C10_KEEP_LOG") {
        let _ = std::fs::write(keep, &logtxt);
    }
    let calls = parse_log(&logtxt);
    let raw = raw_events(&calls, &outroot.to_string_lossy());
    let (fin, left, alias_bad) = final_state(&b, &outs);
    Sx::L(vec![Sx::sym(&kind), canonical(&raw, &outs), fin, Sx::usize(left), alias_bad, raw_sx(&raw)])
}

// ---------------------------------------------------------------- live observers

fn live_case(case: &Sx, rt: &tokio::runtime::Runtime) -> Sx {
    let seed = case.arg(0).u64();
    let outs = parse_outs(case.arg(1));
    let b = match build(seed, &outs, rt) {
        Ok(b) => b,
        Err(e) => return harness_error(&e),
    };
    let stop = Arc::new(AtomicBool::new(false));
    let news = Arc::new(b.news.clone());
    let olds = Arc::new(b.olds.clone());
    let mut pollers = vec![];
    let mut holders = vec![];
    // observers: ( kind out_index ... )
    for r in case.arg(2).list() {
        let idx = r.arg(1).u64() as usize;
        if idx >= outs.len() {
            continue;
        }
        let path = b.objects[idx].path.clone();
        let (stop, news, olds) = (stop.clone(), news.clone(), olds.clone());
        if r.arg(0).is_sym("hold") {
            // a descriptor opened BEFORE the request
            let f = match std::fs::File::open(&path) {
                Ok(f) if olds[idx].is_some() => f,
                _ => continue,
            };
            holders.push(std::thread::spawn(move || {
                let mut f = f;
                let old = olds[idx].as_ref().unwrap();
                let (mut reads, mut bad) = (0u64, 0u64);
                let mut detail = String::new();
                loop {
                    let last = stop.load(Ordering::SeqCst);
                    let mut v = Vec::with_capacity(old.len() + 16);
                    f.seek(SeekFrom::Start(0)).unwrap();
                    f.read_to_end(&mut v).unwrap();
                    reads += 1;
                    if &v != old {
                        bad += 1;
                        if detail.is_empty() {
                            detail = format!("holder of output {} read {} bytes, old has {}", idx, v.len(), old.len());
                        }
                    }
                    if last {
                        break;
                    }
                }
                (reads, bad, 0u64, 0u64, detail)
            }));
        } else {
            pollers.push(std::thread::spawn(move || {
                let (mut reads, mut torn, mut saw_old, mut saw_new) = (0u64, 0u64, 0u64, 0u64);
                let mut detail = String::new();
                loop {
                    let last = stop.load(Ordering::SeqCst);
                    match std::fs::File::open(&path) {
                        Ok(mut f) => {
                            let mut v = Vec::with_capacity(news[idx].len().max(olds[idx].as_ref().map(|o| o.len()).unwrap_or(0)) + 16);
                            f.read_to_end(&mut v).unwrap();
                            reads += 1;
                            if v == news[idx] {
                                saw_new += 1;
                            } else if olds[idx].as_ref() == Some(&v) {
                                saw_old += 1;
                            } else {
                                torn += 1;
                                if detail.is_empty() {
                                    detail = format!("reader of output {} got {} bytes (old {:?}, new {})", idx, v.len(), olds[idx].as_ref().map(|o| o.len()), news[idx].len());
                                }
                            }
                        }
                        Err(_) => {
                            reads += 1;
                            if olds[idx].is_some() {
                                // the old file vanished without the new one being there
                                torn += 1;
                                if detail.is_empty() {
                                    detail = format!("output {} could not be opened although it existed before", idx);
                                }
                            }
                        }
                    }
                    if last {
                        break;
                    }
                }
                (reads, torn, saw_old, saw_new, detail)
            }));
        }
    }
    // give the observers a moment to be running, then the REAL extraction
    std::thread::sleep(std::time::Duration::from_millis(3));
    let kind = match CacheRead::from(Cursor::new(b.entry.clone())) {
        Err(_) => "unreadable_entry",
        Ok(cr) => {
            let h = rt.handle().clone();
            let objects = b.objects.clone();
            let r = rt.block_on(async move { cr.extract_objects(objects, &h).await });
            result_kind(&r)
        }
    };
    stop.store(true, Ordering::SeqCst);
    let (mut torn, mut hbad, mut reads, mut so, mut sn) = (0u64, 0u64, 0u64, 0u64, 0u64);
    let mut details = vec![];
    for p in pollers {
        let (r, t, o, n, d) = p.join().unwrap();
        reads += r;
        torn += t;
        so += o;
        sn += n;
        if !d.is_empty() {
            details.push(d);
        }
    }
    let mut hreads = 0;
    for h in holders {
        let (r, bad, _, _, d) = h.join().unwrap();
        hreads += r;
        hbad += bad;
        if !d.is_empty() {
            details.push(d);
        }
    }
    let (fin, left, alias_bad) = final_state(&b, &outs);
    Sx::L(vec![
        Sx::sym(kind),
        Sx::n(torn),
        Sx::n(hbad),
        fin,
        Sx::usize(left),
        alias_bad,
        Sx::L(vec![Sx::n(reads), Sx::n(so), Sx::n(sn), Sx::n(hreads), Sx::B(details.join("; ").into_bytes())]),
    ])
}

fn main() {
    let args: Vec<String> = std::env::args().collect();
    let leg = args.get(1).cloned().unwrap_or_default();
    if leg == "child" {
        std::process::exit(child(Path::new(&args[2])));
    }
    if leg == "reqchild" {
        std::process::exit(request_child(Path::new(&args[2])));
    }
    vh::quiet_panics();
    let rt = tokio::runtime::Builder::new_multi_thread().worker_threads(2).enable_all().build().unwrap();
    vh::run_lines(|case| {
        let r = vh::catch(|| match leg.as_str() {
            "strace" => strace_case(case, &rt),
            "live" => live_case(case, &rt),
            "request" => request_case(case, &rt),
            _ => harness_error("unknown leg"),
        });
        match r {
            Ok(x) => x,
            Err(e) => Sx::L(vec![Sx::sym("panic"), Sx::B(e.into_bytes())]),
        }
    });
}
