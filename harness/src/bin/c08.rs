//! c08 — drives the real `CacheWrite` / `CacheRead` of sccache (src/cache/cache.rs, over the `zip` and `zstd`
//! crates) on the cases of Run/C08.v and prints the same observations.
//!
//! legs (argv[1]):
//!   prep     ( objs so se )                      -> ( entry ( (name start len crc) ... ) )     helper for the generator
//!   members  ( entry )                           -> ( (name start len crc) ... )                helper: the real reader's view
//!   pack     ( objs so se )                      -> ( render ( r ... ) so se )
//!   history  ( ( objs so se ) ... )              -> one pack observation or ( write_err ) per op, all packed on one thread;
//!            an object's 5th element = none | n: the reader handed to put_object fails after n bytes
//!   level    ( objs so se env cands )            -> ( render ( r ... ) so se )      packed with SCCACHE_CACHE_ZSTD_LEVEL = env
//!            env = ( ) unset | ( #bytes ); prep and extract take the same env as 4th / 5th element
//!   read     ( entry reqs frames specs )         -> ( verdict ... )   one per expanded corruption
//!   extract  ( objs so se spec )                 -> ( write_err ) | ( miss ) | ( fatal ) | ( panic ) | ( hit so se ( f ... ) )
//! objs  = ( (name mode content frame [optional present]) ... )     mode = none | number; frame is for the model only
//! so/se = ( content frame )
//! content = #bytes | ( zeros n ) | ( rand seed n ) | ( text seed n ) | ( rep #bytes n )
//! read verdict = 0 (refused) | ( so se r ... ); so/se = 0 | 2 | 3 | ( tok ); r = 0 error | 1 absent | 2 panic | 3 | ( mode tok )
//!   0/1 = the error IS a DecompressionFailure (the class get_cached_or_compile turns into a miss), 3 = any other error type
//! spec  = ( none ) | ( trunc i ) | ( sub j v ) | ( subrange j0 j1 ) | ( truncall )
use sccache::verif_hooks::cache::{CacheRead, CacheWrite, DecompressionFailure, FileObjectSource};
use std::io::Cursor;
use std::os::unix::fs::PermissionsExt;
use vh::{catch, Sx};

// ---------------------------------------------------------------- independent CRC-32 (bitwise, reflected)
fn crc32(data: &[u8]) -> u32 {
    let mut c: u32 = 0xFFFF_FFFF;
    for &b in data {
        c ^= b as u32;
        for _ in 0..8 {
            c = if c & 1 != 0 { (c >> 1) ^ 0xEDB8_8320 } else { c >> 1 };
        }
    }
    !c
}

// ---------------------------------------------------------------- content specs
fn splitmix(s: &mut u64) -> u64 {
    *s = s.wrapping_add(0x9E37_79B9_7F4A_7C15);
    let mut z = *s;
    z = (z ^ (z >> 30)).wrapping_mul(0xBF58_476D_1CE4_E5B9);
    z = (z ^ (z >> 27)).wrapping_mul(0x94D0_49BB_1331_11EB);
    z ^ (z >> 31)
}

const WORDS: &[&str] = &[
    "warning:", "unused", "variable", "error:", "expected", "';'", "before", "in", "function", "note:", "main.c:",
    "12:", "declared", "here", "int", "x", "\n", " ", "-Wall", "implicit", "declaration", "of",
];

fn content(x: &Sx) -> Vec<u8> {
    match x {
        Sx::B(b) => b.clone(),
        Sx::L(_) => {
            let t = x.tag();
            match t.as_str() {
                "zeros" => vec![0u8; x.arg(1).u64() as usize],
                "rand" => {
                    let mut s = x.arg(1).u64();
                    let n = x.arg(2).u64() as usize;
                    let mut v = Vec::with_capacity(n + 8);
                    while v.len() < n {
                        v.extend_from_slice(&splitmix(&mut s).to_le_bytes());
                    }
                    v.truncate(n);
                    v
                }
                "text" => {
                    let mut s = x.arg(1).u64();
                    let n = x.arg(2).u64() as usize;
                    let mut v = Vec::with_capacity(n + 16);
                    while v.len() < n {
                        let w = WORDS[(splitmix(&mut s) % WORDS.len() as u64) as usize];
                        v.extend_from_slice(w.as_bytes());
                        v.push(b' ');
                    }
                    v.truncate(n);
                    v
                }
                "rep" => {
                    let pat = x.arg(1).bytes();
                    let n = x.arg(2).u64() as usize;
                    let mut v = Vec::with_capacity(n);
                    while v.len() < n && !pat.is_empty() {
                        v.extend_from_slice(pat);
                    }
                    v.truncate(n);
                    v
                }
                _ => vec![],
            }
        }
        _ => vec![],
    }
}

/// the writer's configuration: `( )` = SCCACHE_CACHE_ZSTD_LEVEL unset, `( #bytes )` = set to these bytes.
/// put_object reads the variable on every call, so it is set around the real packing calls of one case.
fn apply_env(x: &Sx) {
    use std::os::unix::ffi::OsStrExt;
    match x.list().first() {
        Some(v) if !v.bytes().contains(&0) => {
            std::env::set_var("SCCACHE_CACHE_ZSTD_LEVEL", std::ffi::OsStr::from_bytes(v.bytes()))
        }
        _ => std::env::remove_var("SCCACHE_CACHE_ZSTD_LEVEL"),
    }
}

fn mode_of(x: &Sx) -> Option<u32> {
    match x {
        Sx::N(n) => Some(*n as u32),
        _ => None,
    }
}

fn name_of(x: &Sx) -> String {
    String::from_utf8(x.bytes().to_vec()).unwrap_or_else(|_| "<bad-utf8>".to_string())
}

// works for both shapes of get_stdout/get_stderr (Vec<u8> before the fix, anyhow::Result<Vec<u8>> after it)
trait IntoRes {
    fn into_res(self) -> Result<Vec<u8>, anyhow::Error>;
}
impl IntoRes for Vec<u8> {
    fn into_res(self) -> Result<Vec<u8>, anyhow::Error> {
        Ok(self)
    }
}
impl IntoRes for Result<Vec<u8>, anyhow::Error> {
    fn into_res(self) -> Result<Vec<u8>, anyhow::Error> {
        self
    }
}

/// The CLASS of a reader error.  `get_cached_or_compile` treats an error of extract_objects as a miss only if it
/// downcasts to `DecompressionFailure`; anything else fails the request.  0 = DecompressionFailure and the
/// directory has the member, 1 = DecompressionFailure and it has not, 3 = any other error type.
fn err_code(e: &anyhow::Error, has: bool) -> Sx {
    if e.downcast_ref::<DecompressionFailure>().is_some() {
        Sx::N(if has { 0 } else { 1 })
    } else {
        Sx::N(3)
    }
}

// ---------------------------------------------------------------- packing with the real writer
struct Obj {
    name: String,
    mode: Option<u32>,
    data: Vec<u8>,
    optional: bool,
    present: bool,
    /// history leg: the reader handed to put_object fails after this many bytes
    fail: Option<usize>,
}

/// a source that yields `data[..fail_at]` in small pieces and then an I/O error (a file on a failing disk / NFS)
struct FailingReader<'a> {
    data: &'a [u8],
    pos: usize,
    fail_at: usize,
}

impl<'a> std::io::Read for FailingReader<'a> {
    fn read(&mut self, buf: &mut [u8]) -> std::io::Result<usize> {
        let end = self.fail_at.min(self.data.len());
        if self.pos >= end {
            return Err(std::io::Error::new(std::io::ErrorKind::Other, "injected read error"));
        }
        let n = buf.len().min(end - self.pos).min(4096);
        buf[..n].copy_from_slice(&self.data[self.pos..self.pos + n]);
        self.pos += n;
        Ok(n)
    }
}

fn objs_of(x: &Sx) -> Vec<Obj> {
    x.list()
        .iter()
        .map(|o| Obj {
            name: name_of(o.arg(0)),
            mode: mode_of(o.arg(1)),
            data: content(o.arg(2)),
            optional: o.arg(4).as_bool(),
            present: o.list().len() < 6 || o.arg(5).as_bool(),
            fail: None,
        })
        .collect()
}

fn pack(objs: &[Obj], so: &[u8], se: &[u8]) -> Result<Vec<u8>, String> {
    let mut w = CacheWrite::new();
    for o in objs {
        match o.fail {
            None => w.put_object(&o.name, &mut Cursor::new(&o.data[..]), o.mode),
            Some(n) => w.put_object(&o.name, &mut FailingReader { data: &o.data[..], pos: 0, fail_at: n }, o.mode),
        }
        .map_err(|e| format!("{:#}", e))?;
    }
    w.put_stdout(so).map_err(|e| format!("{:#}", e))?;
    w.put_stderr(se).map_err(|e| format!("{:#}", e))?;
    w.finish().map_err(|e| format!("{:#}", e))
}

fn members(entry: &[u8]) -> Vec<(String, u64, u64, u32)> {
    match CacheRead::from(Cursor::new(entry.to_vec())) {
        Ok(mut r) => r.verif_members(),
        Err(_) => vec![],
    }
}

/// token of a decoded content: `e` if empty, else the first index in `origs` with the same bytes, else `x`
fn tok(decoded: &[u8], origs: &[Vec<u8>]) -> Sx {
    if decoded.is_empty() {
        return Sx::sym("e");
    }
    match origs.iter().position(|c| c[..] == decoded[..]) {
        Some(i) => Sx::usize(i),
        None => Sx::sym("x"),
    }
}

fn mode_sx(m: Option<u32>) -> Sx {
    match m {
        Some(m) => Sx::n(m),
        None => Sx::sym("none"),
    }
}

/// what the real reader says about one (possibly corrupted) entry
fn read_verdict(bytes: Vec<u8>, reqs: &[String], origs: &[Vec<u8>]) -> Sx {
    let r = catch(|| CacheRead::from(Cursor::new(bytes)));
    let mut rd = match r {
        Ok(Ok(rd)) => rd,
        Ok(Err(_)) => return Sx::N(0),
        Err(_) => return Sx::N(2),
    };
    let mut out = vec![];
    let so = catch(|| rd.get_stdout().into_res());
    out.push(match so {
        Ok(Ok(b)) => Sx::L(vec![tok(&b, origs)]),
        Ok(Err(e)) => err_code(&e, true),
        Err(_) => Sx::N(2),
    });
    let se = catch(|| rd.get_stderr().into_res());
    out.push(match se {
        Ok(Ok(b)) => Sx::L(vec![tok(&b, origs)]),
        Ok(Err(e)) => err_code(&e, true),
        Err(_) => Sx::N(2),
    });
    for name in reqs {
        let mut buf = Vec::new();
        let g = catch(|| rd.get_object(name, &mut buf));
        out.push(match g {
            Ok(Ok(mode)) => Sx::L(vec![mode_sx(mode), tok(&buf, origs)]),
            // 1 = the directory has no such member, 0 = it has one but it cannot be read back; both only if the
            // error is of the miss class DecompressionFailure, 3 otherwise
            Ok(Err(e)) => err_code(&e, rd.verif_has(name)),
            Err(_) => Sx::N(2),
        });
    }
    Sx::L(out)
}

fn expand_specs(specs: &[Sx], entry: &[u8], mut f: impl FnMut(Vec<u8>)) {
    for s in specs {
        match s.tag().as_str() {
            "none" => f(entry.to_vec()),
            "trunc" => {
                let i = (s.arg(1).u64() as usize).min(entry.len());
                f(entry[..i].to_vec())
            }
            "sub" => {
                let j = s.arg(1).u64() as usize;
                let mut b = entry.to_vec();
                if j < b.len() {
                    b[j] = s.arg(2).u64() as u8;
                }
                f(b)
            }
            "subrange" => {
                let j0 = s.arg(1).u64() as usize;
                let j1 = (s.arg(2).u64() as usize).min(entry.len());
                for j in j0..j1 {
                    for v in 0..=255u8 {
                        if v != entry[j] {
                            let mut b = entry.to_vec();
                            b[j] = v;
                            f(b)
                        }
                    }
                }
            }
            "truncall" => {
                for i in 0..entry.len() {
                    f(entry[..i].to_vec())
                }
            }
            _ => {}
        }
    }
}

fn render(entry: &[u8]) -> Sx {
    if entry.len() <= 150000 {
        return Sx::L(vec![Sx::sym("full"), Sx::B(entry.to_vec())]);
    }
    let ms = members(entry);
    let mut out = vec![Sx::sym("chunks")];
    let mut pos = 0usize;
    for (_, start, len, _) in &ms {
        let (start, len) = (*start as usize, *len as usize);
        if start < pos || start + len > entry.len() {
            return Sx::L(vec![Sx::sym("full"), Sx::B(entry.to_vec())]);
        }
        out.push(Sx::B(entry[pos..start].to_vec()));
        out.push(Sx::L(vec![Sx::usize(len), Sx::n(crc32(&entry[start..start + len]))]));
        pos = start + len;
    }
    out.push(Sx::B(entry[pos..].to_vec()));
    Sx::L(out)
}

/// ( render ( r ... ) so se ): the entry and what the real reader makes of it
fn pack_observation(entry: &[u8], objs: &[Obj], so: &[u8], se: &[u8]) -> Sx {
    let mut origs: Vec<Vec<u8>> = objs.iter().map(|o| o.data.clone()).collect();
    origs.push(so.to_vec());
    origs.push(se.to_vec());
    let reqs: Vec<String> = objs.iter().map(|o| o.name.clone()).collect();
    let v = read_verdict(entry.to_vec(), &reqs, &origs);
    let mut out = vec![render(entry)];
    match v {
        Sx::L(l) => {
            out.push(Sx::L(l[2..].to_vec()));
            out.push(l[0].clone());
            out.push(l[1].clone());
        }
        other => out.push(other),
    }
    Sx::L(out)
}

static NIL: Sx = Sx::L(Vec::new());

fn main() {
    vh::quiet_panics();
    std::env::remove_var("SCCACHE_CACHE_ZSTD_LEVEL");
    let leg = std::env::args().nth(1).unwrap_or_default();
    let rt = tokio::runtime::Builder::new_multi_thread()
        .worker_threads(1)
        .max_blocking_threads(2)
        .enable_all()
        .build()
        .unwrap();
    vh::run_lines(|case| match leg.as_str() {
        "prep" | "pack" | "level" => {
            let objs = objs_of(case.arg(0));
            let so = content(case.arg(1).arg(0));
            let se = content(case.arg(2).arg(0));
            // prep / level: 4th element = the environment of the writer; pack: the variable is unset
            apply_env(if leg == "pack" { &NIL } else { case.arg(3) });
            let packed = catch(|| pack(&objs, &so, &se));
            apply_env(&NIL);
            let entry = match packed {
                Ok(Ok(e)) => e,
                Ok(Err(_)) => return Sx::L(vec![Sx::sym("write_err")]),
                Err(_) => return Sx::L(vec![Sx::sym("panic")]),
            };
            if leg == "prep" {
                let ms = members(&entry)
                    .into_iter()
                    .map(|(n, s, l, c)| Sx::L(vec![Sx::B(n.into_bytes()), Sx::n(s), Sx::n(l), Sx::n(c)]))
                    .collect();
                return Sx::L(vec![Sx::B(entry), Sx::L(ms)]);
            }
            pack_observation(&entry, &objs, &so, &se)
        }
        "history" => {
            // every op is packed on THIS thread, one after the other, like the entries a pool thread packs
            std::env::remove_var("SCCACHE_CACHE_ZSTD_LEVEL");
            let mut out = vec![];
            for op in case.list() {
                let mut objs = objs_of(op.arg(0));
                for (o, x) in objs.iter_mut().zip(op.arg(0).list()) {
                    o.optional = false;
                    o.present = true;
                    o.fail = match x.arg(4) {
                        Sx::N(n) => Some(*n as usize),
                        _ => None,
                    };
                }
                let so = content(op.arg(1).arg(0));
                let se = content(op.arg(2).arg(0));
                out.push(match catch(|| pack(&objs, &so, &se)) {
                    Ok(Ok(entry)) => pack_observation(&entry, &objs, &so, &se),
                    Ok(Err(_)) => Sx::L(vec![Sx::sym("write_err")]),
                    Err(_) => Sx::L(vec![Sx::sym("panic")]),
                });
            }
            Sx::L(out)
        }
        "members" => {
            let ms = members(case.arg(0).bytes())
                .into_iter()
                .map(|(n, s, l, c)| Sx::L(vec![Sx::B(n.into_bytes()), Sx::n(s), Sx::n(l), Sx::n(c)]))
                .collect();
            Sx::L(ms)
        }
        "read" => {
            let entry = case.arg(0).bytes().to_vec();
            let reqs: Vec<String> = case.arg(1).list().iter().map(|r| name_of(r.arg(0))).collect();
            // original contents, in directory order, decoded by the real reader from the intact entry
            let ms = members(&entry);
            let mut origs = vec![];
            if let Ok(mut rd) = CacheRead::from(Cursor::new(entry.clone())) {
                for (n, _, _, _) in &ms {
                    let mut buf = vec![];
                    let _ = catch(|| rd.get_object(n, &mut buf).map(|_| ()));
                    origs.push(buf);
                }
            }
            // the frame table handed to the model must be what the real reader sees
            let frames: Vec<(u64, u64)> = case.arg(2).list().iter().map(|f| (f.arg(0).u64(), f.arg(1).u64())).collect();
            let seen: Vec<(u64, u64)> = ms.iter().map(|m| (m.1, m.2)).collect();
            if frames != seen {
                return Sx::L(vec![Sx::sym("frame_table_mismatch")]);
            }
            let mut out = vec![];
            expand_specs(case.arg(3).list(), &entry, |b| out.push(read_verdict(b, &reqs, &origs)));
            Sx::L(out)
        }
        "extract" => {
            let objs = objs_of(case.arg(0));
            let so = content(case.arg(1).arg(0));
            let se = content(case.arg(2).arg(0));
            let dir = tempfile::Builder::new().prefix("c08").tempdir_in("/dev/shm").or_else(|_| tempfile::tempdir()).unwrap();
            let src = dir.path().join("src");
            let dst = dir.path().join("dst");
            std::fs::create_dir_all(&src).unwrap();
            std::fs::create_dir_all(&dst).unwrap();
            let mut sources = vec![];
            let mut dests = vec![];
            for (i, o) in objs.iter().enumerate() {
                let p = src.join(format!("f{}", i));
                if o.present {
                    std::fs::write(&p, &o.data).unwrap();
                    std::fs::set_permissions(&p, std::fs::Permissions::from_mode(o.mode.unwrap_or(0o644))).unwrap();
                }
                sources.push(FileObjectSource { key: o.name.clone(), path: p, optional: o.optional });
                dests.push(FileObjectSource { key: o.name.clone(), path: dst.join(format!("f{}", i)), optional: o.optional });
            }
            // files with mode 000 etc. are still readable for root; from_objects opens them for reading
            let handle = rt.handle().clone();
            apply_env(case.arg(4));
            let w = catch(|| rt.block_on(CacheWrite::from_objects(sources, &handle)));
            let mut w = match w {
                Ok(Ok(w)) => w,
                Ok(Err(_)) => return Sx::L(vec![Sx::sym("write_err")]),
                Err(_) => return Sx::L(vec![Sx::sym("panic")]),
            };
            let stdio_ok = w.put_stdout(&so).is_ok() && w.put_stderr(&se).is_ok();
            apply_env(&NIL);
            if !stdio_ok {
                return Sx::L(vec![Sx::sym("write_err")]);
            }
            let entry = match w.finish() {
                Ok(e) => e,
                Err(_) => return Sx::L(vec![Sx::sym("write_err")]),
            };
            let mut origs: Vec<Vec<u8>> = objs.iter().map(|o| o.data.clone()).collect();
            origs.push(so.clone());
            origs.push(se.clone());
            let mut corrupted = vec![];
            expand_specs(&[case.arg(3).clone()], &entry, |b| corrupted.push(b));
            let bytes = corrupted.into_iter().next().unwrap_or(entry);
            // the Cache::Hit arm of get_cached_or_compile
            // The Cache::Hit arm of get_cached_or_compile, decision for decision: a storage-level failure to open the
            // entry and any error of get_stdout/get_stderr are a miss; an error of extract_objects is a miss ONLY if
            // it downcasts to DecompressionFailure, otherwise the request fails ("fatal").
            let res = catch(|| {
                let mut rd = match CacheRead::from(Cursor::new(bytes)) {
                    Ok(rd) => rd,
                    Err(_) => return Err("miss"),
                };
                let so = rd.get_stdout().into_res();
                let se = rd.get_stderr().into_res();
                match (so, se) {
                    (Ok(so), Ok(se)) => match rt.block_on(rd.extract_objects(dests.clone(), &handle)) {
                        Ok(()) => Ok((so, se)),
                        Err(e) => {
                            if e.downcast_ref::<DecompressionFailure>().is_some() {
                                Err("miss")
                            } else {
                                Err("fatal")
                            }
                        }
                    },
                    _ => Err("miss"),
                }
            });
            match res {
                Err(_) => Sx::L(vec![Sx::sym("panic")]),
                Ok(Err(kind)) => Sx::L(vec![Sx::sym(kind)]),
                Ok(Ok((so2, se2))) => {
                    let mut fs = vec![];
                    for d in &dests {
                        match std::fs::read(&d.path) {
                            Ok(b) => {
                                let m = std::fs::metadata(&d.path).unwrap().permissions().mode() & 0o7777;
                                fs.push(Sx::L(vec![Sx::n(m), tok(&b, &origs)]));
                            }
                            Err(_) => fs.push(Sx::sym("absent")),
                        }
                    }
                    Sx::L(vec![Sx::sym("hit"), tok(&so2, &origs), tok(&se2, &origs), Sx::L(fs)])
                }
            }
        }
        _ => Sx::L(vec![Sx::sym("unknown_leg")]),
    });
}
