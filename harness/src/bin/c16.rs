//! c16 — drives the real `sccache::jobserver::Client` (and `mock_command::AsyncCommand` / `Child` on top of
//! it) and records, through the `verif_trace` hook, where tokens are requested, taken from the pipe by the
//! helper thread, handed over, received and given up.
//!
//! legs (argv[1]):
//!   det  case = ( k ( op ... ) )   single driver thread that polls every future itself; after each step it
//!        waits until the helper thread has nothing left to do, so the event order is reproducible.
//!        prints ( ( ( ev ... ) ( pool nheld nrunning npending ) ) ... ), pool = FIONREAD on the real pipe.
//!   mt   case = ( k workers ( ( id delay_us kind dur_ms cancel_us ) ... ) )   multi-threaded tokio runtime,
//!        one task per request, scripted cancellations; afterwards a saturating burst.
//!        prints ( k ( ev ... ) avail burst_granted extra_early extra_late avail_end max_children stuck orphaned )
//!   env  case = ( ncpus ( none|fifo|fds|garbage arg ) burst discard )   the real `Client::new()` (what the server
//!        calls) in a process pinned to ncpus CPUs whose environment carries a make jobserver of that shape
//!        prints ( limited pool granted_at_once empty_acquireds )
//! request kinds: 0 bare acquire; 1/2 AsyncCommand::spawn + Child::wait, exit 0 / 3;
//!   3 / 9 / 10 / 11 / 12 unstartable: no such file, not executable, a directory, bad interpreter, busy (ETXTBSY);
//!   4..8 util::run_input_output: 4/5 exits 0 / 1 while a grandchild keeps its stdout+stderr, 6 writes 300 kB to
//!   both pipes (stdout first; 13: stderr first), 7 is fed 300 kB it never reads, 8 kills itself.
use sccache::verif_hooks::jobserver::{verif_trace, Acquired, Client};
use sccache::verif_hooks::mock_command::{AsyncCommand, CommandChild, RunCommand};
use sccache::util::run_input_output;
use std::cell::Cell;
use std::collections::{HashMap, VecDeque};
use std::future::Future;
use std::pin::Pin;
use std::process::Stdio;
use std::sync::atomic::{AtomicBool, Ordering};
use std::sync::{Arc, Mutex};
use std::task::{Context, Poll};
use std::time::{Duration, Instant};
use vh::Sx;

#[derive(Clone, Copy, PartialEq, Debug)]
enum Phase {
    Queued,
    Gone,
    Slot,
    Held,
    Running,
    Draining,
    Orphan,
    Done,
}

#[derive(Clone, Debug)]
enum Ev {
    Request(u64),
    HelperAcquire,
    Deliver,
    Receive(u64),
    Cancel(u64),
    DropHeld(u64),
    Start(u64),
    SpawnFail(u64),
    Exit(u64, Option<bool>),
    DropRunning(u64),
    Done(u64),
    Other(&'static str),
}

impl Ev {
    fn sx(&self) -> Sx {
        let l1 = |t: &str, r: u64| Sx::L(vec![Sx::sym(t), Sx::n(r)]);
        match self {
            Ev::Request(r) => l1("request", *r),
            Ev::HelperAcquire => Sx::L(vec![Sx::sym("helper_acquire")]),
            Ev::Deliver => Sx::L(vec![Sx::sym("deliver")]),
            Ev::Receive(r) => l1("receive", *r),
            Ev::Cancel(r) => l1("cancel", *r),
            Ev::DropHeld(r) => l1("drop_held", *r),
            Ev::Start(r) => l1("start", *r),
            Ev::SpawnFail(r) => l1("spawn_fail", *r),
            Ev::Exit(r, ok) => Sx::L(vec![
                Sx::sym("exit"),
                Sx::n(*r),
                match ok {
                    Some(b) => Sx::bool(*b),
                    // not reported by the code under test yet (the request still waits for EOF): the status the
                    // process itself wrote into its marker just before it ended
                    None => match std::fs::read_to_string(marker(*r)).ok().as_deref().map(str::trim) {
                        Some("0") => Sx::bool(true),
                        Some("1") => Sx::bool(false),
                        _ => Sx::n(2u32),
                    },
                },
            ]),
            Ev::DropRunning(r) => l1("drop_running", *r),
            Ev::Done(r) => l1("done", *r),
            Ev::Other(s) => Sx::L(vec![Sx::sym("unexpected"), Sx::sym(s)]),
        }
    }
}

/// Everything the hook callback records.  `queue`, `phase`, `hand`, `out` are bookkeeping used ONLY to know
/// when the helper thread has come to rest and how to name a "release"; the verdicts come from the events.
#[derive(Default)]
struct Tr {
    evs: Vec<Ev>,
    queue: VecDeque<u64>,
    phase: HashMap<u64, Phase>,
    kind: HashMap<u64, u64>,
    dropping: HashMap<u64, bool>,
    hand: bool,
    out: i64,
    children: i64,
    max_children: i64,
    orphaned: u64,
}

static G: Mutex<Option<Tr>> = Mutex::new(None);

thread_local! {
    static CUR: Cell<u64> = const { Cell::new(0) };
}

fn with<T>(f: impl FnOnce(&mut Tr) -> T) -> T {
    let mut g = G.lock().unwrap_or_else(|e| e.into_inner());
    f(g.get_or_insert_with(Tr::default))
}

fn hook(ev: &'static str) {
    let r = CUR.with(|c| c.get());
    with(|t| match ev {
        "request" => {
            t.evs.push(Ev::Request(r));
            t.queue.push_back(r);
            t.phase.insert(r, Phase::Queued);
        }
        "helper_acquire" => {
            t.evs.push(Ev::HelperAcquire);
            t.hand = true;
            t.out += 1;
        }
        "deliver" => {
            t.evs.push(Ev::Deliver);
            if let Some(h) = t.queue.pop_front() {
                if t.phase.get(&h) == Some(&Phase::Gone) {
                    t.out -= 1;
                    t.phase.insert(h, Phase::Done);
                } else {
                    t.phase.insert(h, Phase::Slot);
                }
            }
        }
        "delivered" => {
            t.hand = false;
        }
        "receive" => {
            t.evs.push(Ev::Receive(r));
            t.phase.insert(r, Phase::Held);
            if via_run_input_output(t.kind.get(&r).copied().unwrap_or(0)) {
                // run_input_output: acquire and spawn of /bin/sh happen in the same poll, nothing of ours in between
                t.evs.push(Ev::Start(r));
                t.phase.insert(r, Phase::Running);
                t.children += 1;
                if t.children > t.max_children {
                    t.max_children = t.children;
                }
            }
        }
        "cancel" => {
            t.evs.push(Ev::Cancel(r));
            if t.phase.get(&r) == Some(&Phase::Slot) {
                t.out -= 1;
                t.phase.insert(r, Phase::Done);
            } else {
                t.phase.insert(r, Phase::Gone);
            }
        }
        "release" => {
            t.out -= 1;
            let ph = t.phase.get(&r).copied();
            let kind = t.kind.get(&r).copied().unwrap_or(0);
            match ph {
                Some(Phase::Held) if kind == 0 => {
                    t.evs.push(Ev::DropHeld(r));
                    t.phase.insert(r, Phase::Done);
                }
                Some(Phase::Held) => {
                    t.evs.push(Ev::SpawnFail(r));
                    t.phase.insert(r, Phase::Done);
                }
                Some(Phase::Running) => {
                    if t.dropping.get(&r).copied().unwrap_or(false) {
                        if !std::path::Path::new(&marker(r)).exists() {
                            t.orphaned += 1; // the process is still running and now has no token
                        }
                        t.evs.push(Ev::DropRunning(r));
                        t.phase.insert(r, Phase::Orphan);
                        t.children -= 1;
                    } else {
                        if !std::path::Path::new(&marker(r)).exists() {
                            t.evs.push(Ev::Other("token_released_while_process_runs"));
                        }
                        t.evs.push(Ev::Exit(r, None));
                        t.phase.insert(r, Phase::Draining);
                        t.children -= 1;
                    }
                }
                _ => t.evs.push(Ev::Other("release_without_token")),
            }
        }
        other => t.evs.push(Ev::Other(other)),
    })
}

fn started(r: u64) {
    with(|t| {
        t.evs.push(Ev::Start(r));
        t.phase.insert(r, Phase::Running);
        t.children += 1;
        if t.children > t.max_children {
            t.max_children = t.children;
        }
    })
}

fn exit_status(r: u64, ok: bool) {
    with(|t| {
        let declared = std::fs::read_to_string(marker(r)).ok().map(|s| s.trim().to_string());
        for e in t.evs.iter_mut().rev() {
            if let Ev::Exit(x, st) = e {
                if *x == r && st.is_none() {
                    *st = Some(ok);
                    break;
                }
            }
        }
        match declared.as_deref() {
            Some("0") if !ok => t.evs.push(Ev::Other("exit_status_mismatch")),
            Some("1") if ok => t.evs.push(Ev::Other("exit_status_mismatch")),
            _ => {}
        }
    })
}

/// The request is over (its future completed, or it is being dropped after its process has exited).
fn done(r: u64) {
    with(|t| {
        if t.phase.get(&r) == Some(&Phase::Draining) {
            t.evs.push(Ev::Done(r));
            t.phase.insert(r, Phase::Done);
        }
    })
}

fn phase_of(r: u64) -> Option<Phase> {
    with(|t| t.phase.get(&r).copied())
}

/// Kill what the process of request r left behind (it wrote that pid next to its marker).
fn kill_grandchild(r: u64) {
    if let Ok(s) = std::fs::read_to_string(format!("{}.gc", marker(r))) {
        if let Ok(pid) = s.trim().parse::<i32>() {
            if pid > 1 {
                unsafe { libc::kill(pid, libc::SIGKILL) };
            }
        }
    }
}

fn kill_all_grandchildren() {
    if let Ok(rd) = std::fs::read_dir(marker_dir()) {
        for e in rd.flatten() {
            if e.file_name().to_string_lossy().ends_with(".gc") {
                if let Ok(s) = std::fs::read_to_string(e.path()) {
                    if let Ok(pid) = s.trim().parse::<i32>() {
                        if pid > 1 {
                            unsafe { libc::kill(pid, libc::SIGKILL) };
                        }
                    }
                }
            }
        }
    }
}

fn via_run_input_output(kind: u64) -> bool {
    (4..=8).contains(&kind) || kind == 13
}

fn spawn_fails(kind: u64) -> bool {
    kind == 3 || (9..=12).contains(&kind)
}

/// Executables the harness keeps open for writing for the rest of the case (exec fails with ETXTBSY meanwhile).
static BUSY: Mutex<Vec<std::fs::File>> = Mutex::new(Vec::new());

fn release_busy() {
    BUSY.lock().unwrap_or_else(|e| e.into_inner()).clear();
}

/// A "compiler" that cannot be started: 3 no such file, 9 not executable, 10 a directory, 11 a script whose
/// interpreter does not exist, 12 an executable held open for writing.
fn unstartable(r: u64, kind: u64) -> Option<String> {
    use std::os::unix::fs::PermissionsExt;
    let p = format!("{}.exe", marker(r));
    let script = b"#!/bin/sh\nexit 0\n";
    match kind {
        3 => return Some("/nonexistent/verif-c16-no-such-compiler".to_string()),
        9 => {
            let _ = std::fs::write(&p, script);
            let _ = std::fs::set_permissions(&p, std::fs::Permissions::from_mode(0o644));
        }
        10 => {
            let _ = std::fs::create_dir_all(&p);
        }
        11 => {
            let _ = std::fs::write(&p, b"#!/nonexistent/verif-c16-no-such-interpreter\nexit 0\n");
            let _ = std::fs::set_permissions(&p, std::fs::Permissions::from_mode(0o755));
        }
        12 => {
            let _ = std::fs::write(&p, script);
            let _ = std::fs::set_permissions(&p, std::fs::Permissions::from_mode(0o755));
            if let Ok(f) = std::fs::OpenOptions::new().append(true).open(&p) {
                BUSY.lock().unwrap_or_else(|e| e.into_inner()).push(f);
            }
        }
        _ => return None,
    }
    Some(p)
}

static SLOW_SPAWNS: std::sync::atomic::AtomicU64 = std::sync::atomic::AtomicU64::new(0);

/// How long a request may sit on a token with neither a process started nor the spawn reported as failed.  In
/// the real path acquire -> spawn -> (Child | error) happens inside one poll.
fn spawn_bound() -> Duration {
    Duration::from_millis(if SLOW_SPAWNS.load(Ordering::SeqCst) > 0 { 300 } else { 3000 })
}

fn spawn_overdue() {
    SLOW_SPAWNS.fetch_add(1, Ordering::SeqCst);
    with(|g| g.evs.push(Ev::Other("token_held_without_process_or_spawn_error")));
}

/// mt leg: a request of a process kind that holds a token must start its process or fail within `spawn_bound()`.
async fn watch_spawn(r: u64) {
    let t0 = Instant::now();
    let mut held_at: Option<Instant> = None;
    loop {
        match phase_of(r) {
            Some(Phase::Held) => {
                let t = *held_at.get_or_insert_with(Instant::now);
                if t.elapsed() > spawn_bound() {
                    spawn_overdue();
                    release_busy(); // lets a retry loop end so that the case itself can end
                    return;
                }
            }
            Some(Phase::Queued) | Some(Phase::Slot) | None => {}
            _ => return,
        }
        if t0.elapsed() > Duration::from_secs(30) {
            return;
        }
        tokio::time::sleep(Duration::from_millis(2)).await;
    }
}

static HELPER_DIED: AtomicBool = AtomicBool::new(false);
static HANGS: std::sync::atomic::AtomicU64 = std::sync::atomic::AtomicU64::new(0);

/// How long a started compiler process (its script sleeps a few ms and writes at most 600 kB) may take to end.
/// A process that has not ended by then is HUNG - e.g. blocked writing to a pipe nobody drains - and so is its
/// request, token included.  Once seen in this harness process, later cases do not wait that long again.
fn hang_bound() -> Duration {
    Duration::from_millis(if HANGS.load(Ordering::SeqCst) > 0 { 500 } else { 4000 })
}

fn hung() {
    HANGS.fetch_add(1, Ordering::SeqCst);
    with(|g| g.evs.push(Ev::Other("hung_process_never_exited_request_keeps_its_token")));
}

static LATE_RELEASES: std::sync::atomic::AtomicU64 = std::sync::atomic::AtomicU64::new(0);

/// How long after the compiler PROCESS has ended (its marker exists) the token may take to be back.  The real
/// path is SIGCHLD -> reaper -> `Child::wait` returns -> drop: milliseconds.  Once exceeded in this process,
/// later cases do not wait that long again.
fn release_bound() -> Duration {
    Duration::from_millis(if LATE_RELEASES.load(Ordering::SeqCst) > 0 { 300 } else { 4000 })
}

fn process_script(r: u64, kind: u64, dur_ms: u64) -> String {
    let m = marker(r);
    let pre = format!("sleep {}.{:03}", dur_ms / 1000, dur_ms % 1000);
    match kind {
        1 => format!("{pre}; echo 0 > {m}; exit 0"),
        2 => format!("{pre}; echo 1 > {m}; exit 3"),
        // something the compiler started outlives it and keeps its stdout / stderr
        4 => format!("{pre}; sleep 20 & echo $! > {m}.gc; echo 0 > {m}; exit 0"),
        5 => format!("{pre}; sleep 20 & echo $! > {m}.gc; echo compiler error >&2; echo 1 > {m}; exit 1"),
        // more output than the pipes buffer, on both
        6 => format!(
            "{pre}; head -c 300000 /dev/zero | tr '\\0' x; head -c 300000 /dev/zero | tr '\\0' y >&2; echo 0 > {m}; exit 0"
        ),
        7 => format!("{pre}; echo 0 > {m}; exit 0"),
        // as 6, the other way round: diagnostics first, then the output
        13 => format!(
            "{pre}; head -c 300000 /dev/zero | tr '\\0' y >&2; head -c 300000 /dev/zero | tr '\\0' x; echo 0 > {m}; exit 0"
        ),
        _ => format!("{pre}; echo 1 > {m}; kill -9 $$"),
    }
}


/// The helper thread has nothing left to do (by the recorded events): no token in its hands, and either
/// nobody queued or every token is out.
fn settle(k: i64) -> bool {
    let t0 = Instant::now();
    loop {
        let done = with(|t| !t.hand && (t.queue.is_empty() || t.out >= k));
        if done {
            return true;
        }
        // the helper needs microseconds; once it failed to come to rest in this process, do not wait long again
        let limit = if SETTLE_TIMEOUTS.load(Ordering::SeqCst) > 0 { 200 } else { 5000 };
        if t0.elapsed() > Duration::from_millis(limit) {
            SETTLE_TIMEOUTS.fetch_add(1, Ordering::SeqCst);
            with(|t| t.evs.push(Ev::Other("settle_timeout")));
            return false;
        }
        std::thread::sleep(Duration::from_micros(30));
    }
}

enum Outcome {
    Token(Acquired),
    Exited,
    SpawnErr,
    AcquireErr,
}

type Fut = Pin<Box<dyn Future<Output = Outcome> + Send>>;

fn work(client: Client, r: u64, kind: u64, dur_ms: u64, hold: bool, watch: bool) -> Fut {
    Box::pin(async move {
        if kind == 0 {
            match client.acquire().await {
                Ok(t) => {
                    if hold {
                        tokio::time::sleep(Duration::from_millis(dur_ms)).await;
                        drop(t);
                        Outcome::Exited
                    } else {
                        Outcome::Token(t)
                    }
                }
                Err(_) => Outcome::AcquireErr,
            }
        } else if kind <= 3 || (9..=12).contains(&kind) {
            let prog = unstartable(r, kind).unwrap_or_else(|| "/bin/sh".to_string());
            if watch && spawn_fails(kind) {
                tokio::spawn(watch_spawn(r));
            }
            let mut cmd = AsyncCommand::new(prog, client);
            // the process leaves a marker just before it ends: a token given up by `wait` while the marker is
            // missing was given up while the process was still running
            cmd.arg("-c")
                .arg(process_script(r, kind, dur_ms))
                .stdin(Stdio::null())
                .stdout(Stdio::null())
                .stderr(Stdio::null());
            match cmd.spawn().await {
                Ok(child) => {
                    started(r);
                    let st = child.wait().await;
                    exit_status(r, st.map(|s| s.success()).unwrap_or(false));
                    done(r);
                    Outcome::Exited
                }
                Err(_) => Outcome::SpawnErr,
            }
        } else {
            // the path every compiler / preprocessor run of the server takes: util::run_input_output
            let mut cmd = AsyncCommand::new("/bin/sh", client);
            cmd.arg("-c").arg(process_script(r, kind, dur_ms));
            let input = if kind == 7 { Some(vec![b'z'; 300_000]) } else { Some(vec![]) };
            if watch {
                tokio::spawn(watch_release(r));
            }
            let res = run_input_output(cmd, input).await;
            exit_status(r, res.is_ok());
            done(r);
            Outcome::Exited
        }
    })
}

/// mt leg: once the process of r has ended, its token must be back within `release_bound()` although a
/// grandchild still holds the pipes; then the grandchild is killed so that the request itself can end.
async fn watch_release(r: u64) {
    let t0 = Instant::now();
    let mut exited_at: Option<Instant> = None;
    loop {
        match phase_of(r) {
            Some(Phase::Draining) => {
                kill_grandchild(r);
                return;
            }
            Some(Phase::Done) | Some(Phase::Orphan) | Some(Phase::Gone) => return,
            _ => {}
        }
        if exited_at.is_none() && std::path::Path::new(&marker(r)).exists() {
            exited_at = Some(Instant::now());
        }
        if let Some(t) = exited_at {
            if t.elapsed() > release_bound() {
                if phase_of(r) == Some(Phase::Running) {
                    LATE_RELEASES.fetch_add(1, Ordering::SeqCst);
                    with(|g| g.evs.push(Ev::Other("token_not_back_after_process_exit")));
                }
                kill_grandchild(r);
                return;
            }
        }
        if t0.elapsed() > Duration::from_secs(30) {
            kill_grandchild(r);
            return;
        }
        tokio::time::sleep(Duration::from_millis(2)).await;
    }
}

/// Polls / drops the inner future with the thread-local request id set, so that the hook can name it.
struct Tagged {
    r: u64,
    fut: Option<Fut>,
}

impl Future for Tagged {
    type Output = Outcome;
    fn poll(mut self: Pin<&mut Self>, cx: &mut Context<'_>) -> Poll<Outcome> {
        let r = self.r;
        let prev = CUR.with(|c| c.replace(r));
        let res = self.fut.as_mut().unwrap().as_mut().poll(cx);
        if res.is_ready() {
            self.fut = None; // drop the finished future (and whatever it still owns) under the tag
        }
        CUR.with(|c| c.set(prev));
        res
    }
}

impl Drop for Tagged {
    fn drop(&mut self) {
        let prev = CUR.with(|c| c.replace(self.r));
        self.fut = None;
        CUR.with(|c| c.set(prev));
    }
}

fn drop_tagged<T>(r: u64, x: T) {
    let prev = CUR.with(|c| c.replace(r));
    drop(x);
    CUR.with(|c| c.set(prev));
}

static STUCK_CASES: std::sync::atomic::AtomicU64 = std::sync::atomic::AtomicU64::new(0);
static SETTLE_TIMEOUTS: std::sync::atomic::AtomicU64 = std::sync::atomic::AtomicU64::new(0);
static CASE_NO: std::sync::atomic::AtomicU64 = std::sync::atomic::AtomicU64::new(0);

fn marker_dir() -> String {
    format!("/dev/shm/c16vh-{}", std::process::id())
}

fn marker(r: u64) -> String {
    format!("{}/{}-{}", marker_dir(), CASE_NO.load(Ordering::SeqCst), r)
}

fn reset() {
    CASE_NO.fetch_add(1, Ordering::SeqCst);
    release_busy();
    let _ = std::fs::remove_dir_all(marker_dir());
    let _ = std::fs::create_dir_all(marker_dir());
    let mut g = G.lock().unwrap_or_else(|e| e.into_inner());
    *g = Some(Tr::default());
}

// ------------------------------------------------------------------ deterministic leg

enum Slot {
    Pending(Tagged),
    Holding(Acquired),
    Child(Tagged),
    Draining(Tagged),
}

fn det(case: &Sx) -> Sx {
    reset();
    let k = case.arg(0).u64() as i64;
    let ops = case.arg(1).list().to_vec();
    let rt = tokio::runtime::Builder::new_current_thread().enable_all().build().unwrap();
    let out = rt.block_on(async move {
        let client = Client::new_num(k as usize);
        let mut slots: HashMap<u64, Slot> = HashMap::new();
        let mut out = vec![];
        let mut mark = 0usize;

        // one poll of r's future; returns after the helper has come to rest
        async fn poll_one(slots: &mut HashMap<u64, Slot>, r: u64, k: i64) {
            if !matches!(slots.get(&r), Some(Slot::Pending(_))) {
                settle(k);
                return;
            }
            if let Some(Slot::Pending(mut t)) = slots.remove(&r) {
                match futures::poll!(&mut t) {
                    Poll::Ready(Outcome::Token(a)) => {
                        slots.insert(r, Slot::Holding(a));
                    }
                    Poll::Ready(_) => {}
                    Poll::Pending => {
                        // a process request that has its token must have started its process or reported the
                        // spawn error in that very poll; give it `spawn_bound()` before calling it overdue
                        let mut gone = false;
                        if phase_of(r) == Some(Phase::Held) {
                            let t0 = Instant::now();
                            loop {
                                if let Poll::Ready(_) = futures::poll!(&mut t) {
                                    gone = true;
                                    break;
                                }
                                if phase_of(r) != Some(Phase::Held) {
                                    break;
                                }
                                if t0.elapsed() > spawn_bound() {
                                    spawn_overdue();
                                    break;
                                }
                                tokio::time::sleep(Duration::from_millis(1)).await;
                            }
                        }
                        if gone || phase_of(r) == Some(Phase::Held) {
                            // overdue: dropping gives the token back (recorded as the spawn failure it should have been)
                            drop(t);
                        } else {
                            let running = with(|g| g.phase.get(&r) == Some(&Phase::Running));
                            slots.insert(r, if running { Slot::Child(t) } else { Slot::Pending(t) });
                        }
                    }
                }
            }
            settle(k);
        }

        for op in ops {
            let tag = op.tag();
            match tag.as_str() {
                "req" => {
                    let r = op.arg(1).u64();
                    let kind = op.arg(2).u64();
                    let active = with(|g| !matches!(g.phase.get(&r), None | Some(Phase::Done)));
                    if !active {
                        with(|g| {
                            g.kind.insert(r, kind);
                            g.dropping.insert(r, false);
                        });
                        let t = Tagged { r, fut: Some(work(client.clone(), r, kind, 15, false, false)) };
                        slots.insert(r, Slot::Pending(t));
                        poll_one(&mut slots, r, k).await;
                        poll_one(&mut slots, r, k).await;
                    }
                }
                "poll" | "advance" => {
                    if tag == "advance" {
                        // the clock jumps ahead (tokio's paused clock): time-outs anywhere in the code under test
                        // fire as if the requests had queued that long; on the real code nothing may happen
                        let secs = op.arg(1).u64().min(1_000_000);
                        tokio::time::pause();
                        tokio::time::advance(Duration::from_secs(secs)).await;
                        tokio::time::resume();
                    }
                    let mut ids: Vec<u64> = slots
                        .iter()
                        .filter(|(_, s)| matches!(s, Slot::Pending(_)))
                        .map(|(r, _)| *r)
                        .collect();
                    ids.sort();
                    for r in ids {
                        poll_one(&mut slots, r, k).await;
                    }
                }
                "wait" => {
                    // poll r's future until its process has ended and the token is back
                    let r = op.arg(1).u64();
                    if !matches!(slots.get(&r), Some(Slot::Child(_))) {
                        // not a running process: nothing to wait for
                    } else if let Some(Slot::Child(mut t)) = slots.remove(&r) {
                        let t0 = Instant::now();
                        let mut exited_at: Option<Instant> = None;
                        let mut ready = false;
                        loop {
                            if let Poll::Ready(_) = futures::poll!(&mut t) {
                                ready = true;
                                break;
                            }
                            if phase_of(r) != Some(Phase::Running) {
                                break; // token released; the request still waits for EOF on the pipes
                            }
                            if exited_at.is_none() && std::path::Path::new(&marker(r)).exists() {
                                exited_at = Some(Instant::now());
                            }
                            if exited_at.map(|t| t.elapsed() > release_bound()).unwrap_or(false) {
                                LATE_RELEASES.fetch_add(1, Ordering::SeqCst);
                                with(|g| g.evs.push(Ev::Other("token_not_back_after_process_exit")));
                                break;
                            }
                            if exited_at.is_none() && t0.elapsed() > hang_bound() {
                                hung();
                                break;
                            }
                            if t0.elapsed() > Duration::from_secs(15) {
                                with(|g| g.evs.push(Ev::Other("wait_timeout")));
                                break;
                            }
                            tokio::time::sleep(Duration::from_millis(1)).await;
                        }
                        let kind = with(|g| g.kind.get(&r).copied().unwrap_or(0));
                        let is_hung = !ready && phase_of(r) == Some(Phase::Running) && exited_at.is_none();
                        if ready {
                            drop(t);
                        } else if is_hung {
                            // dropping the request closes the pipes' read ends: the blocked process gets EPIPE and ends
                            with(|g| g.dropping.insert(r, true));
                            drop(t);
                        } else if (kind == 4 || kind == 5) && phase_of(r) == Some(Phase::Draining) {
                            slots.insert(r, Slot::Draining(t));
                        } else {
                            // nothing is supposed to hold the pipes (or the wait went wrong): let the request end
                            kill_grandchild(r);
                            let t1 = Instant::now();
                            loop {
                                if let Poll::Ready(_) = futures::poll!(&mut t) {
                                    break;
                                }
                                if t1.elapsed() > Duration::from_secs(4) {
                                    with(|g| g.evs.push(Ev::Other("finish_timeout")));
                                    break;
                                }
                                tokio::time::sleep(Duration::from_millis(1)).await;
                            }
                            if phase_of(r) == Some(Phase::Running) {
                                with(|g| g.dropping.insert(r, true));
                            }
                            drop(t);
                        }
                        settle(k);
                    }
                }
                "finish" => {
                    let r = op.arg(1).u64();
                    if !matches!(slots.get(&r), Some(Slot::Draining(_))) {
                    } else if let Some(Slot::Draining(mut t)) = slots.remove(&r) {
                        kill_grandchild(r);
                        let t1 = Instant::now();
                        loop {
                            if let Poll::Ready(_) = futures::poll!(&mut t) {
                                break;
                            }
                            if t1.elapsed() > Duration::from_secs(4) {
                                with(|g| g.evs.push(Ev::Other("finish_timeout")));
                                break;
                            }
                            tokio::time::sleep(Duration::from_millis(1)).await;
                        }
                        drop(t);
                        settle(k);
                    }
                }
                "drop" => {
                    let r = op.arg(1).u64();
                    match slots.remove(&r) {
                        Some(Slot::Pending(t)) => drop(t),
                        Some(Slot::Holding(a)) => drop_tagged(r, a),
                        Some(Slot::Child(t)) => {
                            with(|g| g.dropping.insert(r, true));
                            drop(t)
                        }
                        Some(Slot::Draining(t)) => {
                            kill_grandchild(r);
                            done(r);
                            drop(t)
                        }
                        None => {}
                    }
                    settle(k);
                }
                _ => with(|g| g.evs.push(Ev::Other("bad_op"))),
            }
            let evs: Vec<Sx> = with(|g| {
                // `done` moves no token and races with the helper thread's events: listed last (as the model does)
                let (d, nd): (Vec<&Ev>, Vec<&Ev>) = g.evs[mark..].iter().partition(|e| matches!(e, Ev::Done(_)));
                let v = nd.into_iter().chain(d).map(|e| e.sx()).collect();
                mark = g.evs.len();
                v
            });
            let avail = client.verif_available().map(|n| n as u64).unwrap_or(9999);
            let nheld = slots.values().filter(|s| matches!(s, Slot::Holding(_))).count();
            let nrun = slots.values().filter(|s| matches!(s, Slot::Child(_))).count();
            let npend = slots.values().filter(|s| matches!(s, Slot::Pending(_))).count();
            let ndrain = slots.values().filter(|s| matches!(s, Slot::Draining(_))).count();
            out.push(Sx::L(vec![
                Sx::L(evs),
                Sx::L(vec![Sx::n(avail), Sx::usize(nheld), Sx::usize(nrun), Sx::usize(npend), Sx::usize(ndrain)]),
            ]));
        }
        // tidy up under the tags so that late events are attributed (they are not reported)
        let ids: Vec<u64> = slots.keys().copied().collect();
        for r in ids {
            match slots.remove(&r) {
                Some(Slot::Holding(a)) => drop_tagged(r, a),
                Some(Slot::Child(t)) => {
                    with(|g| g.dropping.insert(r, true));
                    drop(t)
                }
                Some(Slot::Pending(t)) => drop(t),
                Some(Slot::Draining(t)) => drop(t),
                None => {}
            }
        }
        kill_all_grandchildren();
        drop(client);
        out
    });
    drop(rt);
    Sx::L(out)
}

// ------------------------------------------------------------------ threaded leg

fn wait_quiet(secs: u64) -> bool {
    let t0 = Instant::now();
    loop {
        if with(|t| !t.hand && t.queue.is_empty()) {
            return true;
        }
        if t0.elapsed() > Duration::from_secs(secs) {
            return false;
        }
        std::thread::sleep(Duration::from_micros(200));
    }
}

fn mt(case: &Sx) -> Sx {
    reset();
    let k = case.arg(0).u64() as usize;
    let workers = case.arg(1).u64().max(1) as usize;
    let reqs = case.arg(2).list().to_vec();
    // upper bound of what the script itself asks for: every hold / process duration plus the latest start
    let scripted_ms: u64 = reqs.iter().map(|q| q.arg(3).u64()).sum::<u64>()
        + reqs.iter().map(|q| q.arg(1).u64() / 1000 + 1).max().unwrap_or(0);
    let rt = tokio::runtime::Builder::new_multi_thread()
        .worker_threads(workers)
        .enable_all()
        .build()
        .unwrap();
    let res = rt.block_on(async move {
        let client = Client::new_num(k);
        let mut handles = vec![];
        for rq in reqs {
            let r = rq.arg(0).u64();
            let delay = rq.arg(1).u64();
            let kind = rq.arg(2).u64();
            let dur = rq.arg(3).u64();
            let cancel = rq.arg(4).u64();
            with(|g| {
                g.kind.insert(r, kind);
                g.dropping.insert(r, false);
            });
            let client = client.clone();
            handles.push(tokio::spawn(async move {
                tokio::time::sleep(Duration::from_micros(delay)).await;
                let mut w = Tagged { r, fut: Some(work(client, r, kind, dur, true, true)) };
                if cancel > 0 {
                    tokio::select! {
                        biased; // the request is always issued before the cancellation timer is looked at
                        _ = &mut w => {}
                        _ = tokio::time::sleep(Duration::from_micros(cancel)) => {
                            with(|g| g.dropping.insert(r, true));
                        }
                    }
                } else {
                    (&mut w).await;
                }
                if phase_of(r) == Some(Phase::Draining) {
                    // cancelled after the process has ended, while its pipes are still held
                    kill_grandchild(r);
                    done(r);
                }
                drop(w);
            }));
        }
        // One deadline for the whole script (its scripted durations add up to well under a second): a request
        // that was never cancelled and has no token by then is stuck.  After two stuck cases in this process the
        // deadline shrinks so that a leaking implementation is reported in minutes, not hours.
        let ms = if STUCK_CASES.load(Ordering::SeqCst) >= 2 { 1000 + 10 * scripted_ms } else { 6000 + 30 * scripted_ms };
        let deadline = tokio::time::Instant::now() + Duration::from_millis(ms);
        let mut stuck = false;
        for h in handles {
            let ab = h.abort_handle();
            if tokio::time::timeout_at(deadline, h).await.is_err() {
                stuck = true;
                ab.abort();
            }
        }
        if stuck {
            STUCK_CASES.fetch_add(1, Ordering::SeqCst);
            let hung_now: Vec<u64> = with(|g| {
                g.phase.iter().filter(|(_, p)| **p == Phase::Running).map(|(r, _)| *r).collect()
            });
            if hung_now.iter().any(|r| !std::path::Path::new(&marker(*r)).exists()) {
                hung();
            }
            let avail = client.verif_available().map(|n| n as u64).unwrap_or(9999);
            drop(client);
            return (avail, 0, false, false, avail, true);
        }
        // every request has ended one way or another; let the helper get rid of abandoned senders
        let quiet = wait_quiet(15);
        let avail = if quiet { client.verif_available().map(|n| n as u64).unwrap_or(9999) } else { 9998 };

        if !quiet || avail != k as u64 {
            // a token is already missing (or the helper never came to rest): reported as such, no burst
            drop(client);
            return (avail, 0, false, false, avail, false);
        }
        // saturating burst: k acquisitions must all be granted, the k+1-th must wait
        let base = 100_000u64;
        let mut toks = vec![];
        let mut granted = 0u64;
        for i in 0..k as u64 {
            let r = base + i;
            with(|g| {
                g.kind.insert(r, 0);
            });
            let t = Tagged { r, fut: Some(work(client.clone(), r, 0, 0, false, false)) };
            match tokio::time::timeout(Duration::from_secs(if quiet { 15 } else { 1 }), t).await {
                Ok(Outcome::Token(a)) => {
                    granted += 1;
                    toks.push((r, a));
                }
                _ => break,
            }
        }
        let xr = base + k as u64;
        with(|g| {
            g.kind.insert(xr, 0);
        });
        let flag = Arc::new(AtomicBool::new(false));
        let f2 = flag.clone();
        let cl = client.clone();
        let extra = tokio::spawn(async move {
            let t = Tagged { r: xr, fut: Some(work(cl, xr, 0, 0, false, false)) };
            let o = t.await;
            f2.store(true, Ordering::SeqCst);
            o
        });
        tokio::time::sleep(Duration::from_millis(60)).await;
        let early = flag.load(Ordering::SeqCst);
        let mut late = false;
        if let Some((r, a)) = toks.pop() {
            drop_tagged(r, a);
        }
        if let Ok(Ok(Outcome::Token(a))) = tokio::time::timeout(Duration::from_secs(15), extra).await {
            late = true;
            drop_tagged(xr, a);
        }
        for (r, a) in toks.drain(..) {
            drop_tagged(r, a);
        }
        let quiet2 = wait_quiet(15);
        let avail_end = if quiet2 { client.verif_available().map(|n| n as u64).unwrap_or(9999) } else { 9998 };
        drop(client);
        (avail, granted, early, late, avail_end, stuck)
    });
    drop(rt);
    kill_all_grandchildren();
    let (evs, maxc, orphaned) =
        with(|g| (g.evs.iter().map(|e| e.sx()).collect::<Vec<_>>(), g.max_children, g.orphaned));
    Sx::L(vec![
        Sx::usize(k),
        Sx::L(evs),
        Sx::n(res.0),
        Sx::n(res.1),
        Sx::bool(res.2),
        Sx::bool(res.3),
        Sx::n(res.4),
        Sx::n(maxc.max(0) as u64),
        Sx::bool(res.5),
        Sx::n(orphaned),
    ])
}

// ------------------------------------------------------------------ how the server builds its client

fn allowed_cpus() -> Vec<usize> {
    let mut v = vec![];
    unsafe {
        let mut cur: libc::cpu_set_t = std::mem::zeroed();
        if libc::sched_getaffinity(0, std::mem::size_of::<libc::cpu_set_t>(), &mut cur) == 0 {
            for cpu in 0..libc::CPU_SETSIZE as usize {
                if libc::CPU_ISSET(cpu, &cur) {
                    v.push(cpu);
                }
            }
        }
    }
    v
}

fn pin_to(cpus: &[usize]) {
    unsafe {
        let mut set: libc::cpu_set_t = std::mem::zeroed();
        for c in cpus {
            libc::CPU_SET(*c, &mut set);
        }
        libc::sched_setaffinity(0, std::mem::size_of::<libc::cpu_set_t>(), &set);
    }
}

const MAKE_VARS: [&str; 3] = ["MAKEFLAGS", "CARGO_MAKEFLAGS", "MFLAGS"];

/// `Client::new()` is what `server::start_server` calls (after `daemonize()` ran `discard_inherited_jobserver`).
fn env_leg(case: &Sx, original: &[usize]) -> Sx {
    reset();
    let ncpus = (case.arg(0).u64() as usize).clamp(1, original.len().max(1));
    let shape = case.arg(1).tag();
    let arg = case.arg(1).arg(1).u64();
    let burst = case.arg(2).u64() as usize;
    let discard = case.arg(3).u64() != 0;
    for v in MAKE_VARS {
        std::env::remove_var(v);
    }
    pin_to(&original[..ncpus.min(original.len())]);
    let var = MAKE_VARS[(arg % 3) as usize];
    let mut fifo_keep: Option<std::fs::File> = None;
    let fifo_path = format!("{}/make-{}.fifo", marker_dir(), CASE_NO.load(Ordering::SeqCst));
    let mut fds: Option<(i32, i32)> = None;
    match shape.as_str() {
        "fifo" => {
            use std::io::Write;
            use std::os::unix::fs::OpenOptionsExt;
            let c = std::ffi::CString::new(fifo_path.clone()).unwrap();
            unsafe { libc::mkfifo(c.as_ptr(), 0o600) };
            if let Ok(mut f) = std::fs::OpenOptions::new()
                .read(true)
                .write(true)
                .custom_flags(libc::O_NONBLOCK)
                .open(&fifo_path)
            {
                let _ = f.write_all(&vec![b'+'; arg as usize]);
                fifo_keep = Some(f);
            }
            std::env::set_var(var, format!(" -j{} --jobserver-auth=fifo:{}", arg + 1, fifo_path));
        }
        "fds" => {
            let mut p = [0i32; 2];
            if unsafe { libc::pipe(p.as_mut_ptr()) } == 0 {
                let tokens = [b'+'; 8];
                unsafe { libc::write(p[1], tokens.as_ptr() as *const libc::c_void, tokens.len()) };
                std::env::set_var(var, format!(" -j9 --jobserver-auth={},{}", p[0], p[1]));
                if arg == 0 {
                    // the descriptors named by the flags are not open in this process
                    unsafe {
                        libc::close(p[0]);
                        libc::close(p[1]);
                    }
                } else {
                    fds = Some((p[0], p[1]));
                }
            }
        }
        "garbage" => {
            let g = [
                " -j --jobserver-auth=bogus:xyz -- FOO=bar",
                " -j4 --jobserver-fds=abc,def",
                "w -j8",
                " --jobserver-auth=fifo:/nonexistent/c16/no-such-fifo",
            ];
            std::env::set_var(var, g[(arg as usize) % g.len()]);
        }
        _ => {}
    }
    if discard {
        // what daemonize() does before the server builds its client
        // (it panics on `--jobserver-fds=abc,def`: the real server then does not come up at all; not C16's business)
        let _ = vh::catch(|| unsafe { sccache::verif_hooks::jobserver::discard_inherited_jobserver() });
        if fds.is_some() {
            fds = None; // closed by the call above
        }
    }
    let seen = sccache::util::num_cpus();
    let rt = tokio::runtime::Builder::new_current_thread().enable_all().build().unwrap();
    let res = vh::catch(|| {
        rt.block_on(async {
            let client = Client::new();
            let limited = !client.verif_unlimited();
            let pool = if limited { client.verif_available().map(|n| n as u64).unwrap_or(9999) } else { 0 };
            let want = burst.min(seen);
            let mut futs: Vec<Option<Pin<Box<dyn Future<Output = Option<Acquired>>>>>> = vec![];
            for _ in 0..burst {
                let c = client.clone();
                futs.push(Some(Box::pin(async move { c.acquire().await.ok() })));
            }
            let mut got: Vec<Acquired> = vec![];
            let t0 = Instant::now();
            let mut full_at: Option<Instant> = None;
            loop {
                for f in futs.iter_mut() {
                    if let Some(fut) = f {
                        if let Poll::Ready(a) = futures::poll!(fut.as_mut()) {
                            if let Some(a) = a {
                                got.push(a);
                            }
                            *f = None;
                        }
                    }
                }
                if got.len() >= want && full_at.is_none() {
                    full_at = Some(Instant::now());
                }
                // once as many as the CPU count hold a token, watch a little longer for one too many
                if full_at.map(|t| t.elapsed() > Duration::from_millis(40)).unwrap_or(false) {
                    break;
                }
                if t0.elapsed() > Duration::from_secs(10) {
                    break;
                }
                tokio::time::sleep(Duration::from_millis(1)).await;
            }
            let granted = got.len() as u64;
            let empty = got.iter().filter(|a| !a.verif_has_token()).count() as u64;
            drop(got);
            drop(futs);
            drop(client);
            (limited, pool, granted, empty)
        })
    });
    drop(rt);
    for v in MAKE_VARS {
        std::env::remove_var(v);
    }
    if let Some((r, w)) = fds {
        unsafe {
            libc::close(r);
            libc::close(w);
        }
    }
    drop(fifo_keep);
    let _ = std::fs::remove_file(&fifo_path);
    pin_to(original);
    match res {
        Ok((limited, pool, granted, empty)) => {
            Sx::L(vec![Sx::bool(limited), Sx::n(pool), Sx::n(granted), Sx::n(empty)])
        }
        Err(m) => Sx::L(vec![Sx::sym("panic"), Sx::B(m.into_bytes())]),
    }
}

struct Cleanup;
impl Drop for Cleanup {
    fn drop(&mut self) {
        let _ = std::fs::remove_dir_all(marker_dir());
    }
}

fn main() {
    let leg = std::env::args().nth(1).unwrap_or_default();
    verif_trace::set_hook(Box::new(hook));
    // marker directories of harness processes that were killed
    if let Ok(rd) = std::fs::read_dir("/dev/shm") {
        for e in rd.flatten() {
            let name = e.file_name().to_string_lossy().to_string();
            if let Some(pid) = name.strip_prefix("c16vh-") {
                if !std::path::Path::new(&format!("/proc/{}", pid)).exists() {
                    let _ = std::fs::remove_dir_all(e.path());
                }
            }
        }
    }
    let _cleanup = Cleanup;
    let original = allowed_cpus();
    // a panic of the helper thread (it has no name) is an observation, not noise on stdout/stderr
    std::panic::set_hook(Box::new(|_info| {
        if std::thread::current().name().is_none() {
            HELPER_DIED.store(true, Ordering::SeqCst);
        }
    }));
    let guarded = |f: &dyn Fn(&Sx) -> Sx, case: &Sx| -> Sx {
        HELPER_DIED.store(false, Ordering::SeqCst);
        let res = vh::catch(|| f(case));
        let died = HELPER_DIED.load(Ordering::SeqCst);
        match res {
            Ok(out) if !died => out,
            // the helper thread is the only one that moves tokens from the pipe to waiters: without it no request can
            // ever obtain a token again (later acquire()s panic or fail)
            _ if died => Sx::L(vec![Sx::sym("helper_died")]),
            Err(m) => Sx::L(vec![Sx::sym("panic"), Sx::B(m.into_bytes())]),
            Ok(out) => out,
        }
    };
    vh::run_lines(|case| match leg.as_str() {
        "det" => guarded(&det, case),
        "mt" => guarded(&mt, case),
        "env" => guarded(&|c: &Sx| env_leg(c, &original), case),
        // the token count `Client::new()` would use in this process' CPU set (server.rs: Client::new())
        "ncpus" => Sx::L(vec![Sx::sym("ncpus"), Sx::usize(sccache::util::num_cpus())]),
        _ => Sx::L(vec![Sx::sym("unknown_leg")]),
    });
}
