//! c16 — drives the real `sccache::jobserver::Client` (and `mock_command::AsyncCommand` / `Child` on top of
//! it) and records, through the `verif_trace` hook, where tokens are requested, taken from the pipe by the
//! helper thread, handed over, received and given up.
//!
//! legs (argv[1]):
//!   det  case = ( k ( op ... ) )   single driver thread that polls every future itself; after each step it
//!        waits until the helper thread has nothing left to do, so the event order is reproducible.
//!        prints ( ( ( ev ... ) ( pool nheld nrunning npending ) ) ... ), pool = FIONREAD on the real pipe.
//!   mt   case = ( k workers ( ( id delay_us kind dur_ms cancel_us ) ... ) )   multi-threaded tokio runtime,
//!        one task per request, scripted cancellations; afterwards a saturating burst.
//!        prints ( k ( ev ... ) avail burst_granted extra_early extra_late avail_end max_children stuck orphaned )
use sccache::verif_hooks::jobserver::{verif_trace, Acquired, Client};
use sccache::verif_hooks::mock_command::{AsyncCommand, CommandChild, RunCommand};
use std::cell::Cell;
use std::collections::{HashMap, VecDeque};
use std::future::Future;
use std::pin::Pin;
use std::process::Stdio;
use std::sync::atomic::{AtomicBool, Ordering};
use std::sync::{Arc, Mutex};
use std::task::{Context, Poll};
use std::time::{Duration, Instant};
use vh::Sx;

#[derive(Clone, Copy, PartialEq, Debug)]
enum Phase {
    Queued,
    Gone,
    Slot,
    Held,
    Running,
    Orphan,
    Done,
}

#[derive(Clone, Debug)]
enum Ev {
    Request(u64),
    HelperAcquire,
    Deliver,
    Receive(u64),
    Cancel(u64),
    DropHeld(u64),
    Start(u64),
    SpawnFail(u64),
    Exit(u64, Option<bool>),
    DropRunning(u64),
    Other(&'static str),
}

impl Ev {
    fn sx(&self) -> Sx {
        let l1 = |t: &str, r: u64| Sx::L(vec![Sx::sym(t), Sx::n(r)]);
        match self {
            Ev::Request(r) => l1("request", *r),
            Ev::HelperAcquire => Sx::L(vec![Sx::sym("helper_acquire")]),
            Ev::Deliver => Sx::L(vec![Sx::sym("deliver")]),
            Ev::Receive(r) => l1("receive", *r),
            Ev::Cancel(r) => l1("cancel", *r),
            Ev::DropHeld(r) => l1("drop_held", *r),
            Ev::Start(r) => l1("start", *r),
            Ev::SpawnFail(r) => l1("spawn_fail", *r),
            Ev::Exit(r, ok) => Sx::L(vec![
                Sx::sym("exit"),
                Sx::n(*r),
                match ok {
                    Some(b) => Sx::bool(*b),
                    None => Sx::n(2u32),
                },
            ]),
            Ev::DropRunning(r) => l1("drop_running", *r),
            Ev::Other(s) => Sx::L(vec![Sx::sym("unexpected"), Sx::sym(s)]),
        }
    }
}

/// Everything the hook callback records.  `queue`, `phase`, `hand`, `out` are bookkeeping used ONLY to know
/// when the helper thread has come to rest and how to name a "release"; the verdicts come from the events.
#[derive(Default)]
struct Tr {
    evs: Vec<Ev>,
    queue: VecDeque<u64>,
    phase: HashMap<u64, Phase>,
    kind: HashMap<u64, u64>,
    dropping: HashMap<u64, bool>,
    hand: bool,
    out: i64,
    children: i64,
    max_children: i64,
    orphaned: u64,
}

static G: Mutex<Option<Tr>> = Mutex::new(None);

thread_local! {
    static CUR: Cell<u64> = const { Cell::new(0) };
}

fn with<T>(f: impl FnOnce(&mut Tr) -> T) -> T {
    let mut g = G.lock().unwrap_or_else(|e| e.into_inner());
    f(g.get_or_insert_with(Tr::default))
}

fn hook(ev: &'static str) {
    let r = CUR.with(|c| c.get());
    with(|t| match ev {
        "request" => {
            t.evs.push(Ev::Request(r));
            t.queue.push_back(r);
            t.phase.insert(r, Phase::Queued);
        }
        "helper_acquire" => {
            t.evs.push(Ev::HelperAcquire);
            t.hand = true;
            t.out += 1;
        }
        "deliver" => {
            t.evs.push(Ev::Deliver);
            if let Some(h) = t.queue.pop_front() {
                if t.phase.get(&h) == Some(&Phase::Gone) {
                    t.out -= 1;
                    t.phase.insert(h, Phase::Done);
                } else {
                    t.phase.insert(h, Phase::Slot);
                }
            }
        }
        "delivered" => {
            t.hand = false;
        }
        "receive" => {
            t.evs.push(Ev::Receive(r));
            t.phase.insert(r, Phase::Held);
        }
        "cancel" => {
            t.evs.push(Ev::Cancel(r));
            if t.phase.get(&r) == Some(&Phase::Slot) {
                t.out -= 1;
                t.phase.insert(r, Phase::Done);
            } else {
                t.phase.insert(r, Phase::Gone);
            }
        }
        "release" => {
            t.out -= 1;
            let ph = t.phase.get(&r).copied();
            let kind = t.kind.get(&r).copied().unwrap_or(0);
            match ph {
                Some(Phase::Held) if kind == 0 => {
                    t.evs.push(Ev::DropHeld(r));
                    t.phase.insert(r, Phase::Done);
                }
                Some(Phase::Held) => {
                    t.evs.push(Ev::SpawnFail(r));
                    t.phase.insert(r, Phase::Done);
                }
                Some(Phase::Running) => {
                    if t.dropping.get(&r).copied().unwrap_or(false) {
                        if !std::path::Path::new(&marker(r)).exists() {
                            t.orphaned += 1; // the process is still running and now has no token
                        }
                        t.evs.push(Ev::DropRunning(r));
                        t.phase.insert(r, Phase::Orphan);
                        t.children -= 1;
                    } else {
                        if !std::path::Path::new(&marker(r)).exists() {
                            t.evs.push(Ev::Other("token_released_while_process_runs"));
                        }
                        t.evs.push(Ev::Exit(r, None));
                        t.phase.insert(r, Phase::Done);
                        t.children -= 1;
                    }
                }
                _ => t.evs.push(Ev::Other("release_without_token")),
            }
        }
        other => t.evs.push(Ev::Other(other)),
    })
}

fn started(r: u64) {
    with(|t| {
        t.evs.push(Ev::Start(r));
        t.phase.insert(r, Phase::Running);
        t.children += 1;
        if t.children > t.max_children {
            t.max_children = t.children;
        }
    })
}

fn exit_status(r: u64, ok: bool) {
    with(|t| {
        for e in t.evs.iter_mut().rev() {
            if let Ev::Exit(x, st) = e {
                if *x == r && st.is_none() {
                    *st = Some(ok);
                    break;
                }
            }
        }
    })
}

/// The helper thread has nothing left to do (by the recorded events): no token in its hands, and either
/// nobody queued or every token is out.
fn settle(k: i64) -> bool {
    let t0 = Instant::now();
    loop {
        let done = with(|t| !t.hand && (t.queue.is_empty() || t.out >= k));
        if done {
            return true;
        }
        // the helper needs microseconds; once it failed to come to rest in this process, do not wait long again
        let limit = if SETTLE_TIMEOUTS.load(Ordering::SeqCst) > 0 { 200 } else { 8000 };
        if t0.elapsed() > Duration::from_millis(limit) {
            SETTLE_TIMEOUTS.fetch_add(1, Ordering::SeqCst);
            with(|t| t.evs.push(Ev::Other("settle_timeout")));
            return false;
        }
        std::thread::sleep(Duration::from_micros(30));
    }
}

enum Outcome {
    Token(Acquired),
    Exited,
    SpawnErr,
    AcquireErr,
}

type Fut = Pin<Box<dyn Future<Output = Outcome> + Send>>;

fn work(client: Client, r: u64, kind: u64, dur_ms: u64, hold: bool) -> Fut {
    Box::pin(async move {
        if kind == 0 {
            match client.acquire().await {
                Ok(t) => {
                    if hold {
                        tokio::time::sleep(Duration::from_millis(dur_ms)).await;
                        drop(t);
                        Outcome::Exited
                    } else {
                        Outcome::Token(t)
                    }
                }
                Err(_) => Outcome::AcquireErr,
            }
        } else {
            let prog = if kind == 3 { "/nonexistent/verif-c16-no-such-compiler" } else { "/bin/sh" };
            let mut cmd = AsyncCommand::new(prog, client);
            // the process leaves a marker just before it ends: a token given up by `wait` while the marker is
            // missing was given up while the process was still running
            let script = format!(
                "sleep {}.{:03}; : > {}; exit {}",
                dur_ms / 1000,
                dur_ms % 1000,
                marker(r),
                if kind == 1 { 0 } else { 3 }
            );
            cmd.arg("-c")
                .arg(script)
                .stdin(Stdio::null())
                .stdout(Stdio::null())
                .stderr(Stdio::null());
            match cmd.spawn().await {
                Ok(child) => {
                    started(r);
                    let st = child.wait().await;
                    exit_status(r, st.map(|s| s.success()).unwrap_or(false));
                    Outcome::Exited
                }
                Err(_) => Outcome::SpawnErr,
            }
        }
    })
}

/// Polls / drops the inner future with the thread-local request id set, so that the hook can name it.
struct Tagged {
    r: u64,
    fut: Option<Fut>,
}

impl Future for Tagged {
    type Output = Outcome;
    fn poll(mut self: Pin<&mut Self>, cx: &mut Context<'_>) -> Poll<Outcome> {
        let r = self.r;
        let prev = CUR.with(|c| c.replace(r));
        let res = self.fut.as_mut().unwrap().as_mut().poll(cx);
        if res.is_ready() {
            self.fut = None; // drop the finished future (and whatever it still owns) under the tag
        }
        CUR.with(|c| c.set(prev));
        res
    }
}

impl Drop for Tagged {
    fn drop(&mut self) {
        let prev = CUR.with(|c| c.replace(self.r));
        self.fut = None;
        CUR.with(|c| c.set(prev));
    }
}

fn drop_tagged<T>(r: u64, x: T) {
    let prev = CUR.with(|c| c.replace(r));
    drop(x);
    CUR.with(|c| c.set(prev));
}

static STUCK_CASES: std::sync::atomic::AtomicU64 = std::sync::atomic::AtomicU64::new(0);
static SETTLE_TIMEOUTS: std::sync::atomic::AtomicU64 = std::sync::atomic::AtomicU64::new(0);
static CASE_NO: std::sync::atomic::AtomicU64 = std::sync::atomic::AtomicU64::new(0);

fn marker_dir() -> String {
    format!("/dev/shm/c16vh-{}", std::process::id())
}

fn marker(r: u64) -> String {
    format!("{}/{}-{}", marker_dir(), CASE_NO.load(Ordering::SeqCst), r)
}

fn reset() {
    CASE_NO.fetch_add(1, Ordering::SeqCst);
    let _ = std::fs::remove_dir_all(marker_dir());
    let _ = std::fs::create_dir_all(marker_dir());
    let mut g = G.lock().unwrap_or_else(|e| e.into_inner());
    *g = Some(Tr::default());
}

// ------------------------------------------------------------------ deterministic leg

enum Slot {
    Pending(Tagged),
    Holding(Acquired),
    Child(Tagged),
}

fn det(case: &Sx) -> Sx {
    reset();
    let k = case.arg(0).u64() as i64;
    let ops = case.arg(1).list().to_vec();
    let rt = tokio::runtime::Builder::new_current_thread().enable_all().build().unwrap();
    let out = rt.block_on(async move {
        let client = Client::new_num(k as usize);
        let mut slots: HashMap<u64, Slot> = HashMap::new();
        let mut out = vec![];
        let mut mark = 0usize;

        // one poll of r's future; returns after the helper has come to rest
        async fn poll_one(slots: &mut HashMap<u64, Slot>, r: u64, k: i64) {
            if !matches!(slots.get(&r), Some(Slot::Pending(_))) {
                settle(k);
                return;
            }
            if let Some(Slot::Pending(mut t)) = slots.remove(&r) {
                match futures::poll!(&mut t) {
                    Poll::Ready(Outcome::Token(a)) => {
                        slots.insert(r, Slot::Holding(a));
                    }
                    Poll::Ready(_) => {}
                    Poll::Pending => {
                        let running = with(|g| g.phase.get(&r) == Some(&Phase::Running));
                        slots.insert(r, if running { Slot::Child(t) } else { Slot::Pending(t) });
                    }
                }
            }
            settle(k);
        }

        for op in ops {
            let tag = op.tag();
            match tag.as_str() {
                "req" => {
                    let r = op.arg(1).u64();
                    let kind = op.arg(2).u64();
                    let active = with(|g| !matches!(g.phase.get(&r), None | Some(Phase::Done)));
                    if !active {
                        with(|g| {
                            g.kind.insert(r, kind);
                            g.dropping.insert(r, false);
                        });
                        let t = Tagged { r, fut: Some(work(client.clone(), r, kind, 15, false)) };
                        slots.insert(r, Slot::Pending(t));
                        poll_one(&mut slots, r, k).await;
                        poll_one(&mut slots, r, k).await;
                    }
                }
                "poll" => {
                    let mut ids: Vec<u64> = slots
                        .iter()
                        .filter(|(_, s)| matches!(s, Slot::Pending(_)))
                        .map(|(r, _)| *r)
                        .collect();
                    ids.sort();
                    for r in ids {
                        poll_one(&mut slots, r, k).await;
                    }
                }
                "wait" => {
                    let r = op.arg(1).u64();
                    if !matches!(slots.get(&r), Some(Slot::Child(_))) {
                        // not a running process: nothing to wait for
                    } else if let Some(Slot::Child(mut t)) = slots.remove(&r) {
                        let t0 = Instant::now();
                        loop {
                            if let Poll::Ready(_) = futures::poll!(&mut t) {
                                break;
                            }
                            if t0.elapsed() > Duration::from_secs(30) {
                                with(|g| g.evs.push(Ev::Other("wait_timeout")));
                                break;
                            }
                            tokio::time::sleep(Duration::from_millis(1)).await;
                        }
                        drop(t);
                        settle(k);
                    }
                }
                "drop" => {
                    let r = op.arg(1).u64();
                    match slots.remove(&r) {
                        Some(Slot::Pending(t)) => drop(t),
                        Some(Slot::Holding(a)) => drop_tagged(r, a),
                        Some(Slot::Child(t)) => {
                            with(|g| g.dropping.insert(r, true));
                            drop(t)
                        }
                        None => {}
                    }
                    settle(k);
                }
                _ => with(|g| g.evs.push(Ev::Other("bad_op"))),
            }
            let evs: Vec<Sx> = with(|g| {
                let v = g.evs[mark..].iter().map(|e| e.sx()).collect();
                mark = g.evs.len();
                v
            });
            let avail = client.verif_available().map(|n| n as u64).unwrap_or(9999);
            let nheld = slots.values().filter(|s| matches!(s, Slot::Holding(_))).count();
            let nrun = slots.values().filter(|s| matches!(s, Slot::Child(_))).count();
            let npend = slots.values().filter(|s| matches!(s, Slot::Pending(_))).count();
            out.push(Sx::L(vec![
                Sx::L(evs),
                Sx::L(vec![Sx::n(avail), Sx::usize(nheld), Sx::usize(nrun), Sx::usize(npend)]),
            ]));
        }
        // tidy up under the tags so that late events are attributed (they are not reported)
        let ids: Vec<u64> = slots.keys().copied().collect();
        for r in ids {
            match slots.remove(&r) {
                Some(Slot::Holding(a)) => drop_tagged(r, a),
                Some(Slot::Child(t)) => {
                    with(|g| g.dropping.insert(r, true));
                    drop(t)
                }
                Some(Slot::Pending(t)) => drop(t),
                None => {}
            }
        }
        drop(client);
        out
    });
    drop(rt);
    Sx::L(out)
}

// ------------------------------------------------------------------ threaded leg

fn wait_quiet(secs: u64) -> bool {
    let t0 = Instant::now();
    loop {
        if with(|t| !t.hand && t.queue.is_empty()) {
            return true;
        }
        if t0.elapsed() > Duration::from_secs(secs) {
            return false;
        }
        std::thread::sleep(Duration::from_micros(200));
    }
}

fn mt(case: &Sx) -> Sx {
    reset();
    let k = case.arg(0).u64() as usize;
    let workers = case.arg(1).u64().max(1) as usize;
    let reqs = case.arg(2).list().to_vec();
    // upper bound of what the script itself asks for: every hold / process duration plus the latest start
    let scripted_ms: u64 = reqs.iter().map(|q| q.arg(3).u64()).sum::<u64>()
        + reqs.iter().map(|q| q.arg(1).u64() / 1000 + 1).max().unwrap_or(0);
    let rt = tokio::runtime::Builder::new_multi_thread()
        .worker_threads(workers)
        .enable_all()
        .build()
        .unwrap();
    let res = rt.block_on(async move {
        let client = Client::new_num(k);
        let mut handles = vec![];
        for rq in reqs {
            let r = rq.arg(0).u64();
            let delay = rq.arg(1).u64();
            let kind = rq.arg(2).u64();
            let dur = rq.arg(3).u64();
            let cancel = rq.arg(4).u64();
            with(|g| {
                g.kind.insert(r, kind);
                g.dropping.insert(r, false);
            });
            let client = client.clone();
            handles.push(tokio::spawn(async move {
                tokio::time::sleep(Duration::from_micros(delay)).await;
                let mut w = Tagged { r, fut: Some(work(client, r, kind, dur, true)) };
                if cancel > 0 {
                    tokio::select! {
                        biased; // the request is always issued before the cancellation timer is looked at
                        _ = &mut w => {}
                        _ = tokio::time::sleep(Duration::from_micros(cancel)) => {
                            with(|g| g.dropping.insert(r, true));
                        }
                    }
                } else {
                    (&mut w).await;
                }
                drop(w);
            }));
        }
        // One deadline for the whole script (its scripted durations add up to well under a second): a request
        // that was never cancelled and has no token by then is stuck.  After two stuck cases in this process the
        // deadline shrinks so that a leaking implementation is reported in minutes, not hours.
        let ms = if STUCK_CASES.load(Ordering::SeqCst) >= 2 { 1000 + 10 * scripted_ms } else { 6000 + 30 * scripted_ms };
        let deadline = tokio::time::Instant::now() + Duration::from_millis(ms);
        let mut stuck = false;
        for h in handles {
            let ab = h.abort_handle();
            if tokio::time::timeout_at(deadline, h).await.is_err() {
                stuck = true;
                ab.abort();
            }
        }
        if stuck {
            STUCK_CASES.fetch_add(1, Ordering::SeqCst);
            let avail = client.verif_available().map(|n| n as u64).unwrap_or(9999);
            drop(client);
            return (avail, 0, false, false, avail, true);
        }
        // every request has ended one way or another; let the helper get rid of abandoned senders
        let quiet = wait_quiet(15);
        let avail = if quiet { client.verif_available().map(|n| n as u64).unwrap_or(9999) } else { 9998 };

        if !quiet || avail != k as u64 {
            // a token is already missing (or the helper never came to rest): reported as such, no burst
            drop(client);
            return (avail, 0, false, false, avail, false);
        }
        // saturating burst: k acquisitions must all be granted, the k+1-th must wait
        let base = 100_000u64;
        let mut toks = vec![];
        let mut granted = 0u64;
        for i in 0..k as u64 {
            let r = base + i;
            with(|g| {
                g.kind.insert(r, 0);
            });
            let t = Tagged { r, fut: Some(work(client.clone(), r, 0, 0, false)) };
            match tokio::time::timeout(Duration::from_secs(if quiet { 15 } else { 1 }), t).await {
                Ok(Outcome::Token(a)) => {
                    granted += 1;
                    toks.push((r, a));
                }
                _ => break,
            }
        }
        let xr = base + k as u64;
        with(|g| {
            g.kind.insert(xr, 0);
        });
        let flag = Arc::new(AtomicBool::new(false));
        let f2 = flag.clone();
        let cl = client.clone();
        let extra = tokio::spawn(async move {
            let t = Tagged { r: xr, fut: Some(work(cl, xr, 0, 0, false)) };
            let o = t.await;
            f2.store(true, Ordering::SeqCst);
            o
        });
        tokio::time::sleep(Duration::from_millis(60)).await;
        let early = flag.load(Ordering::SeqCst);
        let mut late = false;
        if let Some((r, a)) = toks.pop() {
            drop_tagged(r, a);
        }
        if let Ok(Ok(Outcome::Token(a))) = tokio::time::timeout(Duration::from_secs(15), extra).await {
            late = true;
            drop_tagged(xr, a);
        }
        for (r, a) in toks.drain(..) {
            drop_tagged(r, a);
        }
        let quiet2 = wait_quiet(15);
        let avail_end = if quiet2 { client.verif_available().map(|n| n as u64).unwrap_or(9999) } else { 9998 };
        drop(client);
        (avail, granted, early, late, avail_end, stuck)
    });
    drop(rt);
    let (evs, maxc, orphaned) =
        with(|g| (g.evs.iter().map(|e| e.sx()).collect::<Vec<_>>(), g.max_children, g.orphaned));
    Sx::L(vec![
        Sx::usize(k),
        Sx::L(evs),
        Sx::n(res.0),
        Sx::n(res.1),
        Sx::bool(res.2),
        Sx::bool(res.3),
        Sx::n(res.4),
        Sx::n(maxc.max(0) as u64),
        Sx::bool(res.5),
        Sx::n(orphaned),
    ])
}

struct Cleanup;
impl Drop for Cleanup {
    fn drop(&mut self) {
        let _ = std::fs::remove_dir_all(marker_dir());
    }
}

fn main() {
    let leg = std::env::args().nth(1).unwrap_or_default();
    verif_trace::set_hook(Box::new(hook));
    // marker directories of harness processes that were killed
    if let Ok(rd) = std::fs::read_dir("/dev/shm") {
        for e in rd.flatten() {
            let name = e.file_name().to_string_lossy().to_string();
            if let Some(pid) = name.strip_prefix("c16vh-") {
                if !std::path::Path::new(&format!("/proc/{}", pid)).exists() {
                    let _ = std::fs::remove_dir_all(e.path());
                }
            }
        }
    }
    let _cleanup = Cleanup;
    vh::run_lines(|case| match leg.as_str() {
        "det" => det(case),
        "mt" => mt(case),
        // the token count `Client::new()` would use in this process' CPU set (server.rs: Client::new())
        "ncpus" => Sx::L(vec![Sx::sym("ncpus"), Sx::usize(sccache::util::num_cpus())]),
        _ => Sx::L(vec![Sx::sym("unknown_leg")]),
    });
}
