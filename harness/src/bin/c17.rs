//! c17 — drives the real `sccache::dist::TcCache` (toolchain cache of build
//! servers and clients) on a scratch directory with the op sequences of
//! Run/C17.v and prints the same observations.
//!
//!   c17 tccache   case   = ( cap ( (content id) ... ) ( id ... ) ( (path content mtime) ... ) ( op ... ) )
//!                 ( insert_with id content fail [rewind] ): the writer writes `content`, then seeks back `rewind` bytes
//!   c17 mount     case   = ( cap ( (content id) ... ) ( id ... ) ( (dir/ pages) ... ) ( op ... ) )
//!                 like tccache, but the listed shard directories of the cache are mount points of their own
//!                 (tmpfs of `pages` 4 KiB pages, in a PRIVATE mount namespace of this process; always
//!                 unmounted): a rename into them fails with EXDEV, a copy into them can hit ENOSPC part-way.
//!                 contents may be written ( rep byte n ); observations give lengths instead of contents.
//!                 Prints `(skipped)` for every case when mount namespaces are unavailable.
//!   c17 mountcheck       -> 1 / 0
//!   c17 server    case   = ( cap ( (content id) ... ) ( id ... ) ( op ... ) )   the build server in front of the cache:
//!                 handed to `$VERIF_C17_DIST __verif_paths tc` (the real `Server` of the sccache-dist binary);
//!                 prints `(skipped)` when that binary or its `tc` leg is not there.
//!   c17 servercheck      -> 1 / 0
//!   c17 client    case   = ( cap ( (content id) ... ) ( op ... ) )      the client side: ClientToolchains
//!   c17 hash      line   = ( content ... )   ->   ( id ... )     (real ids: sccache::util::Digest = BLAKE3)
//!
//! An interrupted upload followed by a server restart (`crash_upload`) is
//! reproduced without killing the process: at the crash point (inside the
//! writer callback, after the bytes were written) the cache directory is copied
//! aside with its mtimes; the copy is what the restarted server finds.
use filetime::{set_file_mtime, FileTime};
use sccache::dist::{ClientToolchains, TcCache, Toolchain};
use sccache::lru_disk_cache::Error as LruError;
use sccache::util::Digest;
use std::ffi::OsStr;
use std::io::{Read, Seek, Write};
use std::os::unix::ffi::OsStrExt;
use std::path::{Path, PathBuf};
use vh::{catch, Sx};

const BASE: i64 = 1_000_000_000;
const RANGE: i64 = 100_000_000;

/// A content argument: a byte string, or ( rep byte n ).
fn content_arg(x: &Sx) -> Vec<u8> {
    if x.tag() == "rep" {
        vec![x.arg(1).u64() as u8; x.arg(2).u64() as usize]
    } else {
        x.bytes().to_vec()
    }
}

fn show_content(content: Vec<u8>, compact: bool) -> Sx {
    if compact {
        Sx::usize(content.len())
    } else {
        Sx::B(content)
    }
}

/// Put the tree saved by `snapshot` back in place of the files below `root` (mount points stay).
fn restore(snap: &Path, root: &Path) {
    let mut files = vec![];
    walk(root, root, &mut files);
    for (_, p) in files {
        std::fs::remove_file(&p).unwrap();
    }
    snapshot(snap, root);
    let _ = std::fs::remove_dir_all(snap);
}

/// Enter a private mount namespace (mounts made by this process are invisible outside and vanish with it).
fn private_mount_namespace() -> bool {
    unsafe {
        if libc::unshare(libc::CLONE_NEWNS) != 0 {
            return false;
        }
        let root = std::ffi::CString::new("/").unwrap();
        libc::mount(std::ptr::null(), root.as_ptr(), std::ptr::null(), libc::MS_REC | libc::MS_PRIVATE, std::ptr::null()) == 0
    }
}

/// A tmpfs of `pages` 4 KiB pages mounted at a directory inside the scratch dir; unmounted on drop.
struct Tmpfs(PathBuf);
impl Tmpfs {
    fn mount(at: &Path, pages: u64) -> Option<Tmpfs> {
        std::fs::create_dir_all(at).ok()?;
        let src = std::ffi::CString::new("tmpfs").unwrap();
        let tgt = std::ffi::CString::new(at.as_os_str().as_bytes()).unwrap();
        let opt = std::ffi::CString::new(format!("size={}", pages * 4096)).unwrap();
        let r = unsafe { libc::mount(src.as_ptr(), tgt.as_ptr(), src.as_ptr(), 0, opt.as_ptr() as *const libc::c_void) };
        if r == 0 {
            Some(Tmpfs(at.to_owned()))
        } else {
            None
        }
    }
}
impl Drop for Tmpfs {
    fn drop(&mut self) {
        let tgt = std::ffi::CString::new(self.0.as_os_str().as_bytes()).unwrap();
        unsafe {
            libc::umount2(tgt.as_ptr(), libc::MNT_DETACH);
        }
    }
}

fn real_id(content: &[u8]) -> Vec<u8> {
    Digest::reader_sync(content).unwrap().into_bytes()
}

fn walk(root: &Path, dir: &Path, out: &mut Vec<(Vec<u8>, PathBuf)>) {
    if let Ok(rd) = std::fs::read_dir(dir) {
        for e in rd.flatten() {
            let p = e.path();
            let ft = match e.file_type() {
                Ok(t) => t,
                Err(_) => continue,
            };
            if ft.is_dir() {
                walk(root, &p, out);
            } else if ft.is_file() {
                let rel = p.strip_prefix(root).unwrap().as_os_str().as_bytes().to_vec();
                out.push((rel, p.clone()));
            }
        }
    }
}

/// Copy the tree `from` to `to`, keeping modification times (the "disk image at the crash point").
fn snapshot(from: &Path, to: &Path) {
    let mut files = vec![];
    walk(from, from, &mut files);
    std::fs::create_dir_all(to).unwrap();
    for (rel, p) in files {
        let dst = to.join(OsStr::from_bytes(&rel));
        std::fs::create_dir_all(dst.parent().unwrap()).unwrap();
        std::fs::copy(&p, &dst).unwrap();
        let m = std::fs::metadata(&p).unwrap();
        set_file_mtime(&dst, FileTime::from_last_modification_time(&m)).unwrap();
    }
}

fn tc_of(id: &[u8]) -> Option<Toolchain> {
    // archive ids are Rust `String`s: a byte string that is not UTF-8 cannot even be submitted
    String::from_utf8(id.to_vec()).ok().map(|archive_id| Toolchain { archive_id })
}

fn lru_kind(e: &LruError) -> &'static str {
    match e {
        LruError::FileTooLarge => "too_large",
        LruError::FileNotInCache => "not_in_cache",
        LruError::Io(_) => "io_err",
    }
}

fn anyhow_kind(e: &anyhow::Error) -> &'static str {
    if let Some(l) = e.downcast_ref::<LruError>() {
        lru_kind(l)
    } else if e.downcast_ref::<std::io::Error>().is_some() {
        "io_err"
    } else {
        "rejected"
    }
}

/// Sorted listing of the entry files below `root` as (path content logical-mtime real-digest); files the
/// code under test just touched (mtime outside the logical range) are reported and moved onto the logical clock.
fn list_dir(root: &Path, clock: &mut i64, compact: bool) -> (Vec<Sx>, Vec<Sx>, u64) {
    let mut listing = vec![];
    walk(root, root, &mut listing);
    listing.sort();
    let mut touched = vec![];
    let mut files = vec![];
    let mut ntmp = 0u64;
    for (rel, path) in listing {
        let name = path.file_name().unwrap().as_bytes();
        if name.starts_with(b".sccachetmp") {
            ntmp += 1;
            continue;
        }
        let m = std::fs::metadata(&path).unwrap();
        let mt = FileTime::from_last_modification_time(&m).unix_seconds();
        let logical = if (BASE..BASE + RANGE).contains(&mt) {
            mt - BASE
        } else {
            *clock += 1;
            set_file_mtime(&path, FileTime::from_unix_time(BASE + *clock, 0)).unwrap();
            touched.push(Sx::B(rel.clone()));
            *clock
        };
        let content = std::fs::read(&path).unwrap();
        let id = real_id(&content);
        files.push(Sx::L(vec![Sx::B(rel), show_content(content, compact), Sx::N(logical as u128), Sx::B(id)]));
    }
    (touched, files, ntmp)
}

struct World {
    root: PathBuf,
    ext: PathBuf,
    snap: PathBuf,
    cache: Option<TcCache>,
    ids: Vec<Vec<u8>>,
    clock: i64,
    poisoned: bool,
    nfile: u64,
    /// mount leg: shard directories are mount points; observations give lengths
    compact: bool,
}

impl World {
    fn observe(&mut self, res: &str, ret: Vec<Sx>) -> Sx {
        let (touched, files, ntmp) = list_dir(&self.root, &mut self.clock, self.compact);
        let mut present = vec![];
        let (size, len, index) = match &self.cache {
            Some(c) => {
                for id in &self.ids {
                    let p = match tc_of(id) {
                        None => Sx::N(0),
                        Some(tc) => match catch(|| c.contains_toolchain(&tc)) {
                            Ok(b) => Sx::bool(b),
                            Err(_) => Sx::sym("panic"),
                        },
                    };
                    present.push(Sx::L(vec![Sx::B(id.clone()), p]));
                }
                let inner = c.verif_inner();
                let idx = inner
                    .verif_index()
                    .into_iter()
                    .map(|(k, v)| Sx::L(vec![Sx::B(k.as_bytes().to_vec()), Sx::n(v)]))
                    .collect();
                (inner.size(), c.len(), idx)
            }
            None => (0, 0, vec![]),
        };
        Sx::L(vec![
            Sx::sym(res),
            Sx::L(ret),
            Sx::L(touched),
            Sx::L(present),
            Sx::n(size),
            Sx::usize(len),
            Sx::L(index),
            Sx::L(files),
            Sx::n(ntmp),
        ])
    }

    fn open(&mut self, cap: u64) -> &'static str {
        self.cache = None;
        match TcCache::new(&self.root, cap) {
            Ok(c) => {
                self.cache = Some(c);
                "ok"
            }
            Err(_) => "io_err",
        }
    }

    fn apply(&mut self, op: &Sx) -> (String, Vec<Sx>) {
        let tag = op.tag();
        let none = vec![];
        match tag.as_str() {
            "reopen" => (self.open(op.arg(1).u64()).into(), none),
            "insert_with" => {
                let content = content_arg(op.arg(2));
                let fail = op.arg(3).as_bool();
                let tc = match tc_of(op.arg(1).bytes()) {
                    Some(tc) => tc,
                    None => return ("rejected".into(), none),
                };
                // optional 5th argument: the writer does not leave the file cursor at the end of what it wrote
                // (it seeks back `rewind` bytes, as a writer patching a header or using positional writes would)
                let rewind = op.arg(4).u64();
                let r = self.cache.as_mut().unwrap().insert_with(&tc, |mut f| {
                    f.write_all(&content)?;
                    f.flush()?;
                    if rewind > 0 {
                        f.seek(std::io::SeekFrom::Start((content.len() as u64).saturating_sub(rewind)))?;
                    }
                    if fail {
                        // the client went away in the middle of the upload
                        Err(std::io::Error::new(std::io::ErrorKind::UnexpectedEof, "upload cut short"))
                    } else {
                        Ok(())
                    }
                });
                (match r { Ok(()) => "ok", Err(e) => anyhow_kind(&e) }.into(), none)
            }
            "crash_upload" => {
                let content = content_arg(op.arg(2));
                let cap = op.arg(3).u64();
                let (root, snap) = (self.root.clone(), self.snap.clone());
                let _ = std::fs::remove_dir_all(&snap);
                let mut snapped = false;
                if let Some(tc) = tc_of(op.arg(1).bytes()) {
                    let _ = self.cache.as_mut().unwrap().insert_with(&tc, |mut f| {
                        f.write_all(&content)?;
                        f.flush()?;
                        // the server dies here: this is what is on its disk
                        snapshot(&root, &snap);
                        snapped = true;
                        Err(std::io::Error::new(std::io::ErrorKind::Other, "crash"))
                    });
                }
                self.cache = None;
                if snapped && self.compact {
                    restore(&snap, &root);
                } else if snapped {
                    std::fs::remove_dir_all(&root).unwrap();
                    std::fs::rename(&snap, &root).unwrap();
                }
                (self.open(cap).into(), none)
            }
            "insert_file" => {
                self.nfile += 1;
                let src = self.ext.join(format!("f{}", self.nfile));
                std::fs::write(&src, content_arg(op.arg(1))).unwrap();
                match self.cache.as_mut().unwrap().verif_insert_file(&src) {
                    Ok(tc) => ("ok".into(), vec![Sx::B(tc.archive_id.into_bytes())]),
                    Err(e) => {
                        let _ = std::fs::remove_file(&src);
                        (anyhow_kind(&e).into(), none)
                    }
                }
            }
            "crash_insert_file" => {
                // (mount leg) the process is killed while insert_file's fall-back copy is writing:
                // a forked child with RLIMIT_FSIZE = `limit` runs the real insert_file and dies of
                // SIGXFSZ once the copy has written `limit` bytes; then the cache is re-opened.
                self.nfile += 1;
                let src = self.ext.join(format!("f{}", self.nfile));
                std::fs::write(&src, content_arg(op.arg(1))).unwrap();
                let limit = op.arg(2).u64();
                let cap = op.arg(3).u64();
                let pid = unsafe { libc::fork() };
                if pid == 0 {
                    let lim = libc::rlimit { rlim_cur: limit, rlim_max: limit };
                    unsafe { libc::setrlimit(libc::RLIMIT_FSIZE, &lim) };
                    let r = self.cache.as_mut().unwrap().verif_insert_file(&src);
                    unsafe { libc::_exit(if r.is_ok() { 0 } else { 1 }) };
                }
                let mut status = 0;
                unsafe { libc::waitpid(pid, &mut status, 0) };
                let how = if libc::WIFSIGNALED(status) { "killed" } else if libc::WEXITSTATUS(status) == 0 { "done" } else { "failed" };
                let _ = std::fs::remove_file(&src);
                self.cache = None;
                let r = self.open(cap);
                (r.into(), vec![Sx::sym(how)])
            }
            "get" => {
                let tc = match tc_of(op.arg(1).bytes()) {
                    Some(tc) => tc,
                    None => return ("not_in_cache".into(), none),
                };
                match self.cache.as_mut().unwrap().get(&tc) {
                    Ok(mut rdr) => {
                        let mut content = vec![];
                        rdr.read_to_end(&mut content).unwrap();
                        let id = real_id(&content);
                        ("ok".into(), vec![show_content(content, self.compact), Sx::B(id)])
                    }
                    Err(e) => (lru_kind(&e).into(), none),
                }
            }
            "remove" => {
                let tc = match tc_of(op.arg(1).bytes()) {
                    Some(tc) => tc,
                    None => return ("ok".into(), none),
                };
                (match self.cache.as_mut().unwrap().remove(&tc) { Ok(()) => "ok", Err(e) => lru_kind(&e) }.into(), none)
            }
            "contains" => {
                let b = match tc_of(op.arg(1).bytes()) {
                    Some(tc) => self.cache.as_ref().unwrap().contains_toolchain(&tc),
                    None => false,
                };
                (if b { "true" } else { "false" }.into(), none)
            }
            _ => ("bad_op".into(), none),
        }
    }
}

fn run_case(case: &Sx, mounted: bool) -> Sx {
    // the table gives the model its digest function: it must be the real one
    for e in case.arg(1).list() {
        if real_id(&content_arg(e.arg(0))) != e.arg(1).bytes() {
            return Sx::L(vec![Sx::sym("bad_table")]);
        }
    }
    let td = tempfile::Builder::new().prefix("vh-c17-").tempdir_in("/dev/shm").unwrap();
    let root = td.path().join("tc");
    let ext = td.path().join("ext");
    let snap = td.path().join("snap");
    std::fs::create_dir_all(&root).unwrap();
    std::fs::create_dir_all(&ext).unwrap();
    // declared after `td`, so the mounts are gone before the scratch directory is removed
    let mut mounts = vec![];
    if mounted {
        for m in case.arg(3).list() {
            match Tmpfs::mount(&root.join(OsStr::from_bytes(m.arg(0).bytes())), m.arg(1).u64()) {
                Some(t) => mounts.push(t),
                None => return Sx::L(vec![Sx::sym("skipped")]),
            }
        }
    } else {
        for f in case.arg(3).list() {
            let p = root.join(OsStr::from_bytes(f.arg(0).bytes()));
            std::fs::create_dir_all(p.parent().unwrap()).unwrap();
            std::fs::write(&p, f.arg(1).bytes()).unwrap();
            set_file_mtime(&p, FileTime::from_unix_time(BASE + f.arg(2).u64() as i64, 0)).unwrap();
        }
    }
    let mut w = World {
        root,
        ext,
        snap,
        cache: None,
        ids: case.arg(2).list().iter().map(|x| x.bytes().to_vec()).collect(),
        clock: 1000,
        poisoned: false,
        nfile: 0,
        compact: mounted,
    };
    let mut out = vec![];
    let r = w.open(case.arg(0).u64());
    out.push(w.observe(r, vec![]));
    for op in case.arg(4).list() {
        if w.poisoned {
            out.push(Sx::L(vec![Sx::sym("panic")]));
            continue;
        }
        match catch(|| w.apply(op)) {
            Ok((r, ret)) => out.push(w.observe(&r, ret)),
            Err(_) => {
                // a build server holds the cache in a Mutex: a panic poisons it for good
                w.poisoned = true;
                out.push(Sx::L(vec![Sx::sym("panic")]));
            }
        }
    }
    drop(w);
    drop(mounts);
    Sx::L(out)
}

/// The client side: `ClientToolchains` (weak key -> archive id map in front of a TcCache filled by insert_file).
fn run_client(case: &Sx) -> Sx {
    for e in case.arg(1).list() {
        if real_id(e.arg(0).bytes()) != e.arg(1).bytes() {
            return Sx::L(vec![Sx::sym("bad_table")]);
        }
    }
    let td = tempfile::Builder::new().prefix("vh-c17c-").tempdir_in("/dev/shm").unwrap();
    let dir = td.path().join("client");
    let root = dir.join("tc");
    let mut clock = 1000i64;
    let mut ct = Some(ClientToolchains::new(&dir, case.arg(0).u64(), &[]).unwrap());
    let mut out = vec![];
    let mut ops: Vec<Sx> = vec![Sx::L(vec![Sx::sym("open")])];
    ops.extend(case.arg(2).list().iter().cloned());
    for op in &ops {
        let r = catch(|| {
            let c = ct.as_ref().unwrap();
            match op.tag().as_str() {
                "open" => ("ok".to_string(), vec![]),
                "put" => {
                    let weak = op.arg(1).str();
                    match c.verif_put_toolchain(Path::new("/usr/bin/cc"), &weak, op.arg(2).bytes().to_vec(), op.arg(3).as_bool()) {
                        Ok(tc) => ("ok".to_string(), vec![Sx::B(tc.archive_id.into_bytes())]),
                        Err(e) => (anyhow_kind(&e).to_string(), vec![]),
                    }
                }
                "get" => match tc_of(op.arg(1).bytes()) {
                    None => ("not_in_cache".to_string(), vec![]),
                    Some(tc) => match c.get_toolchain(&tc) {
                        Ok(Some(mut f)) => {
                            let mut content = vec![];
                            f.read_to_end(&mut content).unwrap();
                            let id = real_id(&content);
                            ("ok".to_string(), vec![Sx::B(content), Sx::B(id)])
                        }
                        Ok(None) => ("not_in_cache".to_string(), vec![]),
                        Err(e) => (anyhow_kind(&e).to_string(), vec![]),
                    },
                },
                _ => ("bad_op".to_string(), vec![]),
            }
        });
        let r = if op.tag() == "reopen" {
            ct = None;
            match catch(|| ClientToolchains::new(&dir, op.arg(1).u64(), &[])) {
                Ok(Ok(c)) => {
                    ct = Some(c);
                    Ok(("ok".to_string(), vec![]))
                }
                Ok(Err(_)) => Ok(("io_err".to_string(), vec![])),
                Err(e) => Err(e),
            }
        } else {
            r
        };
        match r {
            Ok((res, ret)) => {
                let (touched, files, ntmp) = list_dir(&root, &mut clock, false);
                let mut leftovers = vec![];
                walk(&dir.join("toolchain_tmp"), &dir.join("toolchain_tmp"), &mut leftovers);
                out.push(Sx::L(vec![
                    Sx::sym(&res),
                    Sx::L(ret),
                    Sx::L(touched),
                    Sx::L(files),
                    Sx::n(ntmp + leftovers.len() as u64),
                ]));
                if ct.is_none() {
                    break;
                }
            }
            Err(_) => {
                out.push(Sx::L(vec![Sx::sym("panic")]));
                break;
            }
        }
    }
    while out.len() < ops.len() {
        out.push(Sx::L(vec![Sx::sym("panic")]));
    }
    Sx::L(out)
}

/// The sccache-dist binary built with the hooks, if it has the `tc` leg.
fn server_hook() -> Option<String> {
    if std::env::var_os("VERIF_C17_DIST_DISABLED").is_some() {
        return None;
    }
    let bin = std::env::var("VERIF_C17_DIST").ok()?;
    let out = std::process::Command::new(&bin).args(["__verif_paths", "tc_probe"]).output().ok()?;
    if String::from_utf8_lossy(&out.stdout).trim() == "tc_ok" {
        Some(bin)
    } else {
        None
    }
}

fn run_server() {
    use std::io::BufRead;
    let mut child = server_hook().and_then(|bin| {
        std::process::Command::new(bin)
            .args(["__verif_paths", "tc"])
            .stdin(std::process::Stdio::piped())
            .stdout(std::process::Stdio::piped())
            .stderr(std::process::Stdio::null())
            .spawn()
            .ok()
    });
    let mut pipes = child.as_mut().map(|c| (c.stdin.take().unwrap(), std::io::BufReader::new(c.stdout.take().unwrap())));
    vh::run_lines(|case| {
        let (stdin, stdout) = match pipes.as_mut() {
            Some(p) => p,
            None => return Sx::L(vec![Sx::sym("skipped")]),
        };
        for e in case.arg(1).list() {
            if real_id(e.arg(0).bytes()) != e.arg(1).bytes() {
                return Sx::L(vec![Sx::sym("bad_table")]);
            }
        }
        let hook_case = Sx::L(vec![case.arg(0).clone(), case.arg(2).clone(), case.arg(3).clone()]);
        if writeln!(stdin, "{}", hook_case).and_then(|_| stdin.flush()).is_err() {
            return Sx::L(vec![Sx::sym("harness_died")]);
        }
        let mut line = String::new();
        match stdout.read_line(&mut line) {
            Ok(n) if n > 0 => Sx::parse(line.trim()).unwrap_or_else(|_| Sx::L(vec![Sx::sym("unparsable")])),
            _ => Sx::L(vec![Sx::sym("harness_died")]),
        }
    });
    drop(pipes);
    if let Some(mut c) = child {
        let _ = c.wait();
    }
}

fn main() {
    vh::quiet_panics();
    let leg = std::env::args().nth(1).unwrap_or_default();
    if leg == "hash" {
        vh::run_lines(|x| Sx::L(x.list().iter().map(|c| Sx::B(real_id(&content_arg(c)))).collect()));
    } else if leg == "client" {
        vh::run_lines(run_client);
    } else if leg == "servercheck" {
        println!("{}", if server_hook().is_some() { 1 } else { 0 });
    } else if leg == "server" {
        run_server();
    } else if leg == "mountcheck" {
        println!("{}", if private_mount_namespace() { 1 } else { 0 });
    } else if leg == "mount" {
        if private_mount_namespace() {
            vh::run_lines(|c| run_case(c, true));
        } else {
            vh::run_lines(|_| Sx::L(vec![Sx::sym("skipped")]));
        }
    } else {
        vh::run_lines(|c| run_case(c, false));
    }
}
