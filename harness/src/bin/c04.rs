//! c04 — drives the real preprocessor-cache (direct mode) code of sccache.
//!
//! legs (argv[1]):
//!   timemacro  case = ( chunk ... )            scripted reads through Digest::reader_sync_time_macros
//!   toonew     case = ( (m?) (c?) start )      include_is_too_new on explicit time stamps
//!   ppkey      case = ( itm ( (bytes date mtime args env extra plusplus) ... ) )   equality pattern of preprocessor_cache_entry_hash_key
//!   linemarker case = ( cfg start date cwd input text ( file ... ) )   process_preprocessed_file on real files
//!   ppcache    case = ( step ... )             real header files under /dev/shm, the real include recorder,
//!                                              PreprocessorCacheEntry::add_result / lookup_result_digest for
//!                                              every one of the 32 option combinations
//! See coq/theories/Run/C04.v for the observation formats (the extracted model prints the same lines).
use filetime::{set_file_mtime, FileTime};
use sccache::util::{Digest, Timestamp};
use sccache::verif_hooks::cache::PreprocessorCacheModeConfig;
use sccache::verif_hooks::compiler::c as cc;
use sccache::verif_hooks::compiler::PreprocessorCacheEntry;
use std::collections::HashMap;
use std::ffi::OsStr;
use std::io::Read;
use std::os::unix::ffi::OsStrExt;
use std::os::unix::ffi::OsStringExt;
use std::path::{Path, PathBuf};
use std::time::{Duration, SystemTime, UNIX_EPOCH};
use vh::{catch, Sx};

// ------------------------------------------------------------------ timemacro

struct Scripted {
    chunks: Vec<Vec<u8>>,
    next: usize,
}

impl Read for Scripted {
    fn read(&mut self, buf: &mut [u8]) -> std::io::Result<usize> {
        if self.next >= self.chunks.len() {
            return Ok(0);
        }
        let c = &self.chunks[self.next];
        assert!(c.len() <= buf.len() && !c.is_empty());
        buf[..c.len()].copy_from_slice(c);
        self.next += 1;
        Ok(c.len())
    }
}

fn run_timemacro(case: &Sx) -> Sx {
    let chunks: Vec<Vec<u8>> = case.list().iter().map(|c| c.bytes().to_vec()).collect();
    if chunks.iter().any(|c| c.is_empty() || c.len() > sccache::util::HASH_BUFFER_SIZE) {
        return Sx::L(vec![Sx::sym("bad_case")]);
    }
    let whole: Vec<u8> = chunks.concat();
    let (digest, finder) = Digest::reader_sync_time_macros(Scripted { chunks, next: 0 }).unwrap();
    let mut d = Digest::new();
    d.update(&whole);
    let at_once = d.finish();
    let via_reader = Digest::reader_sync(&whole[..]).unwrap();
    Sx::L(vec![
        Sx::bool(finder.found_date()),
        Sx::bool(finder.found_time()),
        Sx::bool(finder.found_timestamp()),
        Sx::bool(digest == at_once && via_reader == at_once),
    ])
}

// ------------------------------------------------------------------ toonew

fn run_toonew(case: &Sx) -> Sx {
    let ts = |x: &Sx| x.list().first().map(|v| Timestamp::new(v.u64() as i64, 0));
    let start = UNIX_EPOCH + Duration::from_secs(case.arg(2).u64());
    Sx::bool(cc::verif_include_is_too_new(ts(case.arg(0)), ts(case.arg(1)), start))
}

// ------------------------------------------------------------------ ppcache

fn cfg_of(i: u32) -> PreprocessorCacheModeConfig {
    PreprocessorCacheModeConfig {
        use_preprocessor_cache_mode: true,
        file_stat_matches: i & 16 != 0,
        use_ctime_for_stat: i & 8 != 0,
        ignore_time_macros: i & 4 != 0,
        skip_system_headers: i & 2 != 0,
        hash_working_directory: i & 1 != 0,
    }
}

fn contains(h: &[u8], n: &[u8]) -> bool {
    h.windows(n.len()).any(|w| w == n)
}

/// what the harness itself knows about a recorded include (ground truth for the monitor)
#[derive(Clone)]
struct Truth {
    name: Vec<u8>,
    bytes: Vec<u8>,
    mtime: Option<SystemTime>,
}

struct PerCfg {
    entry: PreprocessorCacheEntry,
    truth: HashMap<Vec<u8>, (Vec<Truth>, Vec<u8>)>,
    out: Vec<Sx>,
}

struct World {
    dir: PathBuf,
    starts: HashMap<u64, SystemTime>,
    last_touch: std::time::Instant,
    /// start instants must increase from step to step (the model's logical clock does)
    prev_start: SystemTime,
}

const TICK: Duration = Duration::from_millis(12);

impl World {
    fn path(&self, name: &[u8]) -> PathBuf {
        self.dir.join(OsStr::from_bytes(name))
    }

    fn real_mtime(&self, m: u64) -> FileTime {
        let j = (m % 1000) / 10;
        let off100 = (m / 1000) as i64 - 500;
        let st = self.starts.get(&j).copied().unwrap_or(UNIX_EPOCH + Duration::from_secs(2_000_000_000));
        let d = st.duration_since(UNIX_EPOCH).unwrap();
        FileTime::from_unix_time(d.as_secs() as i64 + off100 * 100, d.subsec_nanos())
    }

    fn write_content(&self, f: &Sx) {
        let p = self.path(f.arg(0).bytes());
        // remove whatever is there
        if let Ok(m) = std::fs::symlink_metadata(&p) {
            if m.is_dir() {
                let _ = std::fs::remove_dir_all(&p);
            } else {
                let _ = std::fs::remove_file(&p);
            }
        }
        match f.arg(1).u64() {
            0 => std::fs::write(&p, f.arg(2).bytes()).unwrap(),
            1 => {
                std::fs::create_dir(&p).unwrap();
                for i in 0..f.arg(2).bytes().len() {
                    std::fs::write(p.join(format!("e{}", i)), b"").unwrap();
                }
            }
            3 => {
                let c = std::ffi::CString::new(p.as_os_str().as_bytes()).unwrap();
                assert_eq!(unsafe { libc::mkfifo(c.as_ptr(), 0o644) }, 0);
            }
            _ => {}
        }
    }

    fn set_mtime(&self, f: &Sx) {
        if f.arg(1).u64() == 2 {
            return;
        }
        let p = self.path(f.arg(0).bytes());
        set_file_mtime(&p, self.real_mtime(f.arg(3).u64())).unwrap();
    }

    /// realise the file deltas of step j; returns the compile start instant of the step
    fn realise(&mut self, j: u64, files: &[Sx], is_rec: bool) -> Result<SystemTime, String> {
        if files.is_empty() {
            let st = (SystemTime::now() + Duration::from_millis(1)).max(self.prev_start + Duration::from_millis(1));
            self.starts.insert(j, st);
            self.prev_start = st;
            return Ok(st);
        }
        let since = self.last_touch.elapsed();
        if since < TICK {
            std::thread::sleep(TICK - since);
        }
        let (old, new): (Vec<&Sx>, Vec<&Sx>) = files.iter().partition(|f| !(is_rec && f.arg(4).as_bool()));
        for f in &old {
            self.write_content(f);
        }
        let mut start = SystemTime::now();
        for attempt in 0..6u32 {
            start = (SystemTime::now() + Duration::from_millis(15 << attempt))
                .max(self.prev_start + Duration::from_millis(1));
            self.starts.insert(j, start);
            for f in &old {
                self.set_mtime(f);
            }
            if SystemTime::now() < start {
                break;
            }
            if attempt == 5 {
                return Err("could not place the start instant after the old files".into());
            }
        }
        if !new.is_empty() {
            loop {
                let now = SystemTime::now();
                if now > start + TICK {
                    break;
                }
                std::thread::sleep(Duration::from_millis(2));
            }
            for f in &new {
                self.write_content(f);
                self.set_mtime(f);
            }
        }
        self.last_touch = std::time::Instant::now();
        self.prev_start = start;
        // verify the ctime relations we promised to the model
        if is_rec {
            let st = Timestamp::from(start);
            for (fs, want_new) in [(&old, false), (&new, true)] {
                for f in fs.iter() {
                    if f.arg(1).u64() == 2 {
                        continue;
                    }
                    use sccache::util::MetadataCtimeExt;
                    let c = std::fs::symlink_metadata(self.path(f.arg(0).bytes()))
                        .unwrap()
                        .ctime_or_creation()
                        .unwrap();
                    if (c > st) != want_new || c == st {
                        return Err("ctime relation not realised".into());
                    }
                }
            }
        }
        Ok(start)
    }
}

fn read_truth(w: &World, name: &[u8]) -> (Option<Vec<u8>>, Option<SystemTime>) {
    let p = w.path(name);
    match std::fs::symlink_metadata(&p) {
        Ok(m) if m.is_file() => (std::fs::read(&p).ok(), m.modified().ok()),
        _ => (None, None),
    }
}

fn view(e: &PreprocessorCacheEntry) -> (Sx, Sx) {
    let (n, rs) = e.verif_view();
    (
        Sx::usize(n),
        Sx::L(rs
            .iter()
            .map(|(k, v)| Sx::L(vec![Sx::B(k.as_bytes().to_vec()), Sx::usize(v.len())]))
            .collect()),
    )
}

/// The "date" of a step: SOURCE_DATE_EPOCH bytes (empty = unset), or - bytes starting with '@' - a TIME ZONE:
/// "@A" = UTC-12, "@B" = UTC+14, whose local calendar days always differ (26 h apart), SOURCE_DATE_EPOCH unset.
/// chrono re-reads TZ at most once per second, hence the wait after a change.
fn set_date(date: &[u8]) {
    if date.first() == Some(&b'@') {
        std::env::remove_var("SOURCE_DATE_EPOCH");
        let tz = if date == b"@A" { "<-12>12" } else { "<+14>-14" };
        if std::env::var("TZ").ok().as_deref() != Some(tz) {
            std::env::set_var("TZ", tz);
            std::thread::sleep(Duration::from_millis(1250));
        }
    } else if date.is_empty() {
        std::env::remove_var("SOURCE_DATE_EPOCH");
    } else {
        std::env::set_var("SOURCE_DATE_EPOCH", OsStr::from_bytes(date));
    }
}

fn run_ppcache_once(case: &Sx) -> Result<Sx, String> {
    let td = tempfile::Builder::new().prefix("vh-c04-").tempdir_in("/dev/shm").map_err(|e| e.to_string())?;
    let mut w = World {
        dir: td.path().to_path_buf(),
        starts: HashMap::new(),
        last_touch: std::time::Instant::now() - TICK,
        prev_start: SystemTime::now(),
    };
    let input = w.path(b"input.c");
    let mut per: Vec<PerCfg> = (0..32)
        .map(|_| PerCfg { entry: PreprocessorCacheEntry::new(), truth: HashMap::new(), out: vec![] })
        .collect();
    for (j, step) in case.list().iter().enumerate() {
        let j = j as u64;
        let tag = step.tag();
        if tag == "rec" {
            let fresh = step.arg(1).as_bool();
            let date = step.arg(2).bytes().to_vec();
            let key = step.arg(3).str();
            let incs = step.arg(4).list();
            let start = w.realise(j, step.arg(5).list(), true)?;
            set_date(&date);
            // phase 1, for every configuration: the include recorder (process_preprocessed_file's part)
            let mut recorded: Vec<Result<Option<(Vec<(String, PathBuf)>, Vec<Truth>)>, ()>> = vec![];
            for ci in 0..per.len() {
                let cfg = cfg_of(ci as u32);
                let mut included: HashMap<PathBuf, String> = HashMap::new();
                let mut disabled = false;
                for inc in incs {
                    // `<built-in>` and friends are passed as they appear in the line markers
                    let raw = inc.arg(0).bytes();
                    let p = if raw.starts_with(b"<") { PathBuf::from(OsStr::from_bytes(raw)) } else { w.path(raw) };
                    let r = cc::verif_remember_include_file(
                        p.as_os_str().as_bytes(),
                        &input,
                        &w.dir,
                        &mut included,
                        inc.arg(1).as_bool(),
                        cfg,
                        start,
                    );
                    match r {
                        Ok((true, _)) => {}
                        _ => {
                            disabled = true;
                            break;
                        }
                    }
                }
                recorded.push(if disabled {
                    Err(())
                } else if included.is_empty() {
                    Ok(None)
                } else {
                    // exactly what the direct-mode prelude of generate_hash_key does
                    let mut files: Vec<(String, PathBuf)> = included.into_iter().map(|(p, d)| (d, p)).collect();
                    files.sort_unstable_by(|a, b| a.1.cmp(&b.1));
                    let truth: Vec<Truth> = files
                        .iter()
                        .map(|(_, p)| {
                            let name = p.file_name().unwrap().as_bytes().to_vec();
                            let (b, m) = read_truth(&w, &name);
                            Truth { name, bytes: b.unwrap_or_default(), mtime: m }
                        })
                        .collect();
                    Ok(Some((files, truth)))
                });
            }
            // the window between the recorder and add_result (the preprocessor output is hashed in between):
            // somebody removes files (bare name) or rewrites them (a file entry; written AFTER the start instant)
            let window = step.arg(6).list();
            if window.iter().any(|v| !v.list().is_empty()) {
                loop {
                    if SystemTime::now() > start + TICK {
                        break;
                    }
                    std::thread::sleep(Duration::from_millis(2));
                }
            }
            for v in window {
                if v.list().is_empty() {
                    let p = w.path(v.bytes());
                    if let Ok(m) = std::fs::symlink_metadata(&p) {
                        if m.is_dir() {
                            let _ = std::fs::remove_dir_all(&p);
                        } else {
                            let _ = std::fs::remove_file(&p);
                        }
                    }
                } else {
                    w.write_content(v);
                    w.set_mtime(v);
                    w.last_touch = std::time::Instant::now();
                }
            }
            // phase 2: add_result
            for (pc, rec) in per.iter_mut().zip(recorded) {
                let status = match rec {
                    Err(()) => "disabled",
                    Ok(None) => "empty",
                    Ok(Some((files, truth))) => {
                        if fresh {
                            pc.entry = PreprocessorCacheEntry::new();
                            pc.truth.clear();
                        }
                        // the harness' own view: can every recorded file still be stat'ed?
                        let gone = files.iter().any(|(_, p)| std::fs::symlink_metadata(p).is_err());
                        pc.entry.add_result(start, &key, files);
                        if gone {
                            "unstored"
                        } else {
                            pc.truth.insert(key.as_bytes().to_vec(), (truth, date.clone()));
                            "ok"
                        }
                    }
                };
                let (n, rs) = view(&pc.entry);
                pc.out.push(Sx::L(vec![Sx::sym("r"), Sx::sym(status), n, rs]));
            }
        } else if tag == "look" {
            let date = step.arg(1).bytes().to_vec();
            w.realise(j, step.arg(2).list(), false)?;
            set_date(&date);
            for (ci, pc) in per.iter_mut().enumerate() {
                let cfg = cfg_of(ci as u32);
                let mut updated = false;
                let hit = pc.entry.lookup_result_digest(cfg, &mut updated);
                let o = match hit {
                    None => Sx::L(vec![Sx::sym("l"), Sx::sym("miss"), Sx::bool(updated)]),
                    Some(k) => {
                        let (truth, date0) = pc.truth.get(k.as_bytes()).cloned().unwrap_or_default();
                        let incs = truth
                            .iter()
                            .map(|t| {
                                let (b, m) = read_truth(&w, &t.name);
                                Sx::L(vec![
                                    Sx::B(t.name.clone()),
                                    Sx::bool(b.as_deref() != Some(&t.bytes[..])),
                                    Sx::bool(contains(&t.bytes, b"__DATE__")),
                                    Sx::bool(contains(&t.bytes, b"__TIMESTAMP__")),
                                    Sx::bool(m != t.mtime),
                                ])
                            })
                            .collect();
                        Sx::L(vec![
                            Sx::sym("l"),
                            Sx::sym("hit"),
                            Sx::bool(updated),
                            Sx::B(k.into_bytes()),
                            Sx::L(incs),
                            Sx::bool(date0 != date),
                        ])
                    }
                };
                pc.out.push(o);
            }
        } else {
            return Err("bad step".into());
        }
    }
    std::env::remove_var("SOURCE_DATE_EPOCH");
    Ok(Sx::L(per.into_iter().map(|p| Sx::L(p.out)).collect()))
}

fn run_ppcache(case: &Sx) -> Sx {
    let mut last = String::new();
    for _ in 0..4 {
        match catch(|| run_ppcache_once(case)) {
            Ok(Ok(x)) => return x,
            Ok(Err(e)) => last = e,
            Err(p) => return Sx::L(vec![Sx::sym("panic"), Sx::B(p.into_bytes())]),
        }
    }
    Sx::L(vec![Sx::sym("harness_error"), Sx::B(last.into_bytes())])
}

// ------------------------------------------------------------------ ppkey

/// case = ( itm ( (bytes date mtime (arg ...) ((name value) ...) (extra ...) plusplus) ... ) ): the preprocessor-cache
/// key of requests for one input path with these contents, SOURCE_DATE_EPOCH, mtime, hashed arguments, environment,
/// extra hashes and ++ flag; result = one number per variant: 0 = mode disabled (None), otherwise 1 + index
/// of the first variant with an equal key.
fn run_ppkey(case: &Sx) -> Sx {
    let td = tempfile::Builder::new().prefix("vh-c04k-").tempdir_in("/dev/shm").unwrap();
    let input = td.path().join("input.c");
    let cfg = cfg_of(if case.arg(0).as_bool() { 4 + 9 } else { 9 });
    let mut keys: Vec<Option<String>> = vec![];
    for v in case.arg(1).list() {
        std::fs::write(&input, v.arg(0).bytes()).unwrap();
        set_file_mtime(&input, FileTime::from_unix_time(1_600_000_000 + v.arg(2).u64() as i64, 0)).unwrap();
        let date = v.arg(1).bytes();
        if date.is_empty() {
            std::env::remove_var("SOURCE_DATE_EPOCH");
        } else {
            std::env::set_var("SOURCE_DATE_EPOCH", OsStr::from_bytes(date));
        }
        let os = |x: &Sx| std::ffi::OsString::from_vec(x.bytes().to_vec());
        let args: Vec<std::ffi::OsString> = v.arg(3).list().iter().map(os).collect();
        let env: Vec<(std::ffi::OsString, std::ffi::OsString)> =
            v.arg(4).list().iter().map(|kv| (os(kv.arg(0)), os(kv.arg(1)))).collect();
        let extra: Vec<String> = v.arg(5).list().iter().map(|x| x.str()).collect();
        let k = sccache::verif_hooks::compiler::preprocessor_cache::preprocessor_cache_entry_hash_key(
            "compilerdigest",
            sccache::verif_hooks::compiler::Language::C,
            &args,
            &extra,
            &env,
            &input,
            v.arg(6).as_bool(),
            cfg,
        );
        keys.push(k.unwrap_or(None));
    }
    std::env::remove_var("SOURCE_DATE_EPOCH");
    Sx::L(keys
        .iter()
        .enumerate()
        .map(|(i, k)| match k {
            None => Sx::N(0),
            Some(k) => Sx::usize(1 + keys[..i].iter().position(|x| x.as_ref() == Some(k)).unwrap_or(i)),
        })
        .collect())
}

// ------------------------------------------------------------------ linemarker

const ROOT0: &[u8] = b"/dev/shm/vh-c04l-AAAAAA";

fn subst(b: &[u8], from: &[u8], to: &[u8]) -> Vec<u8> {
    let mut out = Vec::with_capacity(b.len());
    let mut i = 0;
    while i < b.len() {
        if b[i..].starts_with(from) {
            out.extend_from_slice(to);
            i += from.len();
        } else {
            out.push(b[i]);
            i += 1;
        }
    }
    out
}

fn render_path(p: &Path) -> Vec<u8> {
    use std::path::Component;
    let mut out: Vec<u8> = vec![];
    let mut first = true;
    for c in p.components() {
        match c {
            Component::RootDir => out.push(b'/'),
            Component::CurDir => {}
            other => {
                if !first {
                    out.push(b'/');
                }
                out.extend_from_slice(other.as_os_str().as_bytes());
                first = false;
            }
        }
    }
    out
}

/// case = ( cfg start date cwd input text ( (abspath kind bytes mtime external) ... ) ), every path below ROOT0
fn run_linemarker(case: &Sx) -> Sx {
    // a scratch root of the same length as ROOT0 whose name consists of letters only (a digit in it could be
    // read as a line-marker flag and make the outcome depend on the random name)
    let mut seed = std::process::id() as u64 ^ (SystemTime::now().duration_since(UNIX_EPOCH).unwrap().subsec_nanos() as u64) << 20;
    let rootp = loop {
        let mut name = b"/dev/shm/vh-c04l-".to_vec();
        for _ in 0..6 {
            seed = seed.wrapping_mul(6364136223846793005).wrapping_add(1442695040888963407);
            name.push(b'a' + ((seed >> 33) % 26) as u8);
        }
        let p = PathBuf::from(OsStr::from_bytes(&name));
        match std::fs::create_dir(&p) {
            Ok(()) => break p,
            Err(e) if e.kind() == std::io::ErrorKind::AlreadyExists => continue,
            Err(e) => panic!("{}", e),
        }
    };
    struct Cleanup(PathBuf);
    impl Drop for Cleanup {
        fn drop(&mut self) {
            let _ = std::fs::remove_dir_all(&self.0);
        }
    }
    let _cleanup = Cleanup(rootp.clone());
    let root = rootp.as_os_str().as_bytes().to_vec();
    assert_eq!(root.len(), ROOT0.len());
    let real = |b: &[u8]| subst(b, ROOT0, &root);
    let cfg = cfg_of(case.arg(0).u64() as u32);
    let start = SystemTime::now() + Duration::from_secs(5);
    let logical_start = case.arg(1).u64() as i64;
    let date = case.arg(2).bytes();
    if date.is_empty() {
        std::env::remove_var("SOURCE_DATE_EPOCH");
    } else {
        std::env::set_var("SOURCE_DATE_EPOCH", OsStr::from_bytes(date));
    }
    for f in case.arg(6).list() {
        if f.arg(4).as_bool() {
            continue; // exists outside the scratch tree (a system header)
        }
        let p = PathBuf::from(OsStr::from_bytes(&real(f.arg(0).bytes())));
        if let Some(parent) = p.parent() {
            std::fs::create_dir_all(parent).unwrap();
        }
        match f.arg(1).u64() {
            0 => std::fs::write(&p, f.arg(2).bytes()).unwrap(),
            1 => std::fs::create_dir_all(&p).unwrap(),
            _ => {
                let c = std::ffi::CString::new(p.as_os_str().as_bytes()).unwrap();
                assert_eq!(unsafe { libc::mkfifo(c.as_ptr(), 0o644) }, 0);
            }
        }
        let d = start.duration_since(UNIX_EPOCH).unwrap();
        let off = f.arg(3).u64() as i64 - logical_start;
        set_file_mtime(&p, FileTime::from_unix_time(d.as_secs() as i64 + off * 100, d.subsec_nanos())).unwrap();
    }
    let cwd = PathBuf::from(OsStr::from_bytes(&real(case.arg(3).bytes())));
    let input = PathBuf::from(OsStr::from_bytes(&real(case.arg(4).bytes())));
    let text0 = real(case.arg(5).bytes());
    let mut text = text0.clone();
    let mut included: HashMap<PathBuf, String> = HashMap::new();
    let r = catch(|| cc::verif_process_preprocessed_file(&input, &cwd, &mut text, &mut included, cfg, start));
    std::env::remove_var("SOURCE_DATE_EPOCH");
    match r {
        Err(_) => Sx::L(vec![Sx::sym("panic")]),
        Ok(Err(_)) => Sx::L(vec![Sx::sym("err")]),
        Ok(Ok(false)) => Sx::L(vec![Sx::sym("disabled")]),
        Ok(Ok(true)) => {
            let mut paths: Vec<Vec<u8>> = included.keys().map(|p| subst(&render_path(p), &root, ROOT0)).collect();
            paths.sort();
            Sx::L(vec![
                Sx::sym("ok"),
                Sx::L(paths.into_iter().map(Sx::B).collect()),
                if text == text0 { Sx::sym("same") } else { Sx::L(vec![Sx::B(subst(&text, &root, ROOT0))]) },
            ])
        }
    }
}

// ------------------------------------------------------------------ timestamp

/// case = ( x ... ): instants x nanoseconds after 1_000_000 s BEFORE the Unix epoch (so small x are pre-1970).
/// result = ( (neg secs nanos class) ... ): the fields of `Timestamp::from(SystemTime)` (read off its Debug form) and
/// the equality class of `include_file_digest` of a header mentioning __TIMESTAMP__ with that mtime.
fn run_timestamp(case: &Sx) -> Sx {
    let (_, finder) = Digest::reader_sync_time_macros(&b"// __TIMESTAMP__\n"[..]).unwrap();
    let base = UNIX_EPOCH - Duration::from_secs(1_000_000);
    let mut digests: Vec<String> = vec![];
    let mut out = vec![];
    for x in case.list() {
        let t = base + Duration::from_nanos(x.u64());
        let ts = Timestamp::from(t);
        let dbg = format!("{:?}", ts);
        let num = |key: &str| -> i128 {
            let i = dbg.find(key).map(|i| i + key.len()).unwrap_or(0);
            dbg[i..].trim_start().trim_start_matches(':').trim_start()
                .chars().take_while(|c| c.is_ascii_digit() || *c == '-').collect::<String>().parse().unwrap_or(i128::MIN)
        };
        let secs = num("seconds");
        let nanos = num("nanoseconds");
        let d = sccache::verif_hooks::compiler::preprocessor_cache::include_file_digest("content".to_string(), &finder, Some(ts))
            .unwrap_or_default();
        let class = digests.iter().position(|e| *e == d).unwrap_or(digests.len());
        digests.push(d);
        out.push(Sx::L(vec![Sx::bool(secs < 0), Sx::N(secs.unsigned_abs()), Sx::N(nanos.unsigned_abs()), Sx::usize(class)]));
    }
    Sx::L(out)
}

// ------------------------------------------------------------------ manyinc

/// case = ( n edit ): n distinct tiny headers recorded as ONE result through the real add_result; result =
/// ( stored hit_unchanged hit_after_edit ): number of include entries stored for the key, lookup on the untouched tree,
/// lookup after a same-size edit of header number `edit` (in path order).
fn run_manyinc(case: &Sx) -> Sx {
    let n = case.arg(0).u64() as usize;
    let edit = case.arg(1).u64() as usize;
    let td = tempfile::Builder::new().prefix("vh-c04m-").tempdir_in("/dev/shm").unwrap();
    let cfg = cfg_of(9);
    let mut files: Vec<(String, PathBuf)> = Vec::with_capacity(n);
    for i in 0..n {
        let p = td.path().join(format!("h{:06}.h", i));
        std::fs::write(&p, format!("int h{:06};\n", i)).unwrap();
        let d = Digest::reader_sync(std::fs::File::open(&p).unwrap()).unwrap();
        files.push((d, p));
    }
    files.sort_unstable_by(|a, b| a.1.cmp(&b.1));
    let victim = files.get(edit.min(n.saturating_sub(1))).map(|f| f.1.clone());
    std::thread::sleep(Duration::from_millis(15));
    let start = SystemTime::now();
    let mut entry = PreprocessorCacheEntry::new();
    entry.add_result(start, "key", files);
    let (_, rs) = entry.verif_view();
    let stored = rs.iter().find(|(k, _)| k == "key").map(|(_, v)| v.len()).unwrap_or(0);
    let mut updated = false;
    let hit0 = entry.lookup_result_digest(cfg, &mut updated).is_some();
    if let Some(v) = victim {
        let old = std::fs::read(&v).unwrap();
        let mut new = old.clone();
        new[4] = b'X';
        std::fs::write(&v, new).unwrap();
    }
    let hit1 = entry.lookup_result_digest(cfg, &mut updated).is_some();
    Sx::L(vec![Sx::usize(stored), Sx::bool(hit0), Sx::bool(hit1)])
}

fn main() {
    vh::quiet_panics();
    let leg = std::env::args().nth(1).unwrap_or_default();
    match leg.as_str() {
        "timemacro" => vh::run_lines(run_timemacro),
        "toonew" => vh::run_lines(run_toonew),
        "ppcache" => vh::run_lines(run_ppcache),
        "ppkey" => vh::run_lines(run_ppkey),
        "linemarker" => vh::run_lines(run_linemarker),
        "timestamp" => vh::run_lines(run_timestamp),
        "manyinc" => vh::run_lines(run_manyinc),
        _ => {
            eprintln!("unknown leg");
            std::process::exit(2)
        }
    }
}

#[allow(dead_code)]
fn _unused(_: &Path) {}
