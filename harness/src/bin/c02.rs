//! c02 — drives the REAL `hash_key` / `preprocessor_cache_entry_hash_key` of sccache on the request
//! tuples of Run/C02.v.
//!
//! legs (argv[1]):
//!   lp       case `#bytes`                      -> `( #what-OsString::hash-writes  same_through_HashToDigest )`
//!   key      case `( (label..) ( req ... ) )`                 -> `( #key ... )`      req = ( digest plusplus Lang (arg..) (extra..) ((k v)..) pp )
//!   ppkey    case `( (label..) ( preq ... ) )`                -> `( #key|none|err ... )`
//!                                                   preq = ( digest plusplus Lang (arg..) (extra..) ((k v)..) path input ignore_time
//!                                                            mtime_secs mtime_nanos sde (year month day) )
//!                                                   sde = () | ( #value-of-SOURCE_DATE_EPOCH ); the file gets exactly that mtime;
//!                                                   (year month day) is the local date the case was generated on: a request whose
//!                                                   key depends on the date answers `date_changed` when that is not today
//!   ppkey-root  same, after chroot() into a private scratch root (so that absolute paths such as /c++/x.h can exist)
//!   hashpre  case `( item ... )`                -> `( #key|none ... )`  item = none | ( piece ... ),
//!                                                   piece = #literal-bytes | ( #contents )  (= util::hex(BLAKE3(contents)))
//!            (this leg turns the MODEL's pre-image into a key: BLAKE3 + `util::hex`, flushing after every line so
//!             that lib/props/c02.py can keep one process open)
use filetime::{set_file_mtime, FileTime};
use sccache::util::{Digest, HashToDigest};
use sccache::verif_hooks::cache::PreprocessorCacheModeConfig;
use sccache::verif_hooks::compiler::c::hash_key;
use sccache::verif_hooks::compiler::preprocessor_cache::preprocessor_cache_entry_hash_key;
use sccache::verif_hooks::compiler::Language;
use std::ffi::{OsStr, OsString};
use std::hash::{Hash, Hasher};
use std::io::{BufRead, Write};
use std::os::unix::ffi::OsStrExt;
use std::path::Path;
use vh::Sx;

/// Every `Language` variant the harness can name (the case carries the variant's `Debug` name).
const LANGS: &[Language] = &[
    Language::C,
    Language::Cxx,
    Language::GenericHeader,
    Language::CHeader,
    Language::CxxHeader,
    Language::ObjectiveC,
    Language::ObjectiveCxx,
    Language::ObjectiveCxxHeader,
    Language::Cuda,
    Language::CudaFE,
    Language::Ptx,
    Language::Cubin,
    Language::Rust,
    Language::Hip,
];

fn lang_of(name: &str) -> Option<Language> {
    LANGS.iter().copied().find(|l| format!("{:?}", l) == name)
}

fn os(x: &Sx) -> OsString {
    OsStr::from_bytes(x.bytes()).to_owned()
}

fn os_list(x: &Sx) -> Vec<OsString> {
    x.list().iter().map(os).collect()
}

fn str_list(x: &Sx) -> Vec<String> {
    x.list().iter().map(|h| String::from_utf8_lossy(h.bytes()).into_owned()).collect()
}

fn env_list(x: &Sx) -> Vec<(OsString, OsString)> {
    x.list().iter().map(|kv| (os(kv.arg(0)), os(kv.arg(1)))).collect()
}

struct Recorder(Vec<u8>);
impl Hasher for Recorder {
    fn write(&mut self, bytes: &[u8]) {
        self.0.extend_from_slice(bytes)
    }
    fn finish(&self) -> u64 {
        0
    }
}

/// What does `OsString::hash` feed into a `Hasher` on this platform, and is that exactly what reaches the
/// `Digest` through `HashToDigest`?
fn leg_lp(case: &Sx) -> Sx {
    let s = os(case);
    let mut r = Recorder(vec![]);
    s.hash(&mut r);
    let mut d1 = Digest::new();
    s.hash(&mut HashToDigest { digest: &mut d1 });
    let mut d2 = Digest::new();
    d2.update(&r.0);
    Sx::L(vec![Sx::B(r.0), Sx::bool(d1.finish() == d2.finish())])
}

fn key_of(req: &Sx) -> Sx {
    let lang = match lang_of(&req.arg(2).str()) {
        Some(l) => l,
        None => return Sx::sym("unknown_lang"),
    };
    let digest = String::from_utf8_lossy(req.arg(0).bytes()).into_owned();
    let k = hash_key(
        &digest,
        lang,
        &os_list(req.arg(3)),
        &str_list(req.arg(4)),
        &env_list(req.arg(5)),
        req.arg(6).bytes(),
        req.arg(1).as_bool(),
    );
    Sx::B(k.into_bytes())
}

fn today() -> (i64, i64, i64) {
    unsafe {
        let t = libc::time(std::ptr::null_mut());
        let mut tm: libc::tm = std::mem::zeroed();
        libc::localtime_r(&t, &mut tm);
        (tm.tm_year as i64 + 1900, tm.tm_mon as i64 + 1, tm.tm_mday as i64)
    }
}

fn contains(hay: &[u8], needle: &[u8]) -> bool {
    hay.windows(needle.len()).any(|w| w == needle)
}

fn ppkey_of(req: &Sx) -> Sx {
    let lang = match lang_of(&req.arg(2).str()) {
        Some(l) => l,
        None => return Sx::sym("unknown_lang"),
    };
    let digest = String::from_utf8_lossy(req.arg(0).bytes()).into_owned();
    let path_os = os(req.arg(6));
    let path = Path::new(&path_os);
    if let Some(parent) = path.parent() {
        let _ = std::fs::create_dir_all(parent);
    }
    let input = req.arg(7).bytes();
    if std::fs::write(path, input).is_err() {
        return Sx::sym("err");
    }
    let ignore = req.arg(8).as_bool();
    let mtime = FileTime::from_unix_time(req.arg(9).u64() as i64, req.arg(10).u64() as u32);
    if set_file_mtime(path, mtime).is_err() {
        return Sx::sym("err");
    }
    match req.arg(11).list().first() {
        Some(v) => std::env::set_var("SOURCE_DATE_EPOCH", OsStr::from_bytes(v.bytes())),
        None => std::env::remove_var("SOURCE_DATE_EPOCH"),
    }
    let date_matters = !ignore && contains(input, b"__DATE__") && !contains(input, b"__TIME__");
    let d = req.arg(12);
    let case_date = (d.arg(0).u64() as i64, d.arg(1).u64() as i64, d.arg(2).u64() as i64);
    let before = today();
    let config = PreprocessorCacheModeConfig {
        use_preprocessor_cache_mode: true,
        ignore_time_macros: ignore,
        ..Default::default()
    };
    let r = preprocessor_cache_entry_hash_key(
        &digest,
        lang,
        &os_list(req.arg(3)),
        &str_list(req.arg(4)),
        &env_list(req.arg(5)),
        path,
        req.arg(1).as_bool(),
        config,
    );
    let after = today();
    let _ = std::fs::remove_file(path);
    if date_matters && (before != case_date || after != case_date) {
        return Sx::sym("date_changed");
    }
    match r {
        Ok(Some(k)) => Sx::B(k.into_bytes()),
        Ok(None) => Sx::sym("none"),
        Err(_) => Sx::sym("err"),
    }
}

/// chroot into a fresh directory under /dev/shm (removed by lib/props/c02.py afterwards)
fn enter_private_root() -> bool {
    let dir = format!("/dev/shm/vh-c02-root-{}", std::process::id());
    if std::fs::create_dir_all(&dir).is_err() {
        return false;
    }
    let c = std::ffi::CString::new(dir).unwrap();
    unsafe { libc::chroot(c.as_ptr()) == 0 && libc::chdir(b"/\0".as_ptr() as *const libc::c_char) == 0 }
}

fn hash_pieces(item: &Sx) -> Sx {
    if let Sx::B(_) = item {
        // none / unknown_lang / ... : not a pre-image, passed through
        return item.clone();
    }
    let mut m = Digest::new();
    for p in item.list() {
        match p {
            Sx::B(b) => m.update(b),
            Sx::L(l) => {
                let mut inner = Digest::new();
                if let Some(c) = l.first() {
                    inner.update(c.bytes());
                }
                m.update(inner.finish().as_bytes());
            }
            Sx::N(_) => return Sx::sym("bad_piece"),
        }
    }
    Sx::B(m.finish().into_bytes())
}

fn main() {
    vh::quiet_panics();
    let leg = std::env::args().nth(1).unwrap_or_default();
    match leg.as_str() {
        "lp" => vh::run_lines(leg_lp),
        "key" => vh::run_lines(|c| Sx::L(c.arg(1).list().iter().map(key_of).collect())),
        "ppkey" => vh::run_lines(|c| Sx::L(c.arg(1).list().iter().map(ppkey_of).collect())),
        "ppkey-root" => {
            let ok = enter_private_root();
            vh::run_lines(|c| {
                if ok {
                    Sx::L(c.arg(1).list().iter().map(ppkey_of).collect())
                } else {
                    Sx::sym("no_chroot")
                }
            })
        }
        "hashpre" => {
            // interactive: one answer per line, flushed at once
            let stdin = std::io::stdin();
            let stdout = std::io::stdout();
            let mut out = stdout.lock();
            for line in stdin.lock().lines() {
                let line = line.expect("stdin");
                let r = match Sx::parse(line.trim()) {
                    Ok(x) => Sx::L(x.list().iter().map(hash_pieces).collect()),
                    Err(e) => Sx::L(vec![Sx::sym("harness_parse_error"), Sx::B(e.into_bytes())]),
                };
                writeln!(out, "{}", r).unwrap();
                out.flush().unwrap();
            }
        }
        _ => {
            eprintln!("unknown leg {}", leg);
            std::process::exit(2);
        }
    }
}
