//! c02 — drives the REAL `hash_key` / `preprocessor_cache_entry_hash_key` of sccache on the request
//! tuples of Run/C02.v.
//!
//! legs (argv[1]):
//!   lp       case `#bytes`                      -> `( #what-OsString::hash-writes  same_through_HashToDigest )`
//!   lpx      case `#bytes`                      -> `( #prefix #suffix )` | unknown : WHAT reaches the Digest when the bytes are
//!            hashed through `HashToDigest` (which may override Hasher methods), found by matching the real digest
//!            against prefix ++ bytes ++ suffix for a family of length announcements (none, u8/u16/u32/u64 le+be, LEB128,
//!            decimal; suffix none/0xff/0x00) and then against every 1- and (short inputs) 2-byte prefix
//!   key      case `( (label..) ( req ... ) )`                 -> `( #key ... )`      req = ( digest plusplus Lang (arg..) (extra..) ((k v)..) pp )
//!   ppkey    case `( (label..) ( preq ... ) )`                -> `( #key|none|err ... )`
//!                                                   preq = ( digest plusplus Lang (arg..) (extra..) ((k v)..) path input ignore_time
//!                                                            mtime_secs mtime_nanos sde (year month day) )
//!                                                   sde = () | ( #value-of-SOURCE_DATE_EPOCH ); the file gets exactly that mtime;
//!                                                   (year month day) is the local date the case was generated on: a request whose
//!                                                   key depends on the date answers `date_changed` when that is not today
//!   ppkey-root  same, after chroot() into a private scratch root (so that absolute paths such as /c++/x.h can exist)
//!   driver   case `( (label..) ( (exe kind version) ... ) pp_text exe_bytes )`   version = () | ( #text )
//!            -> `( #key | undetected | cannot_cache | err | panic ... )`: for every member an executable file named
//!            `exe` with contents `exe_bytes` is detected by the REAL get_compiler_info through a mock process creator
//!            whose probe answers `compiler_id=<kind>` / `compiler_version=<version>`; then the real parse_arguments
//!            and generate_hash_key run for `-c foo.c -o foo.o` with `pp_text` as the preprocessor's output: the key
//!            printed is what hash_key returns with the plusplus() of the detected compiler
//!   flow     case `( (label..) ( step ... ) )`   step = ( exe kind version ((k v)..) ((name #content mtime_secs [repeat])..) ppmode [(arg..) [input]] )
//!            (a file's contents are `content` repeated `repeat` times; `input` is the source path of the command line,
//!             default foo.c; the directory also holds b/x.c, c/x.c (regular files) and a/x.c -> ../b/x.c (a symbolic link))
//!            -> `( ( #result-key #manifest-key|none ) | undetected | cannot_cache | err | panic ... )`: the steps of a case
//!            run one after the other IN THIS PROCESS and in ONE directory: real get_compiler_info (mock probe), real
//!            parse_arguments for `-c foo.c -o foo.o -fsanitize-blacklist=<name>...` and real generate_hash_key with the
//!            step's client environment, on a storage that records the preprocessor-cache key it is asked for; the extra
//!            files are (re)written with exactly the given contents and mtime before each step
//!   reader   case `( (label..) ( (mode (#piece ..)) ... ) )`  -> `( #digest | err ... )`: the REAL Digest of a source that
//!            delivers the bytes in these pieces: mode `pieces` = Digest::reader_sync on a Read that returns one piece per
//!            call, `macros` = Digest::reader_sync_time_macros on the same, `fifo` = Digest::reader_sync on a real FIFO
//!            written piece by piece (short reads), `file` = Digest::file on a regular file
//!   hashpre  case `( item ... )`                -> `( #key|none ... )`  item = none | ( piece ... ),
//!                                                   piece = #literal-bytes | ( piece ... )  (= util::hex(BLAKE3(the inner pieces)))
//!            (this leg turns the MODEL's pre-image into a key: BLAKE3 + `util::hex`, flushing after every line so
//!             that lib/props/c02.py can keep one process open)
use filetime::{set_file_mtime, FileTime};
use sccache::util::{Digest, HashToDigest};
use sccache::verif_hooks::cache::disk::DiskCache;
use sccache::verif_hooks::cache::{Cache, CacheMode, CacheWrite, PreprocessorCacheModeConfig, Storage};
use sccache::verif_hooks::compiler::{get_compiler_info, CacheControl, CompilerArguments, PreprocessorCacheEntry};
use sccache::verif_hooks::jobserver::Client;
use sccache::verif_hooks::mock_command::{CommandCreatorSync, MockChild, MockCommandCreator};
use std::sync::{Arc, Mutex};
use sccache::verif_hooks::compiler::c::hash_key;
use sccache::verif_hooks::compiler::preprocessor_cache::preprocessor_cache_entry_hash_key;
use sccache::verif_hooks::compiler::Language;
use std::ffi::{OsStr, OsString};
use std::hash::{Hash, Hasher};
use std::io::{BufRead, Write};
use std::os::unix::ffi::OsStrExt;
use std::path::Path;
use vh::Sx;

/// Every `Language` variant the harness can name (the case carries the variant's `Debug` name).
const LANGS: &[Language] = &[
    Language::C,
    Language::Cxx,
    Language::GenericHeader,
    Language::CHeader,
    Language::CxxHeader,
    Language::ObjectiveC,
    Language::ObjectiveCxx,
    Language::ObjectiveCxxHeader,
    Language::Cuda,
    Language::CudaFE,
    Language::Ptx,
    Language::Cubin,
    Language::Rust,
    Language::Hip,
];

fn lang_of(name: &str) -> Option<Language> {
    LANGS.iter().copied().find(|l| format!("{:?}", l) == name)
}

fn os(x: &Sx) -> OsString {
    OsStr::from_bytes(x.bytes()).to_owned()
}

fn os_list(x: &Sx) -> Vec<OsString> {
    x.list().iter().map(os).collect()
}

fn str_list(x: &Sx) -> Vec<String> {
    x.list().iter().map(|h| String::from_utf8_lossy(h.bytes()).into_owned()).collect()
}

fn env_list(x: &Sx) -> Vec<(OsString, OsString)> {
    x.list().iter().map(|kv| (os(kv.arg(0)), os(kv.arg(1)))).collect()
}

struct Recorder(Vec<u8>);
impl Hasher for Recorder {
    fn write(&mut self, bytes: &[u8]) {
        self.0.extend_from_slice(bytes)
    }
    fn finish(&self) -> u64 {
        0
    }
}

/// What does `OsString::hash` feed into a `Hasher` on this platform, and is that exactly what reaches the
/// `Digest` through `HashToDigest`?
fn leg_lp(case: &Sx) -> Sx {
    let s = os(case);
    let mut r = Recorder(vec![]);
    s.hash(&mut r);
    let mut d1 = Digest::new();
    s.hash(&mut HashToDigest { digest: &mut d1 });
    let mut d2 = Digest::new();
    d2.update(&r.0);
    Sx::L(vec![Sx::B(r.0), Sx::bool(d1.finish() == d2.finish())])
}

fn leb128(mut v: u64) -> Vec<u8> {
    let mut out = vec![];
    loop {
        let b = (v & 0x7f) as u8;
        v >>= 7;
        if v == 0 {
            out.push(b);
            return out;
        }
        out.push(b | 0x80);
    }
}

fn leg_lpx(case: &Sx) -> Sx {
    let bytes = case.bytes();
    let s = os(case);
    let mut d = Digest::new();
    s.hash(&mut HashToDigest { digest: &mut d });
    let want = d.finish();
    let n = bytes.len() as u64;
    let hit = |pre: &[u8], suf: &[u8]| {
        let mut m = Digest::new();
        m.update(pre);
        m.update(bytes);
        m.update(suf);
        m.finish() == want
    };
    let mut family: Vec<Vec<u8>> = vec![
        vec![],
        n.to_le_bytes().to_vec(),
        (n as u32).to_le_bytes().to_vec(),
        (n as u16).to_le_bytes().to_vec(),
        vec![n as u8],
        n.to_be_bytes().to_vec(),
        (n as u32).to_be_bytes().to_vec(),
        (n as u16).to_be_bytes().to_vec(),
        leb128(n),
        n.to_string().into_bytes(),
        (n as u128).to_le_bytes().to_vec(),
    ];
    for t in [b' ', b':', b',', 0u8, 0xffu8] {
        let mut v = n.to_string().into_bytes();
        v.push(t);
        family.push(v);
    }
    let sufs: [&[u8]; 3] = [&[], &[0xff], &[0]];
    for suf in sufs {
        for pre in &family {
            if hit(pre, suf) {
                return Sx::L(vec![Sx::B(pre.clone()), Sx::B(suf.to_vec())]);
            }
        }
    }
    for a in 0..=255u8 {
        if hit(&[a], &[]) {
            return Sx::L(vec![Sx::B(vec![a]), Sx::B(vec![])]);
        }
    }
    if bytes.len() <= 64 {
        for a in 0..=255u8 {
            for b in 0..=255u8 {
                if hit(&[a, b], &[]) {
                    return Sx::L(vec![Sx::B(vec![a, b]), Sx::B(vec![])]);
                }
            }
        }
    }
    Sx::sym("unknown")
}

fn key_of(req: &Sx) -> Sx {
    let lang = match lang_of(&req.arg(2).str()) {
        Some(l) => l,
        None => return Sx::sym("unknown_lang"),
    };
    let digest = String::from_utf8_lossy(req.arg(0).bytes()).into_owned();
    let k = hash_key(
        &digest,
        lang,
        &os_list(req.arg(3)),
        &str_list(req.arg(4)),
        &env_list(req.arg(5)),
        req.arg(6).bytes(),
        req.arg(1).as_bool(),
    );
    Sx::B(k.into_bytes())
}

fn today() -> (i64, i64, i64) {
    unsafe {
        let t = libc::time(std::ptr::null_mut());
        let mut tm: libc::tm = std::mem::zeroed();
        libc::localtime_r(&t, &mut tm);
        (tm.tm_year as i64 + 1900, tm.tm_mon as i64 + 1, tm.tm_mday as i64)
    }
}

fn contains(hay: &[u8], needle: &[u8]) -> bool {
    hay.windows(needle.len()).any(|w| w == needle)
}

struct PathLock(Option<std::fs::File>);
impl PathLock {
    fn take(path: &[u8]) -> PathLock {
        let mut d = Digest::new();
        d.update(path);
        let dir = "/dev/shm/vh-c02-locks";
        let _ = std::fs::create_dir_all(dir);
        let f = std::fs::OpenOptions::new().create(true).write(true).open(format!("{}/{}", dir, &d.finish()[..2])).ok(); // 256 buckets
        if let Some(f) = &f {
            unsafe {
                libc::flock(std::os::unix::io::AsRawFd::as_raw_fd(f), libc::LOCK_EX);
            }
        }
        PathLock(f)
    }
}
impl Drop for PathLock {
    fn drop(&mut self) {
        if let Some(f) = &self.0 {
            unsafe {
                libc::flock(std::os::unix::io::AsRawFd::as_raw_fd(f), libc::LOCK_UN);
            }
        }
    }
}

fn ppkey_of(req: &Sx) -> Sx {
    let lang = match lang_of(&req.arg(2).str()) {
        Some(l) => l,
        None => return Sx::sym("unknown_lang"),
    };
    let digest = String::from_utf8_lossy(req.arg(0).bytes()).into_owned();
    let path_os = os(req.arg(6));
    let path = Path::new(&path_os);
    // shrinking / neighbour searches run variants of ONE case (one path) in parallel processes: serialise per path
    let _guard = PathLock::take(path_os.as_bytes());
    if let Some(parent) = path.parent() {
        let _ = std::fs::create_dir_all(parent);
    }
    let input = req.arg(7).bytes();
    if std::fs::write(path, input).is_err() {
        return Sx::sym("err");
    }
    let ignore = req.arg(8).as_bool();
    let mtime = FileTime::from_unix_time(req.arg(9).u64() as i64, req.arg(10).u64() as u32);
    if set_file_mtime(path, mtime).is_err() {
        return Sx::sym("err");
    }
    match req.arg(11).list().first() {
        Some(v) => std::env::set_var("SOURCE_DATE_EPOCH", OsStr::from_bytes(v.bytes())),
        None => std::env::remove_var("SOURCE_DATE_EPOCH"),
    }
    let date_matters = !ignore && contains(input, b"__DATE__") && !contains(input, b"__TIME__");
    let d = req.arg(12);
    let case_date = (d.arg(0).u64() as i64, d.arg(1).u64() as i64, d.arg(2).u64() as i64);
    let before = today();
    let config = PreprocessorCacheModeConfig {
        use_preprocessor_cache_mode: true,
        ignore_time_macros: ignore,
        ..Default::default()
    };
    let r = preprocessor_cache_entry_hash_key(
        &digest,
        lang,
        &os_list(req.arg(3)),
        &str_list(req.arg(4)),
        &env_list(req.arg(5)),
        path,
        req.arg(1).as_bool(),
        config,
    );
    let after = today();
    let _ = std::fs::remove_file(path);
    if date_matters && (before != case_date || after != case_date) {
        return Sx::sym("date_changed");
    }
    match r {
        Ok(Some(k)) => Sx::B(k.into_bytes()),
        Ok(None) => Sx::sym("none"),
        Err(_) => Sx::sym("err"),
    }
}

/// chroot into a fresh directory under /dev/shm (removed by lib/props/c02.py afterwards)
fn enter_private_root() -> bool {
    let dir = format!("/dev/shm/vh-c02-root-{}", std::process::id());
    if std::fs::create_dir_all(&dir).is_err() {
        return false;
    }
    let c = std::ffi::CString::new(dir).unwrap();
    unsafe { libc::chroot(c.as_ptr()) == 0 && libc::chdir(b"/\0".as_ptr() as *const libc::c_char) == 0 }
}

fn exit_ok() -> std::process::ExitStatus {
    std::os::unix::process::ExitStatusExt::from_raw(0)
}

fn driver_key(rt: &tokio::runtime::Runtime, storage: &Arc<dyn Storage>, root: &Path, n: usize, d: &Sx, pp: &[u8], exe_bytes: &[u8]) -> Sx {
    let dir = root.join(format!("d{}", n));
    let cwd = dir.join("w");
    let bin = dir.join("bin");
    if std::fs::create_dir_all(&cwd).is_err() || std::fs::create_dir_all(&bin).is_err() {
        return Sx::sym("err");
    }
    let exe = bin.join(OsStr::from_bytes(d.arg(0).bytes()));
    if std::fs::write(&exe, exe_bytes).is_err() || std::fs::write(cwd.join("foo.c"), b"int x;\n").is_err() {
        return Sx::sym("err");
    }
    let _ = std::fs::set_permissions(&exe, std::os::unix::fs::PermissionsExt::from_mode(0o755));
    let creator: Arc<Mutex<MockCommandCreator>> = CommandCreatorSync::new(&Client::new_num(1));
    let mut probe = b"compiler_id=".to_vec();
    probe.extend_from_slice(d.arg(1).bytes());
    probe.push(b'\n');
    if let Some(v) = d.arg(2).list().first() {
        probe.extend_from_slice(b"compiler_version=");
        probe.extend_from_slice(v.bytes());
        probe.push(b'\n');
    }
    let pool = rt.handle().clone();
    // (a second attempt: detection touches the file system - temp file, executable digest - and must not turn a
    //  transient I/O failure on a loaded machine into an observation about the compiler)
    let mut detected = None;
    for _ in 0..2 {
        creator.lock().unwrap().children.clear();
        creator.lock().unwrap().next_command_spawns(Ok(MockChild::new(exit_ok(), probe.clone(), "")));
        if let Ok((c, _)) = rt.block_on(get_compiler_info(creator.clone(), &exe, &cwd, &[], &[], &pool, None)) {
            detected = Some(c);
            break;
        }
    }
    let compiler = match detected {
        Some(c) => c,
        None => return Sx::sym("undetected"),
    };
    creator.lock().unwrap().children.clear();
    creator.lock().unwrap().next_command_spawns(Ok(MockChild::new(exit_ok(), pp, "")));
    let args: Vec<OsString> = vec!["-c".into(), "foo.c".into(), "-o".into(), "foo.o".into()];
    let hasher = match compiler.parse_arguments(&args, &cwd, &[]) {
        CompilerArguments::Ok(h) => h,
        _ => return Sx::sym("cannot_cache"),
    };
    let r = rt.block_on(hasher.generate_hash_key(
        &creator,
        cwd.clone(),
        vec![],
        false,
        &pool,
        false,
        storage.clone(),
        CacheControl::Default,
    ));
    match r {
        Ok(h) => Sx::B(h.key.into_bytes()),
        Err(_) => Sx::sym("err"),
    }
}

struct RecStorage {
    inner: Arc<dyn Storage>,
    ppmode: std::sync::atomic::AtomicBool,
    asked: Mutex<Vec<String>>,
}

#[async_trait::async_trait]
impl Storage for RecStorage {
    async fn get(&self, key: &str) -> anyhow::Result<Cache> {
        self.inner.get(key).await
    }
    async fn put(&self, key: &str, entry: CacheWrite) -> anyhow::Result<std::time::Duration> {
        self.inner.put(key, entry).await
    }
    fn location(&self) -> String {
        self.inner.location()
    }
    async fn current_size(&self) -> anyhow::Result<Option<u64>> {
        self.inner.current_size().await
    }
    async fn max_size(&self) -> anyhow::Result<Option<u64>> {
        self.inner.max_size().await
    }
    fn preprocessor_cache_mode_config(&self) -> PreprocessorCacheModeConfig {
        PreprocessorCacheModeConfig {
            use_preprocessor_cache_mode: self.ppmode.load(std::sync::atomic::Ordering::SeqCst),
            ..Default::default()
        }
    }
    async fn get_preprocessor_cache_entry(
        &self,
        key: &str,
    ) -> anyhow::Result<Option<Box<dyn sccache::lru_disk_cache::ReadSeek>>> {
        self.asked.lock().unwrap().push(key.to_owned());
        Ok(None)
    }
    async fn put_preprocessor_cache_entry(&self, _key: &str, _e: PreprocessorCacheEntry) -> anyhow::Result<()> {
        Ok(())
    }
}

fn flow_step(rt: &tokio::runtime::Runtime, storage: &Arc<RecStorage>, dir: &Path, st: &Sx) -> Sx {
    let cwd = dir.join("w");
    let bin = dir.join("bin");
    if std::fs::create_dir_all(&cwd).is_err() || std::fs::create_dir_all(&bin).is_err() {
        return Sx::sym("err");
    }
    // The file is named like a compiler sccache knows by name (`is_known_c_compiler`): for any other name the
    // detection first tries `<exe> -vV` (is it a rustc driver?), which would eat the one scripted probe answer.
    // Apple's clang is installed as `clang` / `clang++`, so the `apple-` of the detected kind is not part of the name.
    let exe_name = st.arg(0).bytes();
    let exe_name = exe_name.strip_prefix(b"apple-").unwrap_or(exe_name);
    let exe = bin.join(OsStr::from_bytes(exe_name));
    if std::fs::write(&exe, b"\x7fELF-one-binary").is_err() || std::fs::write(cwd.join("foo.c"), b"int x;\n").is_err() {
        return Sx::sym("err");
    }
    let old = FileTime::from_unix_time(1_600_000_000, 0);
    let _ = set_file_mtime(&exe, old);
    let _ = set_file_mtime(cwd.join("foo.c"), old);
    for d in ["a", "b", "c"] {
        let _ = std::fs::create_dir_all(cwd.join(d));
    }
    let _ = std::fs::write(cwd.join("b/x.c"), b"int x;\n");
    let _ = std::fs::write(cwd.join("c/x.c"), b"int x;\n");
    let _ = std::os::unix::fs::symlink("../b/x.c", cwd.join("a/x.c"));
    let input: OsString = if st.arg(7).bytes().is_empty() { "foo.c".into() } else { os(st.arg(7)) };
    let mut args: Vec<OsString> = vec!["-c".into(), input, "-o".into(), "foo.o".into()];
    for f in st.arg(4).list() {
        let p = cwd.join(OsStr::from_bytes(f.arg(0).bytes()));
        let rep = f.arg(3).u64().max(1) as usize;
        if std::fs::write(&p, f.arg(1).bytes().repeat(rep)).is_err()
            || set_file_mtime(&p, FileTime::from_unix_time(f.arg(2).u64() as i64, 0)).is_err()
        {
            return Sx::sym("err");
        }
        let mut a = OsString::from("-fsanitize-blacklist=");
        a.push(OsStr::from_bytes(f.arg(0).bytes()));
        args.push(a);
    }
    // further command-line arguments of the step (e.g. `-arch x86_64 -arch arm64`, kept in this order)
    args.extend(os_list(st.arg(6)));
    let env = env_list(st.arg(3));
    let creator: Arc<Mutex<MockCommandCreator>> = CommandCreatorSync::new(&Client::new_num(1));
    let mut probe = b"compiler_id=".to_vec();
    probe.extend_from_slice(st.arg(1).bytes());
    probe.push(b'\n');
    if let Some(v) = st.arg(2).list().first() {
        probe.extend_from_slice(b"compiler_version=");
        probe.extend_from_slice(v.bytes());
        probe.push(b'\n');
    }
    let pool = rt.handle().clone();
    let mut detected = None;
    for _ in 0..2 {
        creator.lock().unwrap().children.clear();
        creator.lock().unwrap().next_command_spawns(Ok(MockChild::new(exit_ok(), probe.clone(), "")));
        if let Ok((c, _)) = rt.block_on(get_compiler_info(creator.clone(), &exe, &cwd, &args, &env, &pool, None)) {
            detected = Some(c);
            break;
        }
    }
    let compiler = match detected {
        Some(c) => c,
        None => return Sx::sym("undetected"),
    };
    creator.lock().unwrap().children.clear();
    creator
        .lock()
        .unwrap()
        .next_command_spawns(Ok(MockChild::new(exit_ok(), &b"# 1 \"foo.c\"\nint x;\n"[..], "")));
    let hasher = match compiler.parse_arguments(&args, &cwd, &env) {
        CompilerArguments::Ok(h) => h,
        _ => return Sx::sym("cannot_cache"),
    };
    storage.ppmode.store(st.arg(5).as_bool(), std::sync::atomic::Ordering::SeqCst);
    storage.asked.lock().unwrap().clear();
    let dynst: Arc<dyn Storage> = storage.clone();
    let r = rt.block_on(hasher.generate_hash_key(&creator, cwd.clone(), env, false, &pool, false, dynst, CacheControl::Default));
    let asked = storage.asked.lock().unwrap().clone();
    match r {
        Ok(h) => Sx::L(vec![
            Sx::B(h.key.into_bytes()),
            match asked.first() {
                Some(k) => Sx::B(k.clone().into_bytes()),
                None => Sx::sym("none"),
            },
        ]),
        Err(_) => Sx::sym("err"),
    }
}

fn leg_flow() {
    // gcc.rs reads this from the SERVER's environment: without it two different -arch are not cacheable at all
    std::env::set_var("SCCACHE_CACHE_MULTIARCH", "1");
    let rt = tokio::runtime::Builder::new_current_thread().enable_all().build().unwrap();
    let td = tempfile::Builder::new().prefix("vh-c02-drv-").tempdir_in("/dev/shm").unwrap();
    let root = td.path().to_path_buf();
    let inner: Arc<dyn Storage> = Arc::new(DiskCache::new(
        root.join("cache"),
        1 << 24,
        rt.handle(),
        PreprocessorCacheModeConfig::default(),
        CacheMode::ReadWrite,
    ));
    let storage = Arc::new(RecStorage { inner, ppmode: std::sync::atomic::AtomicBool::new(false), asked: Mutex::new(vec![]) });
    let mut n = 0usize;
    vh::run_lines(|c| {
        n += 1;
        let dir = root.join(format!("c{}", n));
        let out = c
            .arg(1)
            .list()
            .iter()
            .map(|st| vh::catch(|| flow_step(&rt, &storage, &dir, st)).unwrap_or_else(|_| Sx::sym("panic")))
            .collect();
        let _ = std::fs::remove_dir_all(&dir);
        Sx::L(out)
    });
}

struct PieceReader {
    pieces: Vec<Vec<u8>>,
    at: usize,
    off: usize,
}
impl std::io::Read for PieceReader {
    fn read(&mut self, buf: &mut [u8]) -> std::io::Result<usize> {
        if self.at >= self.pieces.len() {
            return Ok(0);
        }
        let p = &self.pieces[self.at];
        let n = (p.len() - self.off).min(buf.len());
        buf[..n].copy_from_slice(&p[self.off..self.off + n]);
        self.off += n;
        if self.off >= p.len() {
            self.at += 1;
            self.off = 0;
        }
        Ok(n)
    }
}

fn reader_member(rt: &tokio::runtime::Runtime, dir: &Path, n: usize, m: &Sx) -> Sx {
    let pieces: Vec<Vec<u8>> = m.arg(1).list().iter().map(|p| p.bytes().to_vec()).collect();
    let mode = m.arg(0).str();
    let r: anyhow::Result<String> = match mode.as_str() {
        "pieces" => Digest::reader_sync(PieceReader { pieces, at: 0, off: 0 }),
        "macros" => Digest::reader_sync_time_macros(PieceReader { pieces, at: 0, off: 0 }).map(|x| x.0),
        "file" => {
            let p = dir.join(format!("f{}", n));
            std::fs::write(&p, pieces.concat()).map_err(anyhow::Error::from).and_then(|_| rt.block_on(Digest::file(&p, rt.handle())))
        }
        "fifo" => {
            let p = dir.join(format!("fifo{}", n));
            let c = std::ffi::CString::new(p.as_os_str().as_bytes()).unwrap();
            if unsafe { libc::mkfifo(c.as_ptr(), 0o600) } != 0 {
                return Sx::sym("err");
            }
            let wp = p.clone();
            let w = std::thread::spawn(move || {
                if let Ok(mut f) = std::fs::OpenOptions::new().write(true).open(&wp) {
                    for piece in pieces {
                        let _ = f.write_all(&piece);
                        let _ = f.flush();
                        std::thread::sleep(std::time::Duration::from_millis(25));
                    }
                }
            });
            let r = std::fs::File::open(&p).map_err(anyhow::Error::from).and_then(Digest::reader_sync);
            let _ = w.join();
            r
        }
        _ => return Sx::sym("bad_mode"),
    };
    match r {
        Ok(d) => Sx::B(d.into_bytes()),
        Err(_) => Sx::sym("err"),
    }
}

fn leg_reader() {
    let rt = tokio::runtime::Builder::new_current_thread().enable_all().build().unwrap();
    let td = tempfile::Builder::new().prefix("vh-c02-drv-").tempdir_in("/dev/shm").unwrap();
    let dir = td.path().to_path_buf();
    let mut n = 0usize;
    vh::run_lines(|c| {
        Sx::L(c.arg(1)
            .list()
            .iter()
            .map(|m| {
                n += 1;
                vh::catch(|| reader_member(&rt, &dir, n, m)).unwrap_or_else(|_| Sx::sym("panic"))
            })
            .collect())
    });
}

fn leg_driver() {
    let rt = tokio::runtime::Builder::new_current_thread().enable_all().build().unwrap();
    let td = tempfile::Builder::new().prefix("vh-c02-drv-").tempdir_in("/dev/shm").unwrap();
    let root = td.path().to_path_buf();
    let storage: Arc<dyn Storage> = Arc::new(DiskCache::new(
        root.join("cache"),
        1 << 24,
        rt.handle(),
        PreprocessorCacheModeConfig { use_preprocessor_cache_mode: false, ..Default::default() },
        CacheMode::ReadWrite,
    ));
    let mut n = 0usize;
    vh::run_lines(|c| {
        let pp = c.arg(2).bytes().to_vec();
        let exe_bytes = c.arg(3).bytes().to_vec();
        let out = c
            .arg(1)
            .list()
            .iter()
            .map(|d| {
                n += 1;
                let r = vh::catch(|| driver_key(&rt, &storage, &root, n, d, &pp, &exe_bytes)).unwrap_or_else(|_| Sx::sym("panic"));
                let _ = std::fs::remove_dir_all(root.join(format!("d{}", n)));
                r
            })
            .collect();
        Sx::L(out)
    });
}

fn digest_of(pieces: &[Sx]) -> Option<String> {
    let mut m = Digest::new();
    for p in pieces {
        match p {
            Sx::B(b) => m.update(b),
            Sx::L(l) => m.update(digest_of(l)?.as_bytes()),
            Sx::N(_) => return None,
        }
    }
    Some(m.finish())
}

fn hash_pieces(item: &Sx) -> Sx {
    if let Sx::B(_) = item {
        // none / unknown_lang / ... : not a pre-image, passed through
        return item.clone();
    }
    match digest_of(item.list()) {
        Some(k) => Sx::B(k.into_bytes()),
        None => Sx::sym("bad_piece"),
    }
}

fn main() {
    vh::quiet_panics();
    let leg = std::env::args().nth(1).unwrap_or_default();
    match leg.as_str() {
        "lp" => vh::run_lines(leg_lp),
        "lpx" => vh::run_lines(leg_lpx),
        "key" => vh::run_lines(|c| Sx::L(c.arg(1).list().iter().map(key_of).collect())),
        "ppkey" => vh::run_lines(|c| Sx::L(c.arg(1).list().iter().map(ppkey_of).collect())),
        "driver" => leg_driver(),
        "flow" => leg_flow(),
        "reader" => leg_reader(),
        "ppkey-root" => {
            let ok = enter_private_root();
            vh::run_lines(|c| {
                if ok {
                    Sx::L(c.arg(1).list().iter().map(ppkey_of).collect())
                } else {
                    Sx::sym("no_chroot")
                }
            })
        }
        "hashpre" => {
            // interactive: one answer per line, flushed at once
            let stdin = std::io::stdin();
            let stdout = std::io::stdout();
            let mut out = stdout.lock();
            for line in stdin.lock().lines() {
                let line = line.expect("stdin");
                let r = match Sx::parse(line.trim()) {
                    Ok(x) => Sx::L(x.list().iter().map(hash_pieces).collect()),
                    Err(e) => Sx::L(vec![Sx::sym("harness_parse_error"), Sx::B(e.into_bytes())]),
                };
                writeln!(out, "{}", r).unwrap();
                out.flush().unwrap();
            }
        }
        _ => {
            eprintln!("unknown leg {}", leg);
            std::process::exit(2);
        }
    }
}
