//! c05 — drives the real rustc support of sccache (`src/compiler/rust.rs`) on the cases of Run/C05.v and
//! prints the same observations.
//!
//! legs (argv[1]):
//!   depinfo  ( text cwd )                     -> ( path ... )            real `parse_dep_info`
//!   envdep   ( text )                         -> ( (var (val)|()) ... )  real `parse_env_dep_info`
//!   stdhash  ( kind bytes )                   -> bytes written to a `Hasher` by std's `Hash` impls that
//!                                                `generate_hash_key` relies on (kind = path | os | str)
//!   args     ( argv files )                   -> parse result of the real `parse_arguments`
//!   key      ( argv files depinfo env shlibs version filenames )
//!                                             -> ( ok PREIMAGE-PREFIX tail_ok key_ok outputs pairs compile_args depinfo_args ) | ( err ) | parse result
//!            the real `Rust::parse_arguments` + `RustHasher::generate_hash_key` with a mocked rustc; the
//!            pre-image is what the real code fed to its `Digest` (hook util::VERIF_DIGEST_TRACE)
//!   keypair  ( reqA reqB meta )               -> ( same_key resA resB )   two `key` requests in one working directory
//!   cwdpair  ( req subA subB meta )           -> ( same_key okA okB )   one request in two directories under one parent
//!   sysroot  ( ((name kind digest content) ...) ) -> ( ok (digest ...) )   the real Rust::new on a scratch sysroot/lib
//!   archive  ( ((name data) ...) bytes )    -> ( ok SPEC-PREIMAGE digest_matches )   the real hash_all_archives
//!   digest   ( content is_archive )           -> ( digest )              helper for the case generator
use sccache::util::{Digest, VERIF_DIGEST_TRACE};
use sccache::verif_hooks::cache::{Cache, CacheMode, CacheWrite, Storage};
use sccache::verif_hooks::compiler::rust::{
    verif_parse_arguments, verif_parse_dep_info, verif_parse_env_dep_info, Rust, VerifParsedArguments,
};
use sccache::verif_hooks::compiler::{CacheControl, ColorMode, Compiler, CompilerArguments};
use sccache::verif_hooks::mock_command::{exit_status, MockChild, MockCommandCreator};
use std::ffi::{OsStr, OsString};
use std::hash::{Hash, Hasher};
use std::os::unix::ffi::{OsStrExt, OsStringExt};
use std::path::{Path, PathBuf};
use std::sync::{Arc, Mutex};
use std::time::Duration;
use vh::{catch, Sx};

type Creator = Arc<Mutex<MockCommandCreator>>;

struct Collect(Vec<u8>);
impl Hasher for Collect {
    fn write(&mut self, bytes: &[u8]) {
        self.0.extend_from_slice(bytes)
    }
    fn finish(&self) -> u64 {
        0
    }
}

struct NoStorage;
#[async_trait::async_trait]
impl Storage for NoStorage {
    async fn get(&self, _key: &str) -> anyhow::Result<Cache> {
        Ok(Cache::Miss)
    }
    async fn put(&self, _key: &str, _entry: CacheWrite) -> anyhow::Result<Duration> {
        Ok(Duration::from_secs(0))
    }
    async fn check(&self) -> anyhow::Result<CacheMode> {
        Ok(CacheMode::ReadWrite)
    }
    fn location(&self) -> String {
        "none".into()
    }
    async fn current_size(&self) -> anyhow::Result<Option<u64>> {
        Ok(None)
    }
    async fn max_size(&self) -> anyhow::Result<Option<u64>> {
        Ok(None)
    }
}

fn os(b: &[u8]) -> OsString {
    OsString::from_vec(b.to_vec())
}

fn sb<T: AsRef<OsStr>>(s: T) -> Sx {
    Sx::B(s.as_ref().as_bytes().to_vec())
}

/// paths under the scratch directory are shown under the model's virtual cwd `/@`
fn virt(p: &Path, scratch: &Path) -> Sx {
    match p.strip_prefix(scratch) {
        Ok(rest) if p.as_os_str().as_bytes().starts_with(scratch.as_os_str().as_bytes()) => {
            // keep the exact spelling of the remainder (strip_prefix normalises)
            let raw = &p.as_os_str().as_bytes()[scratch.as_os_str().as_bytes().len()..];
            let _ = rest;
            let mut v = b"/@".to_vec();
            v.extend_from_slice(raw);
            Sx::B(v)
        }
        _ => sb(p),
    }
}

fn leg_depinfo(case: &Sx) -> Sx {
    let text = case.arg(0).bytes();
    let cwd = os(case.arg(1).bytes());
    let text = match std::str::from_utf8(text) {
        Ok(t) => t,
        Err(_) => return Sx::L(vec![Sx::sym("invalid_utf8")]),
    };
    let r = verif_parse_dep_info(text, Path::new(&cwd));
    Sx::L(r.iter().map(sb).collect())
}

fn leg_envdep(case: &Sx) -> Sx {
    let text = match std::str::from_utf8(case.arg(0).bytes()) {
        Ok(t) => t,
        Err(_) => return Sx::L(vec![Sx::sym("invalid_utf8")]),
    };
    let r = verif_parse_env_dep_info(text);
    Sx::L(r.iter().map(|(k, v)| Sx::L(vec![sb(k), Sx::opt(v.as_ref().map(sb))])).collect())
}

fn leg_stdhash(case: &Sx) -> Sx {
    let kind = case.arg(0).str();
    let b = case.arg(1).bytes();
    let mut c = Collect(vec![]);
    match kind.as_str() {
        "path" => Path::new(OsStr::from_bytes(b)).hash(&mut c),
        "os" => OsStr::from_bytes(b).hash(&mut c),
        "str" => match std::str::from_utf8(b) {
            Ok(s) => s.to_string().hash(&mut c),
            Err(_) => return Sx::L(vec![Sx::sym("invalid_utf8")]),
        },
        "pathcmp" => {
            // ( pathcmp a ) with a second argument: ordering of two paths (0 less, 1 equal, 2 greater)
            let a = Path::new(OsStr::from_bytes(b));
            let b2 = case.arg(2).bytes();
            let o = a.cmp(Path::new(OsStr::from_bytes(b2)));
            return Sx::n(match o {
                std::cmp::Ordering::Less => 0u8,
                std::cmp::Ordering::Equal => 1,
                std::cmp::Ordering::Greater => 2,
            });
        }
        _ => return Sx::L(vec![Sx::sym("bad_kind")]),
    }
    Sx::B(c.0)
}

struct Scratch {
    dir: tempfile::TempDir,
}

impl Scratch {
    fn new(files: &Sx) -> Scratch {
        let base = if Path::new("/dev/shm").is_dir() { "/dev/shm" } else { "/tmp" };
        let dir = tempfile::Builder::new().prefix("vh-c05-").tempdir_in(base).expect("scratch dir");
        let s = Scratch { dir };
        s.populate(files);
        s
    }
    fn populate(&self, files: &Sx) {
        for f in files.list() {
            let rel = os(f.arg(0).bytes());
            let p = self.dir.path().join(&rel);
            if let Some(parent) = p.parent() {
                let _ = std::fs::create_dir_all(parent);
            }
            let _ = std::fs::write(&p, f.arg(1).bytes());
        }
    }
    /// give every file below the scratch directory the same fixed modification time in the past
    fn stamp_all(&self) {
        fn walk(d: &Path) {
            if let Ok(rd) = std::fs::read_dir(d) {
                for e in rd.flatten() {
                    let p = e.path();
                    if p.is_dir() {
                        walk(&p);
                    } else {
                        let _ = filetime::set_file_mtime(&p, filetime::FileTime::from_unix_time(1_600_000_000, 123_456_789));
                    }
                }
            }
        }
        walk(self.dir.path());
    }
    /// remove everything below the scratch directory (the directory itself stays: it is the cwd)
    fn clear(&self) {
        if let Ok(rd) = std::fs::read_dir(self.dir.path()) {
            for e in rd.flatten() {
                let p = e.path();
                if p.is_dir() {
                    let _ = std::fs::remove_dir_all(&p);
                } else {
                    let _ = std::fs::remove_file(&p);
                }
            }
        }
    }
    fn path(&self) -> &Path {
        self.dir.path()
    }
}

fn opt_path(p: &Option<PathBuf>, scratch: &Path) -> Sx {
    Sx::opt(p.as_ref().map(|p| virt(p, scratch)))
}

fn show_parsed(p: &VerifParsedArguments, scratch: &Path) -> Sx {
    Sx::L(vec![
        Sx::sym("ok"),
        Sx::L(p.arguments.iter().map(|(a, v)| Sx::L(vec![sb(a), Sx::opt(v.as_ref().map(sb))])).collect()),
        virt(&p.output_dir, scratch),
        Sx::L(p.externs.iter().map(|e| virt(e, scratch)).collect()),
        Sx::L(p.crate_link_paths.iter().map(|e| virt(e, scratch)).collect()),
        Sx::L(p.staticlibs.iter().map(|e| virt(e, scratch)).collect()),
        sb(&p.crate_name),
        Sx::L(vec![Sx::bool(p.crate_type_rlib), Sx::bool(p.crate_type_staticlib)]),
        opt_path(&p.dep_info, scratch),
        opt_path(&p.profile, scratch),
        opt_path(&p.gcno, scratch),
        Sx::L(p.emit.iter().map(sb).collect()),
        Sx::sym(match p.color_mode {
            ColorMode::Off => "off",
            ColorMode::On => "on",
            ColorMode::Auto => "auto",
        }),
        Sx::bool(p.has_json),
        opt_path(&p.target_json, scratch),
    ])
}

fn show_not_ok<T>(r: &CompilerArguments<T>) -> Option<Sx> {
    match r {
        CompilerArguments::Ok(_) => None,
        CompilerArguments::NotCompilation => Some(Sx::L(vec![Sx::sym("not_compilation")])),
        CompilerArguments::CannotCache(why, extra) => {
            // the extra text of "crate-type" comes from a HashSet iteration: canonicalise by sorting its parts;
            // the extra text of "argument parse" is an error message: not compared
            let extra = match (*why, extra) {
                ("crate-type", Some(e)) => {
                    let mut parts: Vec<&str> = e.split(',').collect();
                    parts.sort();
                    Sx::L(parts.iter().map(|s| Sx::B(s.as_bytes().to_vec())).collect())
                }
                _ => Sx::L(vec![]),
            };
            Some(Sx::L(vec![Sx::sym("cannot_cache"), Sx::B(why.as_bytes().to_vec()), extra]))
        }
    }
}

fn leg_args(case: &Sx) -> Sx {
    let argv: Vec<OsString> = case.arg(0).list().iter().map(|a| os(a.bytes())).collect();
    let scratch = Scratch::new(case.arg(1));
    let r = verif_parse_arguments(&argv, scratch.path());
    if let Some(x) = show_not_ok(&r) {
        return x;
    }
    match r {
        CompilerArguments::Ok(p) => show_parsed(&p, scratch.path()),
        _ => unreachable!(),
    }
}

fn leg_key(case: &Sx) -> Sx {
    let scratch = Scratch::new(case.arg(1));
    key_in(case, &scratch).0
}

/// ( reqA reqB meta ): both requests in the SAME working directory, one after the other
fn leg_keypair(case: &Sx) -> Sx {
    let scratch = Scratch::new(case.arg(0).arg(1));
    // meta = ( label expectation [keep_mtime] ): with keep_mtime every file of both requests carries one fixed, old
    // modification time, so the second request sees files of the same path, (possibly) size and mtime as the first
    let keep_mtime = case.arg(2).list().get(2).map(|f| f.is_sym("keep_mtime")).unwrap_or(false);
    if keep_mtime {
        scratch.stamp_all();
    }
    let (ra, ka) = key_in(case.arg(0), &scratch);
    scratch.clear();
    scratch.populate(case.arg(1).arg(1));
    if keep_mtime {
        scratch.stamp_all();
    }
    let (rb, kb) = key_in(case.arg(1), &scratch);
    let same = match (&ka, &kb) {
        (Some(a), Some(b)) => a == b,
        _ => false,
    };
    Sx::L(vec![Sx::bool(same), ra, rb])
}

fn key_in(case: &Sx, scratch: &Scratch) -> (Sx, Option<String>) {
    key_in2(case, scratch, scratch.path().to_path_buf())
}

/// ( req subA subB meta ): the same request compiled in <scratch>/subA and in <scratch>/subB (the files are
/// written into both); every `@P@` in an argument stands for the scratch directory, the common parent.
/// -> ( same_key okA okB )
fn leg_cwdpair(case: &Sx) -> Sx {
    let scratch = Scratch::new(&Sx::L(vec![]));
    let parent = scratch.path().as_os_str().as_bytes().to_vec();
    let req = case.arg(0);
    let mut items = req.list().to_vec();
    let argv: Vec<Sx> = req
        .arg(0)
        .list()
        .iter()
        .map(|a| {
            let b = a.bytes();
            let mut out = vec![];
            let mut i = 0;
            while i < b.len() {
                if b[i..].starts_with(b"@P@") {
                    out.extend_from_slice(&parent);
                    i += 3;
                } else {
                    out.push(b[i]);
                    i += 1;
                }
            }
            Sx::B(out)
        })
        .collect();
    items[0] = Sx::L(argv);
    let req = Sx::L(items);
    let mut keys = vec![];
    let mut oks = vec![];
    for sub in [case.arg(1), case.arg(2)] {
        let cwd = scratch.path().join(OsStr::from_bytes(sub.bytes()));
        let _ = std::fs::create_dir_all(&cwd);
        for f in req.arg(1).list() {
            let p = cwd.join(OsStr::from_bytes(f.arg(0).bytes()));
            if let Some(parent) = p.parent() {
                let _ = std::fs::create_dir_all(parent);
            }
            let _ = std::fs::write(&p, f.arg(1).bytes());
        }
        let (r, k) = key_in2(&req, &scratch, cwd);
        oks.push(Sx::bool(r.tag() == "ok"));
        keys.push(k);
    }
    let same = matches!((&keys[0], &keys[1]), (Some(a), Some(b)) if a == b);
    Sx::L(vec![Sx::bool(same), oks[0].clone(), oks[1].clone()])
}

fn key_in2(case: &Sx, _scratch: &Scratch, cwd: PathBuf) -> (Sx, Option<String>) {
    let argv: Vec<OsString> = case.arg(0).list().iter().map(|a| os(a.bytes())).collect();
    let depinfo: Option<Vec<u8>> = case.arg(2).list().first().map(|t| t.bytes().to_vec());
    let env: Vec<(OsString, OsString)> =
        case.arg(3).list().iter().map(|kv| (os(kv.arg(0).bytes()), os(kv.arg(1).bytes()))).collect();
    let shlibs: Vec<String> =
        case.arg(4).list().iter().map(|d| String::from_utf8_lossy(d.bytes()).into_owned()).collect();
    let version = String::from_utf8_lossy(case.arg(5).bytes()).into_owned();
    let filenames: Vec<String> =
        case.arg(6).list().iter().map(|d| String::from_utf8_lossy(d.bytes()).into_owned()).collect();

    let rust = Rust::verif_new(
        PathBuf::from("rustc"),
        "x86_64-unknown-linux-gnu".to_string(),
        version.clone(),
        cwd.join("sysroot"),
        shlibs,
    );
    let parsed = <Rust as Compiler<Creator>>::parse_arguments(&rust, &argv, &cwd, &env);
    if let Some(x) = show_not_ok(&parsed) {
        return (x, None);
    }
    let hasher = match parsed {
        CompilerArguments::Ok(h) => h,
        _ => unreachable!(),
    };
    let creator: Creator = Arc::new(Mutex::new(MockCommandCreator { children: vec![] }));
    let depinfo_seen: Arc<Mutex<Vec<OsString>>> = Arc::new(Mutex::new(vec![]));
    {
        let mut c = creator.lock().unwrap();
        // 1st process: `rustc <filtered args> --emit dep-info -o <file>`
        let seen = depinfo_seen.clone();
        c.next_command_calls(move |args: &[OsString]| {
            let n = args.len();
            *seen.lock().unwrap() = args.to_vec();
            match &depinfo {
                Some(text) if n >= 2 && args[n - 2] == "-o" => {
                    std::fs::write(&args[n - 1], text)?;
                    Ok(MockChild::new(exit_status(0), "", ""))
                }
                _ => Ok(MockChild::new(exit_status(1), "", "error: mocked rustc failure")),
            }
        });
        // 2nd process: `rustc <args> --print file-names`
        c.next_command_spawns(Ok(MockChild::new(exit_status(0), filenames.join("\n"), "")));
    }
    let rt = tokio::runtime::Builder::new_current_thread().enable_all().build().expect("runtime");
    let pool = rt.handle().clone();
    VERIF_DIGEST_TRACE.with(|t| *t.borrow_mut() = Some(vec![]));
    let res = rt.block_on(hasher.generate_hash_key(
        &creator,
        cwd.clone(),
        env,
        false,
        &pool,
        false,
        Arc::new(NoStorage),
        CacheControl::Default,
    ));
    let trace = VERIF_DIGEST_TRACE.with(|t| t.borrow_mut().take()).unwrap_or_default();
    let res = match res {
        Ok(r) => r,
        Err(_) => return (Sx::L(vec![Sx::sym("err")]), None),
    };
    // the pre-image must hash to the key the real code returned
    let mut d = Digest::new();
    VERIF_DIGEST_TRACE.with(|t| *t.borrow_mut() = None);
    d.update(&trace);
    let key_ok = d.finish() == res.key;
    // the last two components (cwd, `rustc -vV`) depend on the scratch directory: check them here, against
    // std's own Hash impls (tied to the model by the stdhash leg), and compare only the part before them
    let mut tail = Collect(vec![]);
    cwd.hash(&mut tail);
    version.hash(&mut tail);
    let tail_ok = trace.ends_with(&tail.0);
    let prefix = if tail_ok { trace[..trace.len() - tail.0.len()].to_vec() } else { trace.clone() };
    let mut outs: Vec<(String, PathBuf, bool)> =
        res.compilation.outputs().map(|o| (o.key, o.path, o.optional)).collect();
    outs.sort();
    // the arguments of the preliminary dep-info run, without the `--emit dep-info -o <file>` sccache appends
    let depinfo_args = {
        let a = depinfo_seen.lock().unwrap();
        let n = a.len();
        if n >= 4 && a[n - 4] == "--emit" && a[n - 3] == "dep-info" && a[n - 2] == "-o" {
            Sx::L(a[..n - 4].iter().map(sb).collect())
        } else {
            Sx::L(vec![Sx::sym("unexpected_tail")])
        }
    };
    let key = res.key.clone();
    // the command a cache miss would run (its diagnostics are what gets stored under the key)
    let compile_args = {
        let mut pt = sccache::dist::PathTransformer::new();
        match res.compilation.generate_compile_commands(&mut pt, false) {
            Ok((cmd, _, _)) => Sx::L(cmd.get_arguments().iter().map(sb).collect()),
            Err(_) => Sx::L(vec![Sx::sym("no_compile_command")]),
        }
    };
    // the (flag, value) pairs the request was parsed into (used to classify key collisions)
    let pairs = match verif_parse_arguments(&argv, &cwd) {
        CompilerArguments::Ok(p) => {
            Sx::L(p.arguments.iter().map(|(a, v)| Sx::L(vec![sb(a), Sx::opt(v.as_ref().map(sb))])).collect())
        }
        _ => Sx::L(vec![]),
    };
    (
        Sx::L(vec![
            Sx::sym("ok"),
            Sx::B(prefix),
            Sx::bool(tail_ok),
            Sx::bool(key_ok),
            Sx::L(
                outs.iter()
                    .map(|(k, p, o)| Sx::L(vec![Sx::B(k.as_bytes().to_vec()), virt(p, &cwd), Sx::bool(*o)]))
                    .collect(),
            ),
            pairs,
            compile_args,
            depinfo_args,
        ]),
        Some(key),
    )
}

/// ( ((name kind digest content) ...) ): the REAL `Rust::new` on a scratch sysroot whose lib directory holds the given
/// entries (kind = file | dir | symfile | symdir | dangling); the digests it recorded for "the compiler itself" are
/// read off the key pre-image of a fixed request: pre-image(with) = VERSION ++ digests ++ rest, pre-image(without).
fn leg_sysroot(case: &Sx) -> Sx {
    use sccache::verif_hooks::compiler::rust::VERIF_CACHE_VERSION;
    let scratch = Scratch::new(&Sx::L(vec![]));
    let root = scratch.path().to_path_buf();
    let lib = root.join("sysroot").join("lib");
    let store = root.join("store");
    std::fs::create_dir_all(&lib).unwrap();
    std::fs::create_dir_all(&store).unwrap();
    for (i, e) in case.arg(0).list().iter().enumerate() {
        let name = os(e.arg(0).bytes());
        let p = lib.join(&name);
        let target = store.join(format!("t{}", i));
        match e.arg(1).str().as_str() {
            "file" => std::fs::write(&p, e.arg(3).bytes()).unwrap(),
            "dir" => std::fs::create_dir_all(&p).unwrap(),
            "symfile" => {
                std::fs::write(&target, e.arg(3).bytes()).unwrap();
                std::os::unix::fs::symlink(&target, &p).unwrap();
            }
            "symdir" => {
                std::fs::create_dir_all(&target).unwrap();
                std::os::unix::fs::symlink(&target, &p).unwrap();
            }
            _ => std::os::unix::fs::symlink(store.join("missing"), &p).unwrap(),
        }
    }
    let cwd = root.join("w");
    std::fs::create_dir_all(cwd.join("src")).unwrap();
    std::fs::write(cwd.join("src/lib.rs"), b"").unwrap();
    let version = "rustc 1.95.0\nhost: x86_64-unknown-linux-gnu\n".to_string();
    let rt = tokio::runtime::Builder::new_current_thread().enable_all().build().expect("runtime");
    let pool = rt.handle().clone();
    let creator: Creator = Arc::new(Mutex::new(MockCommandCreator { children: vec![] }));
    creator.lock().unwrap().next_command_spawns(Ok(MockChild::new(
        exit_status(0),
        format!("{}\n", root.join("sysroot").display()),
        "",
    )));
    let real = match rt.block_on(Rust::new(creator.clone(), root.join("no-such-rustc"), &[], &version, None, pool.clone())) {
        Ok(r) => r,
        Err(_) => return Sx::L(vec![Sx::sym("err")]),
    };
    let empty = Rust::verif_new(root.join("no-such-rustc"), "x86_64-unknown-linux-gnu".into(), version.clone(), root.join("sysroot"), vec![]);
    let argv: Vec<OsString> = ["--crate-name", "c", "src/lib.rs", "--crate-type", "lib", "--emit=link", "--out-dir", "out"]
        .iter()
        .map(OsString::from)
        .collect();
    let mut traces = vec![];
    for rust in [&real, &empty] {
        let hasher = match <Rust as Compiler<Creator>>::parse_arguments(rust, &argv, &cwd, &[]) {
            CompilerArguments::Ok(h) => h,
            _ => return Sx::L(vec![Sx::sym("not_ok")]),
        };
        let c: Creator = Arc::new(Mutex::new(MockCommandCreator { children: vec![] }));
        {
            let mut g = c.lock().unwrap();
            g.next_command_calls(|args: &[OsString]| {
                let n = args.len();
                std::fs::write(&args[n - 1], b"x: src/lib.rs\n")?;
                Ok(MockChild::new(exit_status(0), "", ""))
            });
            g.next_command_spawns(Ok(MockChild::new(exit_status(0), "libc.rlib", "")));
        }
        VERIF_DIGEST_TRACE.with(|t| *t.borrow_mut() = Some(vec![]));
        let r = rt.block_on(hasher.generate_hash_key(&c, cwd.clone(), vec![], false, &pool, false, Arc::new(NoStorage), CacheControl::Default));
        let trace = VERIF_DIGEST_TRACE.with(|t| t.borrow_mut().take()).unwrap_or_default();
        if r.is_err() {
            return Sx::L(vec![Sx::sym("err")]);
        }
        traces.push(trace);
    }
    let v = VERIF_CACHE_VERSION.len();
    let (with, without) = (&traces[0], &traces[1]);
    if with.len() < without.len() || !with.starts_with(&without[..v]) || !with.ends_with(&without[v..]) {
        return Sx::L(vec![Sx::sym("malformed_preimage")]);
    }
    let d = &with[v..with.len() - (without.len() - v)];
    if d.len() % 64 != 0 {
        return Sx::L(vec![Sx::sym("malformed_digests")]);
    }
    Sx::L(vec![Sx::sym("ok"), Sx::L(d.chunks(64).map(|c| Sx::B(c.to_vec())).collect())])
}

/// ( ((name data) ...) archive_bytes ): the real `hash_all_archives` on the archive, against the digest of the
/// specification pre-image (every member in archive order, name then data) -> ( ok SPEC-PREIMAGE digest_matches )
fn leg_archive(case: &Sx) -> Sx {
    let mut spec = vec![];
    for m in case.arg(0).list() {
        spec.extend_from_slice(m.arg(0).bytes());
        spec.extend_from_slice(m.arg(1).bytes());
    }
    let dir = tempfile::Builder::new().prefix("vh-c05-a-").tempdir_in("/dev/shm").expect("scratch");
    let p = dir.path().join("lib.a");
    std::fs::write(&p, case.arg(1).bytes()).unwrap();
    let rt = tokio::runtime::Builder::new_current_thread().enable_all().build().expect("runtime");
    let pool = rt.handle().clone();
    let real = match rt.block_on(sccache::util::hash_all_archives(&[p], &pool)) {
        Ok(v) => v[0].clone(),
        Err(_) => return Sx::L(vec![Sx::sym("err")]),
    };
    let mut d = Digest::new();
    d.update(&spec);
    Sx::L(vec![Sx::sym("ok"), Sx::B(spec), Sx::bool(d.finish() == real)])
}

fn leg_digest(case: &Sx) -> Sx {
    let content = case.arg(0).bytes();
    let is_archive = case.arg(1).as_bool();
    let dir = tempfile::Builder::new().prefix("vh-c05-d-").tempdir_in("/dev/shm").expect("scratch");
    let p = dir.path().join("f");
    std::fs::write(&p, content).unwrap();
    let rt = tokio::runtime::Builder::new_current_thread().enable_all().build().expect("runtime");
    let pool = rt.handle().clone();
    let r = if is_archive {
        rt.block_on(sccache::util::hash_all_archives(&[p], &pool))
    } else {
        rt.block_on(sccache::util::hash_all(&[p], &pool))
    };
    match r {
        Ok(v) => Sx::L(vec![Sx::B(v[0].as_bytes().to_vec())]),
        Err(_) => Sx::L(vec![]),
    }
}

fn main() {
    let leg = std::env::args().nth(1).unwrap_or_default();
    vh::quiet_panics();
    vh::run_lines(|case| {
        let r = catch(|| match leg.as_str() {
            "depinfo" => leg_depinfo(case),
            "envdep" => leg_envdep(case),
            "stdhash" => leg_stdhash(case),
            "args" => leg_args(case),
            "key" => leg_key(case),
            "keypair" => leg_keypair(case),
            "cwdpair" => leg_cwdpair(case),
            "sysroot" => leg_sysroot(case),
            "archive" => leg_archive(case),
            "digest" => leg_digest(case),
            _ => Sx::L(vec![Sx::sym("unknown_leg")]),
        });
        match r {
            Ok(x) => x,
            Err(m) => Sx::L(vec![Sx::sym("panic"), Sx::B(m.into_bytes())]),
        }
    });
}
