//! c15 — read-only cache mode.
//!
//! leg `ro`:     builds a real populated cache directory, opens a real `DiskCache` (optionally wrapped in
//!               `ReadOnlyStorage`, as `server::start_server` does when `check()` says read-only), runs the
//!               op / request history of the case through the `Storage` trait and prints, per op, the result
//!               classes, which files had their mtime touched, what the two stores index, the listing
//!               (path size logical-mtime content-id) and the directories — the same observation Run/C15.v
//!               prints — plus, only here, a BLAKE3 over the raw (path, size, BLAKE3(bytes)) listing.
//! leg `config`: writes the config file of the case, sets the four disk-cache environment variables, calls the
//!               real `Config::load()` and `storage_from_config` and prints the effective disk-cache settings.
use filetime::{set_file_mtime, FileTime};
use sccache::config::{CacheModeConfig, Config};
use sccache::verif_hooks::cache::disk::DiskCache;
use sccache::verif_hooks::cache::readonly::ReadOnlyStorage;
use sccache::verif_hooks::cache::{
    storage_from_config, Cache, CacheMode, CacheWrite, PreprocessorCacheModeConfig, Storage,
};
use sccache::verif_hooks::compiler::PreprocessorCacheEntry;
use std::collections::BTreeSet;
use std::ffi::OsStr;
use std::os::unix::ffi::OsStrExt;
use std::path::{Path, PathBuf};
use std::sync::Arc;
use vh::{catch, Sx};

const BASE: i64 = 1_000_000_000;
const RANGE: i64 = 100_000_000;
const PP_PREFIX: &[u8] = b"preprocessor/";
const TMP_PREFIX: &[u8] = b".sccachetmp";

fn pattern(cid: u64, n: usize) -> Vec<u8> {
    (0..n as u64).map(|i| ((cid.wrapping_mul(131).wrapping_add(i * 7 + 3)) % 251) as u8).collect()
}

fn file_name(rel: &[u8]) -> &[u8] {
    match rel.iter().rposition(|c| *c == b'/') {
        Some(i) => &rel[i + 1..],
        None => rel,
    }
}

/// The bytes the harness stores for content id `cid` at `rel`: result-entry shaped paths of at least 22
/// bytes hold a valid empty zip (end-of-central-directory record + comment), exactly what
/// `CacheWrite::verif_with_comment(pattern).finish()` produces; everything else holds the raw pattern.
fn content(rel: &[u8], cid: u64, size: usize) -> Vec<u8> {
    let entry_shaped = !rel.starts_with(PP_PREFIX) && !file_name(rel).starts_with(TMP_PREFIX);
    if entry_shaped && (22..=65557).contains(&size) {
        let n = size - 22;
        let mut v = vec![0x50, 0x4b, 0x05, 0x06, 0, 0, 0, 0, 0, 0, 0, 0, 0, 0, 0, 0, 0, 0, 0, 0];
        v.push((n & 0xff) as u8);
        v.push((n >> 8) as u8);
        v.extend(pattern(cid, n));
        v
    } else {
        pattern(cid, size)
    }
}

fn pp_default_bytes() -> Vec<u8> {
    let mut v = vec![];
    PreprocessorCacheEntry::new().serialize_to(&mut v).unwrap();
    v
}

fn walk(root: &Path, dir: &Path, files: &mut Vec<(Vec<u8>, PathBuf)>, dirs: &mut Vec<Vec<u8>>) {
    if let Ok(rd) = std::fs::read_dir(dir) {
        for e in rd.flatten() {
            let p = e.path();
            let ft = match e.file_type() {
                Ok(t) => t,
                Err(_) => continue,
            };
            let rel = p.strip_prefix(root).unwrap().as_os_str().as_bytes().to_vec();
            if ft.is_dir() {
                dirs.push(rel);
                walk(root, &p, files, dirs);
            } else {
                files.push((rel, p.clone()));
            }
        }
    }
}

struct World {
    rt: tokio::runtime::Runtime,
    root: PathBuf,
    disk: Option<Arc<DiskCache>>,
    storage: Option<Arc<dyn Storage>>,
    clock: i64,
    cids: BTreeSet<u64>,
    ppsz: u64,
    touched: BTreeSet<Vec<u8>>,
    /// content id the harness last stored at a path (only consulted to pick among ids whose bytes coincide)
    wrote: std::collections::BTreeMap<Vec<u8>, u64>,
}

/// Every storage call gets this long to answer; a call that does not is reported as `hung`.
const OP_TIMEOUT: std::time::Duration = std::time::Duration::from_secs(5);
const HUNG: &str = "c15-hung";

/// Run one storage call on the runtime (as the server does, never on the waiting thread) and wait for its
/// answer for at most OP_TIMEOUT: panics with HUNG if none comes, with "op panicked" if the call panicked.
fn call(rt: &tokio::runtime::Runtime, fut: impl std::future::Future<Output = &'static str> + Send + 'static) -> &'static str {
    let (tx, rx) = std::sync::mpsc::channel();
    rt.spawn(async move {
        let _ = tx.send(fut.await);
    });
    match rx.recv_timeout(OP_TIMEOUT) {
        Ok(r) => r,
        Err(std::sync::mpsc::RecvTimeoutError::Timeout) => panic!("{}", HUNG),
        Err(std::sync::mpsc::RecvTimeoutError::Disconnected) => panic!("op panicked"),
    }
}

impl World {
    fn open(&mut self, rw: bool, wrap: bool, cap: u64) {
        self.storage = None;
        self.disk = None;
        let d = Arc::new(DiskCache::new(
            &self.root,
            cap,
            self.rt.handle(),
            PreprocessorCacheModeConfig::activated(),
            if rw { CacheMode::ReadWrite } else { CacheMode::ReadOnly },
        ));
        self.disk = Some(d.clone());
        let raw: Arc<dyn Storage> = d;
        self.storage = Some(if wrap { Arc::new(ReadOnlyStorage(raw)) } else { raw });
    }

    fn refusal(e: &anyhow::Error) -> &'static str {
        match e.to_string().as_str() {
            "Cannot write to read-only storage" => "refused_wrapper",
            "Cannot write to a read-only cache" => "refused_cache",
            _ => "err",
        }
    }

    fn get_raw(&self, k: &str) -> &'static str {
        let st = self.storage.clone().unwrap();
        let k = k.to_owned();
        call(&self.rt, async move {
            match st.get(&k).await {
                Ok(Cache::Hit(_)) => "hit",
                Ok(Cache::Miss) => "miss",
                Ok(_) => "other",
                Err(_) => "err",
            }
        })
    }

    fn put_raw(&self, k: &str, size: u64, cid: u64) -> &'static str {
        let st = self.storage.clone().unwrap();
        let k = k.to_owned();
        let n = size.saturating_sub(22) as usize;
        call(&self.rt, async move {
            let entry = CacheWrite::verif_with_comment(pattern(cid, n));
            match st.put(&k, entry).await {
                Ok(_) => "ok",
                Err(e) => World::refusal(&e),
            }
        })
    }

    fn ppget_raw(&self, k: &str) -> &'static str {
        let st = self.storage.clone().unwrap();
        let k = k.to_owned();
        call(&self.rt, async move {
            match st.get_preprocessor_cache_entry(&k).await {
                Ok(Some(_)) => "found",
                Ok(None) => "none",
                Err(_) => "err",
            }
        })
    }

    fn ppput_raw(&self, k: &str) -> &'static str {
        let st = self.storage.clone().unwrap();
        let k = k.to_owned();
        if pp_default_bytes().len() as u64 != self.ppsz {
            return "ppsz_mismatch";
        }
        call(&self.rt, async move {
            match st.put_preprocessor_cache_entry(&k, PreprocessorCacheEntry::new()).await {
                Ok(()) => "ok",
                Err(e) => World::refusal(&e),
            }
        })
    }

    /// After every storage call: give each file the real code wrote or touched the next logical mtime.
    fn restamp(&mut self) {
        let (mut listing, mut dirs) = (vec![], vec![]);
        walk(&self.root.clone(), &self.root.clone(), &mut listing, &mut dirs);
        listing.sort();
        for (rel, path) in listing {
            let m = std::fs::symlink_metadata(&path).unwrap();
            let mt = FileTime::from_last_modification_time(&m).unix_seconds();
            if !(BASE..BASE + RANGE).contains(&mt) {
                self.clock += 1;
                set_file_mtime(&path, FileTime::from_unix_time(BASE + self.clock, 0)).unwrap();
                self.touched.insert(rel);
            }
        }
    }

    fn get(&mut self, k: &str) -> &'static str {
        let r = self.get_raw(k);
        self.restamp();
        r
    }
    fn put(&mut self, k: &str, size: u64, cid: u64) -> &'static str {
        let r = self.put_raw(k, size, cid);
        if r == "ok" {
            self.wrote.insert(format!("{}/{}/{}", &k[0..1], &k[1..2], k).into_bytes(), cid);
        }
        self.restamp();
        r
    }
    fn ppget(&mut self, k: &str) -> &'static str {
        let r = self.ppget_raw(k);
        self.restamp();
        r
    }
    fn ppput(&mut self, k: &str) -> &'static str {
        let r = self.ppput_raw(k);
        self.restamp();
        r
    }

    /// The storage calls of one request, in the order compiler/c.rs `generate_hash_key` and
    /// compiler/compiler.rs `get_cached_or_compile` make them.
    fn req(&mut self, op: &Sx) -> Vec<&'static str> {
        let k = op.arg(1).str();
        let ppk = op.arg(2).str();
        let (size, cid) = (op.arg(3).u64(), op.arg(4).u64());
        let f = |i: usize| op.arg(i).as_bool();
        let (ppon, recache, ppmatch, ppupd, preok, compok) = (f(5), f(6), f(7), f(8), f(9), f(10));
        let mut outs = vec![];
        let mut direct = false;
        if ppon && !recache {
            let r = self.ppget(&ppk);
            outs.push(r);
            if r == "found" {
                let mut update_failed = false;
                if ppupd {
                    let r2 = self.ppput(&ppk);
                    outs.push(r2);
                    update_failed = r2 != "ok";
                }
                direct = !update_failed && ppmatch;
            }
        }
        if !direct {
            if !preok {
                outs.push("preprocess_failed");
                return outs;
            }
            if ppon {
                outs.push(self.ppput(&ppk));
            }
        }
        if !recache {
            let r = self.get(&k);
            outs.push(r);
            if r == "hit" {
                return outs;
            }
        }
        if !compok {
            outs.push("compile_failed");
            return outs;
        }
        outs.push(self.put(&k, size, cid));
        outs
    }

    fn apply(&mut self, op: &Sx) -> Vec<&'static str> {
        match op.tag().as_str() {
            "get" => vec![self.get(&op.arg(1).str())],
            "put" => vec![self.put(&op.arg(1).str(), op.arg(2).u64(), op.arg(3).u64())],
            "ppget" => vec![self.ppget(&op.arg(1).str())],
            "ppput" => vec![self.ppput(&op.arg(1).str())],
            "restart" => {
                self.open(op.arg(1).as_bool(), op.arg(2).as_bool(), op.arg(3).u64());
                vec!["restarted"]
            }
            "req" => self.req(op),
            _ => vec!["bad_op"],
        }
    }

    fn cid_of(&self, rel: &[u8], bytes: &[u8]) -> Sx {
        if rel.starts_with(PP_PREFIX) && bytes == pp_default_bytes().as_slice() {
            return Sx::n(0u64);
        }
        let expected = self.wrote.get(rel).copied();
        for c in expected.iter().chain(self.cids.iter()) {
            if content(rel, *c, bytes.len()) == bytes {
                return Sx::n(*c);
            }
        }
        Sx::B(blake3::hash(bytes).as_bytes().to_vec())
    }

    fn observe(&mut self, res: &[&str]) -> Sx {
        self.restamp();
        // touched = written or mtime-bumped during this item and still there
        let touched: Vec<Sx> = std::mem::take(&mut self.touched)
            .into_iter()
            .filter(|rel| self.root.join(OsStr::from_bytes(rel)).exists())
            .map(Sx::B)
            .collect();
        let (mut listing, mut dirs) = (vec![], vec![]);
        walk(&self.root.clone(), &self.root.clone(), &mut listing, &mut dirs);
        listing.sort();
        dirs.sort();
        let mut files = vec![];
        let mut raw = blake3::Hasher::new();
        for (rel, path) in listing {
            let m = std::fs::symlink_metadata(&path).unwrap();
            let bytes = std::fs::read(&path).unwrap_or_default();
            raw.update(&(rel.len() as u64).to_le_bytes());
            raw.update(&rel);
            raw.update(&m.len().to_le_bytes());
            raw.update(blake3::hash(&bytes).as_bytes());
            let logical = FileTime::from_last_modification_time(&m).unix_seconds() - BASE;
            let cid = self.cid_of(&rel, &bytes);
            files.push(Sx::L(vec![Sx::B(rel), Sx::n(m.len()), Sx::N(logical as u128), cid]));
        }
        for d in &dirs {
            raw.update(b"dir");
            raw.update(d);
        }
        let idx = match &self.disk {
            Some(d) => d.verif_indexes(),
            None => [None, None],
        };
        let enc = |o: &Option<Vec<(std::ffi::OsString, u64)>>, prefix: &[u8]| match o {
            None => Sx::L(vec![]),
            Some(v) => Sx::L(vec![Sx::L(
                v.iter()
                    .map(|(k, s)| {
                        let mut p = prefix.to_vec();
                        p.extend_from_slice(k.as_bytes());
                        Sx::L(vec![Sx::B(p), Sx::n(*s)])
                    })
                    .collect(),
            )]),
        };
        Sx::L(vec![
            Sx::L(res.iter().map(|r| Sx::sym(r)).collect()),
            Sx::L(touched),
            enc(&idx[0], b""),
            enc(&idx[1], PP_PREFIX),
            Sx::L(files),
            Sx::L(dirs.into_iter().map(Sx::B).collect()),
            Sx::B(raw.finalize().as_bytes().to_vec()),
        ])
    }
}

fn run_ro(case: &Sx) -> Sx {
    let td = tempfile::Builder::new().prefix("vh-c15-").tempdir_in("/dev/shm").unwrap();
    let root = td.path().join("cache");
    std::fs::create_dir_all(&root).unwrap();
    let mut cids = BTreeSet::new();
    let mut wrote = std::collections::BTreeMap::new();
    for f in case.arg(4).list() {
        let rel = f.arg(0).bytes();
        let p = root.join(OsStr::from_bytes(rel));
        std::fs::create_dir_all(p.parent().unwrap()).unwrap();
        std::fs::write(&p, content(rel, f.arg(3).u64(), f.arg(1).u64() as usize)).unwrap();
        set_file_mtime(&p, FileTime::from_unix_time(BASE + f.arg(2).u64() as i64, 0)).unwrap();
        cids.insert(f.arg(3).u64());
        wrote.insert(rel.to_vec(), f.arg(3).u64());
    }
    for op in case.arg(5).list() {
        match op.tag().as_str() {
            "put" => {
                cids.insert(op.arg(3).u64());
            }
            "req" => {
                cids.insert(op.arg(4).u64());
            }
            _ => {}
        }
    }
    let rt = tokio::runtime::Builder::new_multi_thread().worker_threads(1).enable_all().build().unwrap();
    let mut w = World { rt, root, disk: None, storage: None, clock: 1000, cids, ppsz: case.arg(3).u64(), touched: BTreeSet::new(), wrote };
    w.open(case.arg(0).as_bool(), case.arg(1).as_bool(), case.arg(2).u64());
    let mut out = vec![w.observe(&["init"])];
    let mut dead: Option<&'static str> = None;
    for op in case.arg(5).list() {
        if let Some(how) = dead {
            out.push(Sx::L(vec![Sx::sym(how)]));
            continue;
        }
        match catch(|| w.apply(op)) {
            Ok(r) => out.push(w.observe(&r)),
            Err(msg) => {
                let how = if msg == HUNG { "hung" } else { "panic" };
                dead = Some(how);
                out.push(Sx::L(vec![Sx::sym(how)]));
            }
        }
    }
    if dead == Some("hung") {
        // a thread of the runtime is stuck for good: dropping the runtime would wait for it
        std::mem::forget(w);
    } else {
        w.storage = None;
        w.disk = None;
    }
    Sx::L(out)
}

// ------------------------------------------------------------------ conc leg

/// Simultaneous lookups right after a read-only cache was started over a directory whose scan takes a
/// while ([ballast] empty directories, which the stores walk but never index): the thread the schedule
/// names first starts, the others follow 3 ms later while it is still opening the store.  Then the same
/// lookups once more, one after the other.  Prints the answers and whether the tree is unchanged.
fn run_conc(case: &Sx) -> Sx {
    let td = tempfile::Builder::new().prefix("vh-c15k-").tempdir_in("/dev/shm").unwrap();
    let root = td.path().join("cache");
    std::fs::create_dir_all(&root).unwrap();
    for f in case.arg(2).list() {
        let rel = f.arg(0).bytes();
        let p = root.join(OsStr::from_bytes(rel));
        std::fs::create_dir_all(p.parent().unwrap()).unwrap();
        std::fs::write(&p, content(rel, f.arg(3).u64(), f.arg(1).u64() as usize)).unwrap();
        set_file_mtime(&p, FileTime::from_unix_time(BASE + f.arg(2).u64() as i64, 0)).unwrap();
    }
    let ballast = case.arg(6).u64();
    for i in 0..ballast {
        let sub = if i % 2 == 0 { "zz" } else { "preprocessor/zz" };
        std::fs::create_dir_all(root.join(format!("{}/{:03}/d{}", sub, i % 512, i))).unwrap();
    }
    let snapshot = |root: &Path| {
        let (mut files, mut dirs) = (vec![], vec![]);
        walk(root, root, &mut files, &mut dirs);
        let mut l: Vec<(Vec<u8>, u64, Vec<u8>)> = files
            .into_iter()
            .map(|(rel, p)| {
                let b = std::fs::read(&p).unwrap_or_default();
                (rel, b.len() as u64, blake3::hash(&b).as_bytes().to_vec())
            })
            .collect();
        l.sort();
        dirs.sort();
        (l, dirs)
    };
    let before = snapshot(&root);
    let rt = tokio::runtime::Builder::new_multi_thread().worker_threads(2).enable_all().build().unwrap();
    let disk: Arc<dyn Storage> = Arc::new(DiskCache::new(
        &root,
        case.arg(1).u64(),
        rt.handle(),
        PreprocessorCacheModeConfig::activated(),
        CacheMode::ReadOnly,
    ));
    let st: Arc<dyn Storage> = if case.arg(0).as_bool() { Arc::new(ReadOnlyStorage(disk)) } else { disk };
    let lookups: Vec<(bool, String)> =
        case.arg(3).list().iter().map(|o| (o.tag() == "ppget", o.arg(1).str())).collect();
    async fn one(st: Arc<dyn Storage>, pp: bool, k: String) -> &'static str {
        if pp {
            match st.get_preprocessor_cache_entry(&k).await {
                Ok(Some(_)) => "found",
                Ok(None) => "none",
                Err(_) => "err",
            }
        } else {
            match st.get(&k).await {
                Ok(Cache::Hit(_)) => "hit",
                Ok(Cache::Miss) => "miss",
                Ok(_) => "other",
                Err(_) => "err",
            }
        }
    }
    let leader = case.arg(4).list().first().map(|t| t.u64() as usize).unwrap_or(0).min(lookups.len().saturating_sub(1));
    let spawn = |pp: bool, k: String| {
        let (tx, rx) = std::sync::mpsc::channel();
        let st = st.clone();
        rt.spawn(async move {
            let _ = tx.send(one(st, pp, k).await);
        });
        rx
    };
    let mut handles: Vec<Option<std::sync::mpsc::Receiver<&'static str>>> = (0..lookups.len()).map(|_| None).collect();
    if !lookups.is_empty() {
        let (pp, k) = lookups[leader].clone();
        handles[leader] = Some(spawn(pp, k));
        std::thread::sleep(std::time::Duration::from_millis(3));
    }
    for (i, (pp, k)) in lookups.iter().enumerate() {
        if i != leader {
            handles[i] = Some(spawn(*pp, k.clone()));
        }
    }
    let mut hung = false;
    let deadline = std::time::Instant::now() + OP_TIMEOUT;
    let burst: Vec<Sx> = handles
        .into_iter()
        .map(|h| {
            let left = deadline.saturating_duration_since(std::time::Instant::now());
            match h.unwrap().recv_timeout(left) {
                Ok(r) => Sx::sym(r),
                Err(std::sync::mpsc::RecvTimeoutError::Timeout) => {
                    hung = true;
                    Sx::sym("hung")
                }
                Err(_) => Sx::sym("panic"),
            }
        })
        .collect();
    let again: Vec<Sx> = lookups
        .iter()
        .map(|(pp, k)| {
            if hung {
                return Sx::sym("hung");
            }
            match catch(|| call(&rt, one(st.clone(), *pp, k.clone()))) {
                Ok(r) => Sx::sym(r),
                Err(msg) => {
                    hung = msg == HUNG;
                    Sx::sym(if hung { "hung" } else { "panic" })
                }
            }
        })
        .collect();
    drop(st);
    let after = snapshot(&root);
    if hung {
        std::mem::forget(rt);
    }
    Sx::L(vec![Sx::L(burst), Sx::L(again), Sx::bool(before == after)])
}

// ------------------------------------------------------------------ config leg

const DISK_VARS: [&str; 4] = ["SCCACHE_DIR", "SCCACHE_CACHE_SIZE", "SCCACHE_DIRECT", "SCCACHE_LOCAL_RW_MODE"];

fn opt(x: &Sx) -> Option<&Sx> {
    x.list().first()
}

fn render_toml(f: &Sx) -> String {
    // f = ( disk dir size mode pp )
    let mut s = String::from("[cache.disk]\n");
    if let Some(d) = opt(f.arg(1)) {
        s += &format!("dir = \"{}\"\n", d.str());
    }
    if let Some(n) = opt(f.arg(2)) {
        s += &format!("size = {}\n", n.u64());
    }
    if let Some(m) = opt(f.arg(3)) {
        s += &format!("rw_mode = \"{}\"\n", if m.is_sym("ro") { "READ_ONLY" } else { "READ_WRITE" });
    }
    if let Some(pp) = opt(f.arg(4)) {
        s += "[cache.disk.preprocessor_cache_mode]\n";
        let names = [
            "use_preprocessor_cache_mode",
            "file_stat_matches",
            "use_ctime_for_stat",
            "ignore_time_macros",
            "skip_system_headers",
            "hash_working_directory",
        ];
        for (i, n) in names.iter().enumerate() {
            if let Some(b) = opt(pp.arg(i)) {
                s += &format!("{} = {}\n", n, b.as_bool());
            }
        }
    }
    s
}

fn run_config(case: &Sx) -> Sx {
    let td = tempfile::Builder::new().prefix("vh-c15c-").tempdir_in("/dev/shm").unwrap();
    let conf = td.path().join("config");
    let file = case.arg(0);
    match file.tag().as_str() {
        "nofile" => {}
        "nosection" => std::fs::write(&conf, "# nothing about the disk cache\n").unwrap(),
        _ => std::fs::write(&conf, render_toml(file)).unwrap(),
    }
    // single-threaded helper: the process environment is this case's environment
    let stale: Vec<_> = std::env::vars_os()
        .map(|(k, _)| k)
        .filter(|k| k.as_bytes().starts_with(b"SCCACHE_"))
        .collect();
    for k in stale {
        std::env::remove_var(k);
    }
    std::env::set_var("SCCACHE_CONF", &conf);
    for (i, name) in DISK_VARS.iter().enumerate() {
        if let Some(v) = opt(case.arg(1).arg(i)) {
            std::env::set_var(name, OsStr::from_bytes(v.bytes()));
        }
    }
    let cfg = match Config::load() {
        Ok(c) => c,
        Err(_) => return Sx::L(vec![Sx::sym("error")]),
    };
    let d = &cfg.fallback_cache;
    let dir = if d.dir == sccache::config::default_disk_cache_dir() {
        Sx::sym("default")
    } else {
        Sx::B(d.dir.as_os_str().as_bytes().to_vec())
    };
    let pp = d.preprocessor_cache_mode;
    let rt = tokio::runtime::Builder::new_multi_thread().worker_threads(1).enable_all().build().unwrap();
    let (st_mode, st_pp) = match storage_from_config(&cfg, rt.handle()) {
        Ok(st) => (
            match rt.block_on(st.check()) {
                Ok(CacheMode::ReadOnly) => "ro",
                Ok(CacheMode::ReadWrite) => "rw",
                Err(_) => "err",
            },
            st.preprocessor_cache_mode_config().use_preprocessor_cache_mode,
        ),
        Err(_) => ("err", false),
    };
    Sx::L(vec![
        Sx::sym("ok"),
        dir,
        Sx::n(d.size),
        Sx::sym(if d.rw_mode == CacheModeConfig::ReadOnly { "ro" } else { "rw" }),
        Sx::L(
            [
                pp.use_preprocessor_cache_mode,
                pp.file_stat_matches,
                pp.use_ctime_for_stat,
                pp.ignore_time_macros,
                pp.skip_system_headers,
                pp.hash_working_directory,
            ]
            .iter()
            .map(|b| Sx::bool(*b))
            .collect(),
        ),
        Sx::sym(st_mode),
        Sx::bool(st_pp),
    ])
}

/// The log level is part of the configuration: with VERIF_LOG=<level> a logger that formats every record it is
/// given (and throws the text away) is installed at that level, so that the arguments of the `trace!` / `debug!`
/// calls on the storage paths are evaluated exactly as under SCCACHE_LOG=<level>.
struct SinkLogger;
impl log::Log for SinkLogger {
    fn enabled(&self, _: &log::Metadata) -> bool {
        true
    }
    fn log(&self, record: &log::Record) {
        let _ = format!("{} {}", record.target(), record.args());
    }
    fn flush(&self) {}
}
static SINK_LOGGER: SinkLogger = SinkLogger;

fn install_logger() {
    if let Ok(level) = std::env::var("VERIF_LOG") {
        if let Ok(filter) = level.parse::<log::LevelFilter>() {
            let _ = log::set_logger(&SINK_LOGGER);
            log::set_max_level(filter);
        }
    }
}

fn main() {
    vh::quiet_panics();
    install_logger();
    let leg = std::env::args().nth(1).unwrap_or_default();
    match leg.as_str() {
        "ro" => vh::run_lines(run_ro),
        "config" => vh::run_lines(run_config),
        "conc" => vh::run_lines(run_conc),
        _ => {
            eprintln!("usage: c15 ro|config|conc");
            std::process::exit(2);
        }
    }
}
