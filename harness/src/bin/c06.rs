//! c06 — steps the REAL `DiskCache::put` / `DiskCache::get` (src/cache/disk.rs) through a
//! given interleaving, using the named sync points of hook H2, then "kills the server"
//! (the calls still in flight are never resumed, the cache object is abandoned) and opens
//! a fresh `DiskCache` on the same directory.
//!
//! legs:  `disk`  case   = ( cap ( (key pid plen elen mtime) ... ) ( thread ... ) ( tid ... ) )
//!                thread = ( put key pid plen elen nchunks fail ) | ( get key )
//!                         fail = 1: the real write_all is made to fail after elen/2 bytes (RLIMIT_FSIZE, EFBIG)
//!                result = ( ( r ... ) ( o ... ) ntmp size ( o ... ) ntmp size )
//!                  r (put) = ok | too_large | err | unfinished | stuck
//!                  r (get), o = miss | ( hit pid ) | torn | ( foreign pid ) | err | unfinished | stuck
//!                  first  ( o ... ) ntmp size : lookups of every key of the case (sorted) through the
//!                         still-live cache after the schedule, temp files on disk, current_size;
//!                  second ( o ... ) ntmp size : the same through a fresh DiskCache on the directory.
//!        `size`  case   = ( pid plen )     result = length of the real cache entry for that payload
//!
//! One model step of thread t = release the real call t from the sync point it is parked at and
//! wait until it parks at its next one or returns.  Parked calls are told apart by the OS thread
//! they run on (a `spawn_blocking` closure stays on one pool thread), bound when the call is started.
use sccache::lru_disk_cache::Error as LruError;
use sccache::verif_hooks as hooks;
use sccache::verif_hooks::cache::disk::DiskCache;
use sccache::verif_hooks::cache::{Cache, CacheMode, CacheWrite, PreprocessorCacheModeConfig, Storage};
use std::collections::HashMap;
use std::io::Write;
use std::os::unix::ffi::OsStrExt;
use std::path::{Path, PathBuf};
use std::sync::{Arc, Condvar, Mutex};
use std::thread::ThreadId;
use std::time::{Duration, Instant};
use vh::{catch, Sx};

const BASE: i64 = 1_000_000_000;
const STEP_TIMEOUT: Duration = Duration::from_secs(20);

fn payload(pid: u64, plen: u64) -> Vec<u8> {
    let mut x: u64 = pid.wrapping_mul(2654435761).wrapping_add(12345);
    (0..plen)
        .map(|_| {
            x = x.wrapping_mul(6364136223846793005).wrapping_add(1442695040888963407);
            (x >> 33) as u8
        })
        .collect()
}

fn entry_for(pid: u64, plen: u64) -> CacheWrite {
    let mut w = CacheWrite::new();
    let p = payload(pid, plen);
    w.put_object("obj", &mut &p[..], None).expect("put_object");
    w
}

fn make_key_path(key: &str) -> PathBuf {
    Path::new(&key[0..1]).join(&key[1..2]).join(key)
}

// ------------------------------------------------------------------ controller

#[derive(Default)]
struct CtlState {
    /// OS thread -> model thread
    bound: HashMap<ThreadId, usize>,
    /// model thread the next unbound parked call belongs to
    binding: Option<usize>,
    /// model thread -> (sync point it is parked at, park sequence number)
    parked: HashMap<usize, (String, u64)>,
    go: HashMap<usize, bool>,
    done: HashMap<usize, Sx>,
    free_run: bool,
    seq: u64,
}

struct Ctl {
    st: Mutex<CtlState>,
    cv: Condvar,
}

impl Ctl {
    fn at_point(&self, point: &str) {
        if point == "put.committed" {
            return; // the commit step ends when the call returns
        }
        let me = std::thread::current().id();
        let mut st = self.st.lock().unwrap();
        if st.free_run {
            return;
        }
        let t = match st.bound.get(&me) {
            Some(t) => *t,
            None => match st.binding.take() {
                Some(t) => {
                    st.bound.insert(me, t);
                    t
                }
                None => return, // an observation made by the harness itself
            },
        };
        st.seq += 1;
        let seq = st.seq;
        st.parked.insert(t, (point.to_string(), seq));
        st.go.insert(t, false);
        self.cv.notify_all();
        while !st.free_run && !st.go.get(&t).copied().unwrap_or(false) {
            st = self.cv.wait(st).unwrap();
        }
        st.parked.remove(&t);
        st.go.insert(t, false);
    }

    fn finish(&self, t: usize, r: Sx) {
        let mut st = self.st.lock().unwrap();
        st.done.insert(t, r);
        st.bound.retain(|_, v| *v != t);
        self.cv.notify_all();
    }

    /// wait until thread t is parked (at a park newer than `after`) or has returned
    fn wait_parked_or_done(&self, t: usize, after: u64) -> bool {
        let deadline = Instant::now() + STEP_TIMEOUT;
        let mut st = self.st.lock().unwrap();
        loop {
            if st.done.contains_key(&t) {
                return true;
            }
            if let Some((_, s)) = st.parked.get(&t) {
                if *s > after {
                    return true;
                }
            }
            let now = Instant::now();
            if now >= deadline {
                return false;
            }
            st = self.cv.wait_timeout(st, deadline - now).unwrap().0;
        }
    }

    fn release(&self, t: usize) -> u64 {
        let mut st = self.st.lock().unwrap();
        let seq = st.parked.get(&t).map(|p| p.1).unwrap_or(st.seq);
        st.go.insert(t, true);
        self.cv.notify_all();
        seq
    }

    fn is_done(&self, t: usize) -> bool {
        self.st.lock().unwrap().done.contains_key(&t)
    }

    fn point_of(&self, t: usize) -> Option<String> {
        self.st.lock().unwrap().parked.get(&t).map(|p| p.0.clone())
    }
}

// ------------------------------------------------------------------ one case

#[derive(Clone)]
struct Known {
    key: String,
    pid: u64,
    plen: u64,
}

fn classify_hit(known: &[Known], key: &str, data: &[u8]) -> Sx {
    for k in known.iter().filter(|k| k.key == key) {
        if payload(k.pid, k.plen) == data {
            return Sx::L(vec![Sx::sym("hit"), Sx::n(k.pid)]);
        }
    }
    for k in known {
        if payload(k.pid, k.plen) == data {
            return Sx::L(vec![Sx::sym("foreign"), Sx::n(k.pid)]);
        }
    }
    Sx::sym("torn")
}

fn do_get(h: &tokio::runtime::Handle, cache: &DiskCache, known: &[Known], key: &str) -> Sx {
    match catch(|| h.block_on(cache.get(key))) {
        Ok(Ok(Cache::Hit(mut r))) => {
            let mut data = vec![];
            match r.get_object("obj", &mut data) {
                Ok(_) => classify_hit(known, key, &data),
                Err(_) => Sx::sym("torn"),
            }
        }
        Ok(Ok(Cache::Miss)) => Sx::sym("miss"),
        Ok(Ok(_)) => Sx::sym("err"),
        Ok(Err(_)) => Sx::sym("err"),
        Err(_) => Sx::sym("err"),
    }
}

fn do_put(h: &tokio::runtime::Handle, cache: &DiskCache, key: &str, pid: u64, plen: u64) -> Sx {
    match catch(|| h.block_on(cache.put(key, entry_for(pid, plen)))) {
        Ok(Ok(_)) => Sx::sym("ok"),
        Ok(Err(e)) => match e.downcast_ref::<LruError>() {
            Some(LruError::FileTooLarge) => Sx::sym("too_large"),
            _ => Sx::sym("err"),
        },
        Err(_) => Sx::sym("err"),
    }
}

fn temp_files(root: &Path) -> Vec<PathBuf> {
    fn walk(d: &Path, out: &mut Vec<PathBuf>) {
        if let Ok(rd) = std::fs::read_dir(d) {
            for e in rd.flatten() {
                let p = e.path();
                match e.file_type() {
                    Ok(t) if t.is_dir() => walk(&p, out),
                    Ok(t) if t.is_file() => {
                        if p.file_name().unwrap().as_bytes().starts_with(b".sccachetmp") {
                            out.push(p)
                        }
                    }
                    _ => {}
                }
            }
        }
    }
    let mut out = vec![];
    walk(root, &mut out);
    out.sort();
    out
}

fn size_of(h: &tokio::runtime::Handle, cache: &DiskCache) -> Sx {
    match catch(|| h.block_on(cache.current_size())) {
        Ok(Ok(Some(n))) => Sx::n(n),
        Ok(Ok(None)) => Sx::sym("none"),
        _ => Sx::sym("err"),
    }
}

enum Th {
    Put { key: String, pid: u64, plen: u64, elen: u64, chunks: u64, fail: bool },
    Get { key: String },
}

fn keystr(x: &Sx) -> String {
    String::from_utf8_lossy(x.bytes()).into_owned()
}

fn run_case(case: &Sx) -> Sx {
    let cap = case.arg(0).u64();
    let td = tempfile::Builder::new().prefix("vh-c06-").tempdir_in("/dev/shm").unwrap();
    let root = td.path().join("cache");
    std::fs::create_dir_all(&root).unwrap();

    let mut known: Vec<Known> = vec![];
    let mut keys: Vec<String> = vec![];
    for f in case.arg(1).list() {
        let (key, pid, plen, elen, mt) = (keystr(f.arg(0)), f.arg(1).u64(), f.arg(2).u64(), f.arg(3).u64(), f.arg(4).u64());
        if key.len() < 2 {
            return Sx::L(vec![Sx::sym("bad_key")]);
        }
        let bytes = entry_for(pid, plen).finish().unwrap();
        if bytes.len() as u64 != elen {
            return Sx::L(vec![Sx::sym("bad_size"), Sx::n(pid), Sx::usize(bytes.len())]);
        }
        // a name starting with '.' is a leftover file in the root itself (temp files), not a cache key
        let dot = key.starts_with('.');
        let p = if dot { root.join(&key) } else { root.join(make_key_path(&key)) };
        std::fs::create_dir_all(p.parent().unwrap()).unwrap();
        std::fs::write(&p, &bytes).unwrap();
        filetime::set_file_mtime(&p, filetime::FileTime::from_unix_time(BASE + mt as i64, 0)).unwrap();
        known.push(Known { key: key.clone(), pid, plen });
        if !dot {
            keys.push(key);
        }
    }
    let mut threads = vec![];
    for t in case.arg(2).list() {
        let tag = t.tag();
        let key = keystr(t.arg(1));
        if key.len() < 2 {
            return Sx::L(vec![Sx::sym("bad_key")]);
        }
        keys.push(key.clone());
        if tag == "put" {
            let (pid, plen, elen, chunks) = (t.arg(2).u64(), t.arg(3).u64(), t.arg(4).u64(), t.arg(5).u64().max(1));
            let fail = t.arg(6).u64() != 0;
            let real = entry_for(pid, plen).finish().unwrap().len() as u64;
            if real != elen {
                return Sx::L(vec![Sx::sym("bad_size"), Sx::n(pid), Sx::n(real)]);
            }
            known.push(Known { key: key.clone(), pid, plen });
            threads.push(Th::Put { key, pid, plen, elen, chunks, fail });
        } else {
            threads.push(Th::Get { key });
        }
    }
    keys.sort();
    keys.dedup();
    let known = Arc::new(known);

    let rt = tokio::runtime::Builder::new_multi_thread()
        .worker_threads(1)
        .max_blocking_threads(32)
        .enable_all()
        .build()
        .unwrap();
    let handle = rt.handle().clone();
    let cache = Arc::new(DiskCache::new(
        &root,
        cap,
        &handle,
        PreprocessorCacheModeConfig::default(),
        CacheMode::ReadWrite,
    ));
    let ctl = Arc::new(Ctl { st: Mutex::new(CtlState::default()), cv: Condvar::new() });
    {
        let c = ctl.clone();
        hooks::set_sync_controller(Some(Box::new(move |point: &str, _key: &Path, _len: u64| c.at_point(point))));
    }

    // start the calls one at a time; each parks at its first sync point and is bound to its model thread
    let mut joins = vec![];
    let mut stuck: Vec<bool> = vec![false; threads.len()];
    for (i, th) in threads.iter().enumerate() {
        ctl.st.lock().unwrap().binding = Some(i);
        let (c, h, k, cch) = (ctl.clone(), handle.clone(), known.clone(), cache.clone());
        let j = match th {
            Th::Put { key, pid, plen, .. } => {
                let (key, pid, plen) = (key.clone(), *pid, *plen);
                std::thread::spawn(move || {
                    let r = do_put(&h, &cch, &key, pid, plen);
                    c.finish(i, r);
                })
            }
            Th::Get { key } => {
                let key = key.clone();
                std::thread::spawn(move || {
                    let r = do_get(&h, &cch, &k, &key);
                    c.finish(i, r);
                })
            }
        };
        joins.push(j);
        if !ctl.wait_parked_or_done(i, 0) {
            stuck[i] = true;
        }
        ctl.st.lock().unwrap().binding = None;
    }

    // the schedule
    let mut temp_of: HashMap<usize, PathBuf> = HashMap::new();
    let mut seen_tmp: Vec<PathBuf> = vec![];
    let mut chunks_done: Vec<u64> = vec![0; threads.len()];
    for s in case.arg(3).list() {
        let t = s.u64() as usize;
        if t >= threads.len() || stuck[t] || ctl.is_done(t) {
            continue;
        }
        let point = ctl.point_of(t).unwrap_or_default();
        let mut limit = None;
        if let Th::Put { chunks, fail, elen, .. } = &threads[t] {
            if point == "put.reserved" {
                chunks_done[t] += 1;
                if *fail {
                    // the model writes `chunks` pieces and then sees the failure: the real write_all (which
                    // fails half way) and the abandon that follows happen with the model's Abandon step
                    if chunks_done[t] <= *chunks {
                        continue;
                    }
                    limit = Some(*elen / 2);
                } else if chunks_done[t] < *chunks {
                    continue; // an earlier chunk of the model's write: the real write happens with the last one
                }
            }
        }
        if let Some(n) = limit {
            set_fsize_limit(Some(n));
        }
        let seq = ctl.release(t);
        let arrived = ctl.wait_parked_or_done(t, seq);
        if limit.is_some() {
            set_fsize_limit(None);
        }
        if !arrived {
            stuck[t] = true;
            continue;
        }
        if point == "put.before_reserve" {
            for p in temp_files(&root) {
                if !seen_tmp.contains(&p) {
                    seen_tmp.push(p.clone());
                    if ctl.point_of(t).as_deref() == Some("put.reserved") {
                        temp_of.insert(t, p);
                    }
                }
            }
        }
    }

    // results of the calls
    let mut results = vec![];
    {
        let st = ctl.st.lock().unwrap();
        for i in 0..threads.len() {
            results.push(if stuck[i] {
                Sx::sym("stuck")
            } else {
                st.done.get(&i).cloned().unwrap_or_else(|| Sx::sym("unfinished"))
            });
        }
    }
    // a store that the model has interrupted in the middle of its write: leave that much of the entry
    for (t, th) in threads.iter().enumerate() {
        if let Th::Put { pid, plen, elen, chunks, fail, .. } = th {
            let all = *chunks + if *fail { 1 } else { 0 };
            if ctl.point_of(t).as_deref() == Some("put.reserved") && chunks_done[t] > 0 && chunks_done[t] < all {
                if let Some(p) = temp_of.get(&t) {
                    let bytes = entry_for(*pid, *plen).finish().unwrap();
                    let total = if *fail { *elen / 2 } else { *elen };
                    let n = if chunks_done[t] >= *chunks { total } else { (total / *chunks) * chunks_done[t] } as usize;
                    if let Ok(mut f) = std::fs::OpenOptions::new().write(true).open(p) {
                        let _ = f.write_all(&bytes[..n.min(bytes.len())]);
                    }
                }
            }
        }
    }

    let observe = |c: &DiskCache| -> Vec<Sx> {
        let obs: Vec<Sx> = keys.iter().map(|k| do_get(&handle, c, &known, k)).collect();
        vec![Sx::L(obs), Sx::usize(temp_files(&root).len()), size_of(&handle, c)]
    };
    let mut out = vec![Sx::L(results)];
    out.extend(observe(&cache));

    // the server dies: nothing in flight is resumed, nothing is cleaned up; a new server opens the directory
    let cache2 = DiskCache::new(&root, cap, &handle, PreprocessorCacheModeConfig::default(), CacheMode::ReadWrite);
    out.extend(observe(&cache2));

    // tidy up: let the abandoned calls run out (their results are ignored)
    {
        let mut st = ctl.st.lock().unwrap();
        st.free_run = true;
        ctl.cv.notify_all();
    }
    for (i, j) in joins.into_iter().enumerate() {
        if !stuck[i] {
            let _ = j.join();
        }
    }
    hooks::set_sync_controller(None);
    drop(cache2);
    drop(cache);
    rt.shutdown_timeout(Duration::from_secs(5));
    Sx::L(out)
}

/// lower (Some) or restore (None) the soft file-size limit of the process: a write beyond it fails with EFBIG
fn set_fsize_limit(n: Option<u64>) {
    unsafe {
        let mut r: libc::rlimit = std::mem::zeroed();
        libc::getrlimit(libc::RLIMIT_FSIZE, &mut r);
        r.rlim_cur = match n {
            Some(n) => n as libc::rlim_t,
            None => r.rlim_max,
        };
        libc::setrlimit(libc::RLIMIT_FSIZE, &r);
    }
}

fn run_size(case: &Sx) -> Sx {
    let n = entry_for(case.arg(0).u64(), case.arg(1).u64()).finish().unwrap().len();
    Sx::usize(n)
}

fn main() {
    vh::quiet_panics();
    unsafe {
        libc::signal(libc::SIGXFSZ, libc::SIG_IGN);
    }
    let leg = std::env::args().nth(1).unwrap_or_default();
    match leg.as_str() {
        "size" => vh::run_lines(run_size),
        _ => vh::run_lines(run_case),
    }
}
