//! c06 — steps the REAL `DiskCache` (src/cache/disk.rs) — both of its stores: the result store
//! (`put` / `get`) and the nested preprocessor-entry store over `<root>/preprocessor`
//! (`put_preprocessor_cache_entry` / `get_preprocessor_cache_entry`) — through a given interleaving,
//! then "kills the server" (the calls still in flight are never resumed, the cache object is
//! abandoned) and opens a fresh `DiskCache` on the same directory.
//!
//! legs:  `disk`  case   = ( cap order ( init ... ) ( thread ... ) ( tid ... ) [ ( key ... ) [ ( i kind m ) ] ] )
//!                         optional 8th field: the NAME of the cache directory (default `cache`; e.g. `.sccache`)
//!                         optional ( i kind m ): lock-scope probe — the call stepped at schedule position i is parked
//!                         at its first utimensat (kind utimes) / unlink (kind unlink) of an entry file and the next m
//!                         steps are attempted inside that window; they just wait where the call holds the cache lock
//!                         optional last list: keys whose shard directory <root>/x/y is made a mount point (a tiny
//!                         tmpfs in a private mount namespace), so that rename(temp, final) fails with EXDEV;
//!                         the result is ( skipped ) where mounting is not possible
//!                init   = ( main key pid plen elen mtime ) | ( pp key pid plen elen mtime )
//!                       | ( raw path pid plen elen mtime )      any file, path relative to the root
//!                thread = ( put key pid plen elen nchunks fail ) | ( get key )
//!                       | ( pp_put key pid plen elen nchunks )   | ( pp_get key )
//!                         fail = 1: the real write_all is made to fail after elen/2 bytes (RLIMIT_FSIZE, EFBIG)
//!                order  = 0: observations look up the result store first, 1: the nested store first
//!                result = ( ( r ... ) OBS OBS ), OBS (flattened) =
//!                         ( main-lookup ... ) ( pp-lookup ... ) ntmp size main-index pp-index
//!                  r (put) = ok | too_large | err | unfinished | stuck
//!                  r (get), lookup = miss | ( hit pid ) | torn | ( foreign pid ) | err | unfinished | stuck
//!                  ntmp = `.sccachetmp*` files anywhere under the root; size = current_size;
//!                  index = none | ( ( path size ) ... ) sorted, paths relative to the cache root
//!                  (hook DiskCache::verif_indexes);
//!                  first OBS through the still-live cache after the schedule, second through a fresh
//!                  DiskCache on the directory.
//!        `size`  case   = ( pid plen ) | ( pp pid plen )    result = length of the real entry
//!
//! One model step of thread t = release the real call t from the point it is parked at and wait until
//! it parks at its next one or returns.  Result-store calls park at the H2 sync points of disk.rs.
//! The nested store's calls have no sync points in the code: a pp_put parks before the call and, after
//! its Reserve section, at its first write(2) to a `.sccachetmp*` file — `write` is interposed in this
//! binary for exactly that; a pp_get parks before the call and after it returned the open file.
//! Parked calls are told apart by the OS thread they run on.
//!
//! After every step the mtime of every entry file the real code touched is replaced by the next value
//! of a logical clock (as in c07.rs), so that the recency order a restarted store derives from mtimes is
//! the order of the schedule and not of the sandbox's coarse timestamps.
use sccache::lru_disk_cache::Error as LruError;
use sccache::verif_hooks as hooks;
use sccache::verif_hooks::cache::disk::DiskCache;
use sccache::verif_hooks::cache::{Cache, CacheMode, CacheWrite, PreprocessorCacheModeConfig, Storage};
use sccache::verif_hooks::compiler::PreprocessorCacheEntry;
use std::cell::Cell;
use std::collections::HashMap;
use std::io::{Read, Write};
use std::os::unix::ffi::OsStrExt;
use std::path::{Path, PathBuf};
use std::sync::{Arc, Condvar, Mutex};
use std::thread::ThreadId;
use std::time::{Duration, Instant};
use vh::{catch, Sx};

const BASE: i64 = 1_000_000_000;
const RANGE: i64 = 100_000_000;
const STEP_TIMEOUT: Duration = Duration::from_secs(20);

fn payload(pid: u64, plen: u64) -> Vec<u8> {
    let mut x: u64 = pid.wrapping_mul(2654435761).wrapping_add(12345);
    (0..plen)
        .map(|_| {
            x = x.wrapping_mul(6364136223846793005).wrapping_add(1442695040888963407);
            (x >> 33) as u8
        })
        .collect()
}

fn entry_for(pid: u64, plen: u64) -> CacheWrite {
    let mut w = CacheWrite::new();
    let p = payload(pid, plen);
    w.put_object("obj", &mut &p[..], None).expect("put_object");
    w
}

/// a preprocessor-cache entry that names `pid` and whose encoding grows with `plen`
fn pp_entry_for(pid: u64, plen: u64) -> PreprocessorCacheEntry {
    let mut e = PreprocessorCacheEntry::new();
    let name = format!("{:0width$}", pid, width = plen.max(1) as usize);
    e.add_result(std::time::SystemTime::now(), &name, std::iter::empty());
    e
}

fn pp_bytes(pid: u64, plen: u64) -> Vec<u8> {
    let mut v = vec![];
    pp_entry_for(pid, plen).serialize_to(&mut v).expect("serialize");
    v
}

fn make_key_path(key: &str) -> PathBuf {
    Path::new(&key[0..1]).join(&key[1..2]).join(key)
}

fn pp_key_path(key: &str) -> PathBuf {
    Path::new("preprocessor").join(&key[0..1]).join(&key[1..2]).join(&key[2..3]).join(key)
}

// ------------------------------------------------------------------ write(2) interposition

thread_local! {
    /// set by a pp_put thread around the real call: park at the first write to a temp file
    static PARK_ON_TEMP_WRITE: Cell<bool> = Cell::new(false);
}
static CUR_CTL: Mutex<Option<Arc<Ctl>>> = Mutex::new(None);

fn fd_is_temp_file(fd: libc::c_int) -> bool {
    let link = format!("/proc/self/fd/{}\0", fd);
    let mut buf = [0u8; 4096];
    let n = unsafe { libc::readlink(link.as_ptr() as *const libc::c_char, buf.as_mut_ptr() as *mut libc::c_char, buf.len()) };
    if n <= 0 {
        return false;
    }
    let path = &buf[..n as usize];
    path.windows(12).any(|w| w == b"/.sccachetmp")
}

/// Every `write` of this process comes through here (the std library is linked statically into the
/// binary, so its reference to `write` binds to this definition); it is the plain system call, except
/// that a pp_put thread is parked before its first write to its temp file.
#[no_mangle]
pub unsafe extern "C" fn write(fd: libc::c_int, buf: *const libc::c_void, n: libc::size_t) -> libc::ssize_t {
    let park = PARK_ON_TEMP_WRITE.try_with(|c| c.get()).unwrap_or(false);
    if park && fd_is_temp_file(fd) {
        let _ = PARK_ON_TEMP_WRITE.try_with(|c| c.set(false));
        let ctl = CUR_CTL.lock().ok().and_then(|g| g.clone());
        if let Some(c) = ctl {
            c.at_point("pp.reserved");
        }
    }
    libc::syscall(libc::SYS_write, fd, buf, n) as libc::ssize_t
}

/// A probe for lock scope: the controller may arm ONE (model thread, system call) pair; when that thread
/// reaches that call on an entry file, it parks there ("probe") and the controller tries to run the next
/// steps of the schedule inside the window.  Where the code makes the call under the cache lock (main: the
/// look-up, utimes and open of a lookup are one critical section, and so are eviction and unlink) those
/// steps simply block until the call is over; where it does not, they happen in the middle of it.
unsafe fn probe_hook(kind: &str, path: *const libc::c_char) {
    if path.is_null() {
        return;
    }
    let ctl = match CUR_CTL.lock() {
        Ok(g) => g.clone(),
        Err(_) => None,
    };
    let ctl = match ctl {
        Some(c) => c,
        None => return,
    };
    let bytes = std::ffi::CStr::from_ptr(path).to_bytes();
    if bytes.windows(12).any(|w| w == b"/.sccachetmp") {
        return;
    }
    let me = std::thread::current().id();
    {
        let mut st = ctl.st.lock().unwrap();
        let hit = match (&st.probe, st.bound.get(&me)) {
            (Some((t, k)), Some(b)) => t == b && k == kind,
            _ => false,
        };
        if !hit {
            return;
        }
        st.probe = None;
    }
    ctl.at_point("probe");
}

#[no_mangle]
pub unsafe extern "C" fn utimensat(
    dirfd: libc::c_int,
    path: *const libc::c_char,
    times: *const libc::timespec,
    flags: libc::c_int,
) -> libc::c_int {
    probe_hook("utimes", path);
    libc::syscall(libc::SYS_utimensat, dirfd, path, times, flags) as libc::c_int
}

#[no_mangle]
pub unsafe extern "C" fn unlink(path: *const libc::c_char) -> libc::c_int {
    probe_hook("unlink", path);
    libc::syscall(libc::SYS_unlinkat, libc::AT_FDCWD, path, 0) as libc::c_int
}

// ------------------------------------------------------------------ controller

#[derive(Default)]
struct CtlState {
    /// OS thread -> model thread
    bound: HashMap<ThreadId, usize>,
    /// model thread the next unbound parked call belongs to
    binding: Option<usize>,
    /// model thread -> (sync point it is parked at, park sequence number)
    parked: HashMap<usize, (String, u64)>,
    go: HashMap<usize, bool>,
    done: HashMap<usize, Sx>,
    free_run: bool,
    seq: u64,
    /// armed lock-scope probe: (model thread, "utimes" | "unlink")
    probe: Option<(usize, String)>,
}

struct Ctl {
    st: Mutex<CtlState>,
    cv: Condvar,
}

impl Ctl {
    fn at_point(&self, point: &str) {
        if point == "put.committed" {
            return; // the commit step ends when the call returns
        }
        let me = std::thread::current().id();
        let mut st = self.st.lock().unwrap();
        if st.free_run {
            return;
        }
        let t = match st.bound.get(&me) {
            Some(t) => *t,
            None => match st.binding.take() {
                Some(t) => {
                    st.bound.insert(me, t);
                    t
                }
                None => return, // an observation made by the harness itself
            },
        };
        st.seq += 1;
        let seq = st.seq;
        st.parked.insert(t, (point.to_string(), seq));
        st.go.insert(t, false);
        self.cv.notify_all();
        while !st.free_run && !st.go.get(&t).copied().unwrap_or(false) {
            st = self.cv.wait(st).unwrap();
        }
        st.parked.remove(&t);
        st.go.insert(t, false);
    }

    fn finish(&self, t: usize, r: Sx) {
        let mut st = self.st.lock().unwrap();
        st.done.insert(t, r);
        st.bound.retain(|_, v| *v != t);
        self.cv.notify_all();
    }

    /// wait until thread t is parked (at a park newer than `after`) or has returned
    fn wait_parked_or_done(&self, t: usize, after: u64) -> bool {
        self.wait_for(t, after, STEP_TIMEOUT)
    }

    fn wait_for(&self, t: usize, after: u64, dur: Duration) -> bool {
        let deadline = Instant::now() + dur;
        let mut st = self.st.lock().unwrap();
        loop {
            if st.done.contains_key(&t) {
                return true;
            }
            if let Some((_, s)) = st.parked.get(&t) {
                if *s > after {
                    return true;
                }
            }
            let now = Instant::now();
            if now >= deadline {
                return false;
            }
            st = self.cv.wait_timeout(st, deadline - now).unwrap().0;
        }
    }

    fn release(&self, t: usize) -> u64 {
        let mut st = self.st.lock().unwrap();
        let seq = st.parked.get(&t).map(|p| p.1).unwrap_or(st.seq);
        st.go.insert(t, true);
        self.cv.notify_all();
        seq
    }

    fn is_done(&self, t: usize) -> bool {
        self.st.lock().unwrap().done.contains_key(&t)
    }

    fn point_of(&self, t: usize) -> Option<String> {
        self.st.lock().unwrap().parked.get(&t).map(|p| p.0.clone())
    }
}

// ------------------------------------------------------------------ mount points inside the cache

/// enter a private mount namespace once per process (as harness/src/bin/c17.rs does)
fn private_mounts() -> bool {
    static ONCE: std::sync::OnceLock<bool> = std::sync::OnceLock::new();
    *ONCE.get_or_init(|| unsafe {
        if libc::unshare(libc::CLONE_NEWNS) != 0 {
            return false;
        }
        let root = std::ffi::CString::new("/").unwrap();
        libc::mount(std::ptr::null(), root.as_ptr(), std::ptr::null(), libc::MS_REC | libc::MS_PRIVATE, std::ptr::null()) == 0
    })
}

/// a tmpfs of `pages` 4 KiB pages mounted at a directory; detached on drop
struct Tmpfs(PathBuf);
impl Tmpfs {
    fn mount(at: &Path, pages: u64) -> Option<Tmpfs> {
        std::fs::create_dir_all(at).ok()?;
        let src = std::ffi::CString::new("tmpfs").unwrap();
        let tgt = std::ffi::CString::new(at.as_os_str().as_bytes()).unwrap();
        let opt = std::ffi::CString::new(format!("size={}", pages * 4096)).unwrap();
        let r = unsafe { libc::mount(src.as_ptr(), tgt.as_ptr(), src.as_ptr(), 0, opt.as_ptr() as *const libc::c_void) };
        if r == 0 {
            Some(Tmpfs(at.to_owned()))
        } else {
            None
        }
    }
}
impl Drop for Tmpfs {
    fn drop(&mut self) {
        let tgt = std::ffi::CString::new(self.0.as_os_str().as_bytes()).unwrap();
        unsafe {
            libc::umount2(tgt.as_ptr(), libc::MNT_DETACH);
        }
    }
}

// ------------------------------------------------------------------ one case

#[derive(Clone)]
struct Known {
    pp: bool,
    key: String,
    pid: u64,
    plen: u64,
}

impl Known {
    fn bytes(&self) -> Vec<u8> {
        if self.pp {
            pp_bytes(self.pid, self.plen)
        } else {
            payload(self.pid, self.plen)
        }
    }
}

fn classify_hit(known: &[Known], pp: bool, key: &str, data: &[u8]) -> Sx {
    for k in known.iter().filter(|k| k.pp == pp && k.key == key) {
        if k.bytes() == data {
            return Sx::L(vec![Sx::sym("hit"), Sx::n(k.pid)]);
        }
    }
    for k in known.iter().filter(|k| k.pp == pp) {
        if k.bytes() == data {
            return Sx::L(vec![Sx::sym("foreign"), Sx::n(k.pid)]);
        }
    }
    Sx::sym("torn")
}

fn do_get(h: &tokio::runtime::Handle, cache: &DiskCache, known: &[Known], key: &str) -> Sx {
    match catch(|| h.block_on(cache.get(key))) {
        Ok(Ok(Cache::Hit(mut r))) => {
            let mut data = vec![];
            match r.get_object("obj", &mut data) {
                Ok(_) => classify_hit(known, false, key, &data),
                Err(_) => Sx::sym("torn"),
            }
        }
        Ok(Ok(Cache::Miss)) => Sx::sym("miss"),
        Ok(Ok(_)) => Sx::sym("err"),
        Ok(Err(_)) => Sx::sym("err"),
        Err(_) => Sx::sym("err"),
    }
}

fn do_put(h: &tokio::runtime::Handle, cache: &DiskCache, key: &str, pid: u64, plen: u64) -> Sx {
    match catch(|| h.block_on(cache.put(key, entry_for(pid, plen)))) {
        Ok(Ok(_)) => Sx::sym("ok"),
        Ok(Err(e)) => match e.downcast_ref::<LruError>() {
            Some(LruError::FileTooLarge) => Sx::sym("too_large"),
            _ => Sx::sym("err"),
        },
        Err(_) => Sx::sym("err"),
    }
}

fn do_pp_put(h: &tokio::runtime::Handle, cache: &DiskCache, key: &str, pid: u64, plen: u64) -> Sx {
    match catch(|| h.block_on(cache.put_preprocessor_cache_entry(key, pp_entry_for(pid, plen)))) {
        Ok(Ok(())) => Sx::sym("ok"),
        Ok(Err(e)) => match e.downcast_ref::<LruError>() {
            Some(LruError::FileTooLarge) => Sx::sym("too_large"),
            _ => Sx::sym("err"),
        },
        Err(_) => Sx::sym("err"),
    }
}

/// `between` runs after the call returned the open file and before anything is read from it
fn do_pp_get<F: FnOnce()>(h: &tokio::runtime::Handle, cache: &DiskCache, known: &[Known], key: &str, between: F) -> Sx {
    match catch(|| h.block_on(cache.get_preprocessor_cache_entry(key))) {
        Ok(Ok(Some(mut r))) => {
            between();
            let mut data = vec![];
            match r.read_to_end(&mut data) {
                Ok(_) => classify_hit(known, true, key, &data),
                Err(_) => Sx::sym("torn"),
            }
        }
        Ok(Ok(None)) => Sx::sym("miss"),
        _ => Sx::sym("err"),
    }
}

fn walk_files(root: &Path) -> Vec<PathBuf> {
    fn walk(d: &Path, out: &mut Vec<PathBuf>) {
        if let Ok(rd) = std::fs::read_dir(d) {
            for e in rd.flatten() {
                let p = e.path();
                match e.file_type() {
                    Ok(t) if t.is_dir() => walk(&p, out),
                    Ok(t) if t.is_file() => out.push(p),
                    _ => {}
                }
            }
        }
    }
    let mut out = vec![];
    walk(root, &mut out);
    out.sort();
    out
}

fn is_temp_name(p: &Path) -> bool {
    p.file_name().map(|n| n.as_bytes().starts_with(b".sccachetmp")).unwrap_or(false)
}

fn temp_files(root: &Path) -> Vec<PathBuf> {
    walk_files(root).into_iter().filter(|p| is_temp_name(p)).collect()
}

/// every entry file whose mtime is not a logical value was touched by the last step: give it the next one
fn normalise_mtimes(root: &Path, clock: &mut i64) {
    for p in walk_files(root) {
        if is_temp_name(&p) {
            continue;
        }
        if let Ok(m) = std::fs::metadata(&p) {
            let mt = filetime::FileTime::from_last_modification_time(&m).unix_seconds();
            if !(BASE..BASE + RANGE).contains(&mt) {
                *clock += 1;
                let _ = filetime::set_file_mtime(&p, filetime::FileTime::from_unix_time(BASE + *clock, 0));
            }
        }
    }
}

fn size_of(h: &tokio::runtime::Handle, cache: &DiskCache) -> Sx {
    match catch(|| h.block_on(cache.current_size())) {
        Ok(Ok(Some(n))) => Sx::n(n),
        Ok(Ok(None)) => Sx::sym("none"),
        _ => Sx::sym("err"),
    }
}

fn indexes_of(cache: &DiskCache) -> Vec<Sx> {
    let enc = |idx: Option<Vec<(std::ffi::OsString, u64)>>, prefix: &[u8]| match idx {
        None => Sx::sym("none"),
        Some(v) => {
            let mut l: Vec<(Vec<u8>, u64)> = v
                .into_iter()
                .map(|(k, sz)| {
                    let mut p = prefix.to_vec();
                    p.extend_from_slice(k.as_bytes());
                    (p, sz)
                })
                .collect();
            l.sort();
            Sx::L(l.into_iter().map(|(p, sz)| Sx::L(vec![Sx::B(p), Sx::n(sz)])).collect())
        }
    };
    match catch(|| cache.verif_indexes()) {
        Ok([m, p]) => vec![enc(m, b""), enc(p, b"preprocessor/")],
        Err(_) => vec![Sx::sym("err"), Sx::sym("err")],
    }
}

enum Th {
    Put { key: String, pid: u64, plen: u64, elen: u64, chunks: u64, fail: bool },
    Get { key: String },
    PpPut { key: String, pid: u64, plen: u64, elen: u64, chunks: u64 },
    PpGet { key: String },
}

fn keystr(x: &Sx) -> String {
    String::from_utf8_lossy(x.bytes()).into_owned()
}

const PROBE_TIMEOUT: Duration = Duration::from_millis(250);

struct Begun {
    point: String,
    limited: bool,
}

/// bookkeeping of the stepping loop
struct Cx {
    clock: i64,
    temp_of: HashMap<usize, PathBuf>,
    seen_tmp: Vec<PathBuf>,
    chunks_done: Vec<u64>,
    stuck: Vec<bool>,
}

impl Cx {
    /// what the next model step of thread t means for the real call; None = nothing to release
    fn begin(&mut self, ctl: &Ctl, threads: &[Th], t: usize) -> Option<Begun> {
        if t >= threads.len() || self.stuck[t] || ctl.is_done(t) {
            return None;
        }
        let point = ctl.point_of(t).unwrap_or_default();
        let mut limit = None;
        match &threads[t] {
            Th::Put { chunks, fail, elen, .. } if point == "put.reserved" => {
                self.chunks_done[t] += 1;
                if *fail {
                    // the model writes `chunks` pieces and then sees the failure: the real write_all (which
                    // fails half way) and the abandon that follows happen with the model's Abandon step
                    if self.chunks_done[t] <= *chunks {
                        return None;
                    }
                    limit = Some(*elen / 2);
                } else if self.chunks_done[t] < *chunks {
                    return None; // an earlier chunk of the model's write: the real write happens with the last one
                }
            }
            Th::PpPut { chunks, .. } if point == "pp.reserved" => {
                // no park point between the write and the commit section: both happen with the model's Commit
                self.chunks_done[t] += 1;
                if self.chunks_done[t] <= *chunks {
                    return None;
                }
            }
            _ => {}
        }
        if let Some(n) = limit {
            set_fsize_limit(Some(n));
        }
        Some(Begun { point, limited: limit.is_some() })
    }

    fn fail(&mut self, t: usize, b: &Begun) {
        if b.limited {
            set_fsize_limit(None);
        }
        self.stuck[t] = true;
    }

    /// the call has parked at its next point or returned
    fn end(&mut self, ctl: &Ctl, root: &Path, t: usize, b: &Begun) {
        if b.limited {
            set_fsize_limit(None);
        }
        if b.point == "put.before_reserve" || b.point == "pp.before_reserve" {
            let now = ctl.point_of(t);
            for p in temp_files(root) {
                if !self.seen_tmp.contains(&p) {
                    self.seen_tmp.push(p.clone());
                    if matches!(now.as_deref(), Some("put.reserved") | Some("pp.reserved")) {
                        self.temp_of.insert(t, p);
                    }
                }
            }
        }
        normalise_mtimes(root, &mut self.clock);
    }
}

fn run_case(case: &Sx) -> Sx {
    let cap = case.arg(0).u64();
    let pp_first = case.arg(1).u64() != 0;
    let td = tempfile::Builder::new().prefix("vh-c06-").tempdir_in("/dev/shm").unwrap();
    // the last component of the cache directory is part of the case space (~/.sccache, ./.cache, ...)
    let root_name = if case.list().len() > 7 && !case.arg(7).bytes().is_empty() { keystr(case.arg(7)) } else { "cache".to_string() };
    if root_name.contains('/') || root_name == "." || root_name == ".." {
        return Sx::L(vec![Sx::sym("bad_key")]);
    }
    let root = td.path().join(&root_name);
    std::fs::create_dir_all(&root).unwrap();

    // shard directories on another file system; declared after `td` so that they are detached before it is removed
    let mut mounts: Vec<Tmpfs> = vec![];
    if case.list().len() > 5 {
        for k in case.arg(5).list() {
            let key = keystr(k);
            if key.len() < 2 {
                return Sx::L(vec![Sx::sym("bad_key")]);
            }
            let at = root.join(&key[0..1]).join(&key[1..2]);
            if mounts.iter().any(|m| m.0 == at) {
                continue;
            }
            if !private_mounts() {
                return Sx::L(vec![Sx::sym("skipped")]);
            }
            match Tmpfs::mount(&at, 16) {
                Some(m) => mounts.push(m),
                None => return Sx::L(vec![Sx::sym("skipped")]),
            }
        }
    }

    let mut known: Vec<Known> = vec![];
    let mut mkeys: Vec<String> = vec![];
    let mut pkeys: Vec<String> = vec![];
    for f in case.arg(2).list() {
        let kind = f.tag();
        let (key, pid, plen, elen, mt) = (keystr(f.arg(1)), f.arg(2).u64(), f.arg(3).u64(), f.arg(4).u64(), f.arg(5).u64());
        if (kind != "raw" && key.len() < 3) || key.is_empty() {
            return Sx::L(vec![Sx::sym("bad_key")]);
        }
        let bytes = if kind == "pp" { pp_bytes(pid, plen) } else { entry_for(pid, plen).finish().unwrap() };
        if bytes.len() as u64 != elen {
            return Sx::L(vec![Sx::sym("bad_size"), Sx::n(pid), Sx::usize(bytes.len())]);
        }
        let p = match kind.as_str() {
            "main" => root.join(make_key_path(&key)),
            "pp" => root.join(pp_key_path(&key)),
            _ => root.join(&key),
        };
        std::fs::create_dir_all(p.parent().unwrap()).unwrap();
        std::fs::write(&p, &bytes).unwrap();
        filetime::set_file_mtime(&p, filetime::FileTime::from_unix_time(BASE + mt as i64, 0)).unwrap();
        match kind.as_str() {
            "main" => {
                known.push(Known { pp: false, key: key.clone(), pid, plen });
                mkeys.push(key);
            }
            "pp" => {
                known.push(Known { pp: true, key: key.clone(), pid, plen });
                pkeys.push(key);
            }
            _ => {}
        }
    }
    let mut threads = vec![];
    for t in case.arg(3).list() {
        let tag = t.tag();
        let key = keystr(t.arg(1));
        if key.len() < 3 {
            return Sx::L(vec![Sx::sym("bad_key")]);
        }
        match tag.as_str() {
            "put" => {
                let (pid, plen, elen, chunks) = (t.arg(2).u64(), t.arg(3).u64(), t.arg(4).u64(), t.arg(5).u64().max(1));
                let fail = t.arg(6).u64() != 0;
                let real = entry_for(pid, plen).finish().unwrap().len() as u64;
                if real != elen {
                    return Sx::L(vec![Sx::sym("bad_size"), Sx::n(pid), Sx::n(real)]);
                }
                known.push(Known { pp: false, key: key.clone(), pid, plen });
                mkeys.push(key.clone());
                threads.push(Th::Put { key, pid, plen, elen, chunks, fail });
            }
            "get" => {
                mkeys.push(key.clone());
                threads.push(Th::Get { key });
            }
            "pp_put" => {
                let (pid, plen, elen, chunks) = (t.arg(2).u64(), t.arg(3).u64(), t.arg(4).u64(), t.arg(5).u64().max(1));
                let real = pp_bytes(pid, plen).len() as u64;
                if real != elen {
                    return Sx::L(vec![Sx::sym("bad_size"), Sx::n(pid), Sx::n(real)]);
                }
                known.push(Known { pp: true, key: key.clone(), pid, plen });
                pkeys.push(key.clone());
                threads.push(Th::PpPut { key, pid, plen, elen, chunks });
            }
            _ => {
                pkeys.push(key.clone());
                threads.push(Th::PpGet { key });
            }
        }
    }
    mkeys.sort();
    mkeys.dedup();
    pkeys.sort();
    pkeys.dedup();
    let known = Arc::new(known);

    let rt = tokio::runtime::Builder::new_multi_thread()
        .worker_threads(1)
        .max_blocking_threads(32)
        .enable_all()
        .build()
        .unwrap();
    let handle = rt.handle().clone();
    let new_cache = || {
        DiskCache::new(&root, cap, &handle, PreprocessorCacheModeConfig::activated(), CacheMode::ReadWrite)
    };
    let cache = Arc::new(new_cache());
    let ctl = Arc::new(Ctl { st: Mutex::new(CtlState::default()), cv: Condvar::new() });
    {
        let c = ctl.clone();
        hooks::set_sync_controller(Some(Box::new(move |point: &str, _key: &Path, _len: u64| c.at_point(point))));
        *CUR_CTL.lock().unwrap() = Some(ctl.clone());
    }

    // start the calls one at a time; each parks at its first point and is bound to its model thread
    let mut joins = vec![];
    let mut stuck: Vec<bool> = vec![false; threads.len()];
    for (i, th) in threads.iter().enumerate() {
        ctl.st.lock().unwrap().binding = Some(i);
        let (c, h, k, cch) = (ctl.clone(), handle.clone(), known.clone(), cache.clone());
        let j = match th {
            Th::Put { key, pid, plen, .. } => {
                let (key, pid, plen) = (key.clone(), *pid, *plen);
                std::thread::spawn(move || {
                    let r = do_put(&h, &cch, &key, pid, plen);
                    c.finish(i, r);
                })
            }
            Th::Get { key } => {
                let key = key.clone();
                std::thread::spawn(move || {
                    let r = do_get(&h, &cch, &k, &key);
                    c.finish(i, r);
                })
            }
            Th::PpPut { key, pid, plen, .. } => {
                let (key, pid, plen) = (key.clone(), *pid, *plen);
                std::thread::spawn(move || {
                    c.at_point("pp.before_reserve");
                    PARK_ON_TEMP_WRITE.with(|f| f.set(true));
                    let r = do_pp_put(&h, &cch, &key, pid, plen);
                    PARK_ON_TEMP_WRITE.with(|f| f.set(false));
                    c.finish(i, r);
                })
            }
            Th::PpGet { key } => {
                let key = key.clone();
                std::thread::spawn(move || {
                    c.at_point("pp.get.before");
                    let c2 = c.clone();
                    let r = do_pp_get(&h, &cch, &k, &key, move || c2.at_point("pp.get.opened"));
                    c.finish(i, r);
                })
            }
        };
        joins.push(j);
        if !ctl.wait_parked_or_done(i, 0) {
            stuck[i] = true;
        }
        ctl.st.lock().unwrap().binding = None;
    }

    // the schedule
    let mut cx = Cx {
        clock: 1000,
        temp_of: HashMap::new(),
        seen_tmp: temp_files(&root),
        chunks_done: vec![0; threads.len()],
        stuck,
    };
    let sched: Vec<usize> = case.arg(4).list().iter().map(|s| s.u64() as usize).collect();
    // optional lock-scope probe: ( i kind m ) = during step i, at its first `kind` call, try steps i+1 .. i+m
    let probe: Option<(usize, String, usize)> = if case.list().len() > 6 && case.arg(6).list().len() == 3 {
        Some((case.arg(6).arg(0).u64() as usize, keystr(case.arg(6).arg(1)), case.arg(6).arg(2).u64() as usize))
    } else {
        None
    };
    let mut idx = 0;
    while idx < sched.len() {
        let t = sched[idx];
        let here = idx;
        idx += 1;
        let b = match cx.begin(&ctl, &threads, t) {
            Some(b) => b,
            None => continue,
        };
        let armed = matches!(&probe, Some((i, _, _)) if *i == here);
        if let Some((_, kind, _)) = probe.as_ref().filter(|_| armed) {
            ctl.st.lock().unwrap().probe = Some((t, kind.clone()));
        }
        let seq = ctl.release(t);
        let arrived = ctl.wait_parked_or_done(t, seq);
        ctl.st.lock().unwrap().probe = None;
        if !arrived {
            cx.fail(t, &b);
            continue;
        }
        if ctl.point_of(t).as_deref() == Some("probe") {
            let mut left = probe.as_ref().map(|p| p.2).unwrap_or(0);
            let mut pending: Option<(usize, Begun, u64)> = None;
            while left > 0 && idx < sched.len() && sched[idx] != t {
                let u = sched[idx];
                idx += 1;
                left -= 1;
                let bu = match cx.begin(&ctl, &threads, u) {
                    Some(b) => b,
                    None => continue,
                };
                let sq = ctl.release(u);
                if ctl.wait_for(u, sq, PROBE_TIMEOUT) {
                    cx.end(&ctl, &root, u, &bu);
                } else {
                    pending = Some((u, bu, sq)); // it waits for the lock the probed call holds
                    break;
                }
            }
            let seq2 = ctl.release(t);
            let ok = ctl.wait_parked_or_done(t, seq2);
            if let Some((u, bu, sq)) = pending {
                if ctl.wait_parked_or_done(u, sq) {
                    cx.end(&ctl, &root, u, &bu);
                } else {
                    cx.fail(u, &bu);
                }
            }
            if !ok {
                cx.fail(t, &b);
                continue;
            }
        }
        cx.end(&ctl, &root, t, &b);
    }
    let Cx { mut clock, temp_of, chunks_done, stuck, .. } = cx;

    // results of the calls
    let mut results = vec![];
    {
        let st = ctl.st.lock().unwrap();
        for i in 0..threads.len() {
            results.push(if stuck[i] {
                Sx::sym("stuck")
            } else {
                st.done.get(&i).cloned().unwrap_or_else(|| Sx::sym("unfinished"))
            });
        }
    }
    // a store that the model has interrupted in the middle of its write: leave that much of the entry
    for (t, th) in threads.iter().enumerate() {
        let (bytes, total, chunks, all) = match th {
            Th::Put { pid, plen, elen, chunks, fail, .. } => (
                entry_for(*pid, *plen).finish().unwrap(),
                if *fail { *elen / 2 } else { *elen },
                *chunks,
                *chunks + if *fail { 1 } else { 0 },
            ),
            Th::PpPut { pid, plen, elen, chunks, .. } => (pp_bytes(*pid, *plen), *elen, *chunks, *chunks + 1),
            _ => continue,
        };
        let at = ctl.point_of(t);
        if matches!(at.as_deref(), Some("put.reserved") | Some("pp.reserved")) && chunks_done[t] > 0 && chunks_done[t] < all {
            if let Some(p) = temp_of.get(&t) {
                let n = if chunks_done[t] >= chunks { total } else { (total / chunks) * chunks_done[t] } as usize;
                if let Ok(mut f) = std::fs::OpenOptions::new().write(true).open(p) {
                    let _ = f.write_all(&bytes[..n.min(bytes.len())]);
                }
            }
        }
    }

    let mut observe = |c: &DiskCache, clock: &mut i64| -> Vec<Sx> {
        let mut om = vec![];
        let mut op = vec![];
        for round in 0..2 {
            if (round == 0) == pp_first {
                for k in &pkeys {
                    op.push(do_pp_get(&handle, c, &known, k, || {}));
                    normalise_mtimes(&root, clock);
                }
            } else {
                for k in &mkeys {
                    om.push(do_get(&handle, c, &known, k));
                    normalise_mtimes(&root, clock);
                }
            }
        }
        let mut v = vec![Sx::L(om), Sx::L(op), Sx::usize(temp_files(&root).len()), size_of(&handle, c)];
        v.extend(indexes_of(c));
        v
    };
    let mut out = vec![Sx::L(results)];
    out.extend(observe(&cache, &mut clock));

    // the server dies: nothing in flight is resumed, nothing is cleaned up; a new server opens the directory
    let cache2 = new_cache();
    out.extend(observe(&cache2, &mut clock));

    // tidy up: let the abandoned calls run out (their results are ignored)
    {
        let mut st = ctl.st.lock().unwrap();
        st.free_run = true;
        ctl.cv.notify_all();
    }
    for (i, j) in joins.into_iter().enumerate() {
        if !stuck[i] {
            let _ = j.join();
        }
    }
    hooks::set_sync_controller(None);
    *CUR_CTL.lock().unwrap() = None;
    drop(cache2);
    drop(cache);
    rt.shutdown_timeout(Duration::from_secs(5));
    drop(mounts);
    Sx::L(out)
}

/// lower (Some) or restore (None) the soft file-size limit of the process: a write beyond it fails with EFBIG
fn set_fsize_limit(n: Option<u64>) {
    unsafe {
        let mut r: libc::rlimit = std::mem::zeroed();
        libc::getrlimit(libc::RLIMIT_FSIZE, &mut r);
        r.rlim_cur = match n {
            Some(n) => n as libc::rlim_t,
            None => r.rlim_max,
        };
        libc::setrlimit(libc::RLIMIT_FSIZE, &r);
    }
}

fn run_size(case: &Sx) -> Sx {
    let n = if case.list().len() == 3 {
        pp_bytes(case.arg(1).u64(), case.arg(2).u64()).len()
    } else {
        entry_for(case.arg(0).u64(), case.arg(1).u64()).finish().unwrap().len()
    };
    Sx::usize(n)
}

fn main() {
    vh::quiet_panics();
    unsafe {
        libc::signal(libc::SIGXFSZ, libc::SIG_IGN);
    }
    let leg = std::env::args().nth(1).unwrap_or_default();
    // before any other thread exists: threads inherit the mount namespace of their creator
    let _ = private_mounts();
    match leg.as_str() {
        "size" => vh::run_lines(run_size),
        _ => vh::run_lines(run_case),
    }
}
