//! c07 — drives the real `sccache::lru_disk_cache::LruDiskCache` on a scratch
//! directory with the op sequences of Run/C07.v and prints the same observations.
use filetime::{set_file_mtime, FileTime};
use sccache::lru_disk_cache::{Error, LruDiskCache, LruDiskCacheAddEntry};
use std::ffi::OsStr;
use std::io::Write;
use std::os::unix::ffi::OsStrExt;
use std::path::{Path, PathBuf};
use vh::{catch, Sx};

/// Logical mtimes.  Regime "old": second `BASE + clock` (year 2001).  Regime "fresh": `start - 0.9 s + clock ms`,
/// so that every file looks recently modified (time-dependent shortcuts in the code under test are exercised in
/// both regimes).  A file whose mtime is not the one the harness assigned last has been touched by the real code.
const BASE: i64 = 1_000_000_000;

fn walk(root: &Path, dir: &Path, out: &mut Vec<(Vec<u8>, u64, FileTime, PathBuf)>) {
    if let Ok(rd) = std::fs::read_dir(dir) {
        for e in rd.flatten() {
            let p = e.path();
            let ft = match e.file_type() {
                Ok(t) => t,
                Err(_) => continue,
            };
            if ft.is_dir() {
                walk(root, &p, out);
            } else if ft.is_file() {
                let m = std::fs::metadata(&p).unwrap();
                let rel = p.strip_prefix(root).unwrap().as_os_str().as_bytes().to_vec();
                let mt = FileTime::from_last_modification_time(&m);
                out.push((rel, m.len(), mt, p.clone()));
            }
        }
    }
}

fn res_of(r: Result<(), Error>) -> &'static str {
    match r {
        Ok(()) => "ok",
        Err(Error::FileTooLarge) => "too_large",
        Err(Error::FileNotInCache) => "not_in_cache",
        Err(Error::Io(_)) => "io_err",
    }
}

struct World {
    root: PathBuf,
    ext: PathBuf,
    cache: Option<LruDiskCache>,
    handles: Vec<(u64, LruDiskCacheAddEntry)>,
    next_h: u64,
    clock: i64,
    poisoned: bool,
    nfile: u64,
    fresh: Option<FileTime>,
    assigned: std::collections::HashMap<PathBuf, (FileTime, i64)>,
}

impl World {
    fn logical(&self, clock: i64) -> FileTime {
        match self.fresh {
            None => FileTime::from_unix_time(BASE + clock, 0),
            Some(t0) => {
                let ns = t0.unix_seconds() as i128 * 1_000_000_000 + t0.nanoseconds() as i128 - 900_000_000
                    + (clock as i128 - 1000) * 1_000_000;
                FileTime::from_unix_time((ns / 1_000_000_000) as i64, (ns % 1_000_000_000) as u32)
            }
        }
    }

    fn observe(&mut self, res: &str) -> Sx {
        let mut listing = vec![];
        walk(&self.root.clone(), &self.root.clone(), &mut listing);
        listing.sort();
        let mut touched = vec![];
        let mut files = vec![];
        let mut ntmp = 0u64;
        for (rel, size, mt, path) in listing {
            let name = path.file_name().unwrap().as_bytes();
            if name.starts_with(b".sccachetmp") {
                ntmp += 1;
                continue;
            }
            let logical = match self.assigned.get(&path) {
                Some((t, c)) if *t == mt => *c,
                _ => {
                    self.clock += 1;
                    let t = self.logical(self.clock);
                    set_file_mtime(&path, t).unwrap();
                    self.assigned.insert(path.clone(), (t, self.clock));
                    touched.push(Sx::B(rel.clone()));
                    self.clock
                }
            };
            files.push(Sx::L(vec![Sx::B(rel), Sx::n(size), Sx::N(logical as u128)]));
        }
        let (size, len, psize, index) = match &self.cache {
            Some(c) => {
                let (_, ps) = c.verif_pending();
                let idx = c
                    .verif_index()
                    .into_iter()
                    .map(|(k, v)| Sx::L(vec![Sx::B(k.as_bytes().to_vec()), Sx::n(v)]))
                    .collect();
                (c.size(), c.len(), ps, idx)
            }
            None => (0, 0, 0, vec![]),
        };
        let hs = self
            .handles
            .iter_mut()
            .map(|(h, e)| {
                let _ = e.as_file_mut().flush();
                Sx::L(vec![Sx::n(*h), Sx::n(e.as_file_mut().metadata().unwrap().len())])
            })
            .collect();
        Sx::L(vec![
            Sx::sym(res),
            Sx::L(touched),
            Sx::n(size),
            Sx::usize(len),
            Sx::n(psize),
            Sx::L(index),
            Sx::L(files),
            Sx::L(hs),
            Sx::n(ntmp),
        ])
    }

    fn open(&mut self, cap: u64) -> &'static str {
        for (_, e) in self.handles.drain(..) {
            std::mem::forget(e); // crash: the temp file stays behind
        }
        self.cache = None;
        match LruDiskCache::new(self.root.clone(), cap) {
            Ok(c) => {
                self.cache = Some(c);
                "ok"
            }
            Err(_) => "io_err",
        }
    }

    fn take_handle(&mut self, h: u64) -> Option<LruDiskCacheAddEntry> {
        let i = self.handles.iter().position(|(x, _)| *x == h)?;
        Some(self.handles.remove(i).1)
    }

    fn apply(&mut self, op: &Sx) -> String {
        let tag = op.tag();
        let k = |i: usize| OsStr::from_bytes(op.arg(i).bytes()).to_owned();
        if tag == "reopen" {
            return self.open(op.arg(1).u64()).into();
        }
        if tag == "ext_delete" {
            let _ = std::fs::remove_file(self.root.join(k(1)));
            return "ok".into();
        }
        let ext = self.ext.clone();
        self.nfile += 1;
        let nfile = self.nfile;
        match tag.as_str() {
            "insert_bytes" => {
                let bytes = vec![b'x'; op.arg(2).u64() as usize];
                res_of(self.cache.as_mut().unwrap().insert_bytes(k(1), &bytes)).into()
            }
            "insert_with" => {
                let n = op.arg(2).u64() as usize;
                let fail = op.arg(3).as_bool();
                res_of(self.cache.as_mut().unwrap().insert_with(k(1), |mut f| {
                    f.write_all(&vec![b'w'; n])?;
                    if fail {
                        Err(std::io::Error::new(std::io::ErrorKind::Other, "writer failed"))
                    } else {
                        Ok(())
                    }
                }))
                .into()
            }
            "insert_file" => {
                let src = ext.join(format!("f{}", nfile));
                std::fs::write(&src, vec![b'f'; op.arg(2).u64() as usize]).unwrap();
                res_of(self.cache.as_mut().unwrap().insert_file(k(1), &src)).into()
            }
            "prepare_add" => match self.cache.as_mut().unwrap().prepare_add(k(1), op.arg(2).u64()) {
                Ok(e) => {
                    self.handles.push((self.next_h, e));
                    self.next_h += 1;
                    "ok".into()
                }
                Err(e) => res_of(Err(e)).into(),
            },
            "write_tmp" => {
                let h = op.arg(1).u64();
                match self.handles.iter_mut().find(|(x, _)| *x == h) {
                    Some((_, e)) => {
                        e.as_file_mut().write_all(&vec![b't'; op.arg(2).u64() as usize]).unwrap();
                        "ok".into()
                    }
                    None => "bad_handle".into(),
                }
            }
            "commit" => match self.take_handle(op.arg(1).u64()) {
                Some(e) => res_of(self.cache.as_mut().unwrap().commit(e)).into(),
                None => "bad_handle".into(),
            },
            "abandon" => match self.take_handle(op.arg(1).u64()) {
                Some(e) => {
                    self.cache.as_mut().unwrap().abandon(e);
                    "ok".into()
                }
                None => "bad_handle".into(),
            },
            "get" => res_of(self.cache.as_mut().unwrap().get(k(1)).map(|_| ())).into(),
            "remove" => res_of(self.cache.as_mut().unwrap().remove(k(1))).into(),
            "contains" => {
                if self.cache.as_ref().unwrap().contains_key(k(1)) { "true" } else { "false" }.into()
            }
            _ => "bad_op".into(),
        }
    }
}

fn run_case(case: &Sx) -> Sx {
    let td = tempfile::Builder::new().prefix("vh-c07-").tempdir_in("/dev/shm").unwrap();
    let root = td.path().join("cache");
    let ext = td.path().join("ext");
    std::fs::create_dir_all(&root).unwrap();
    std::fs::create_dir_all(&ext).unwrap();
    let mut w = World {
        root,
        ext,
        cache: None,
        handles: vec![],
        next_h: 0,
        clock: 1000,
        poisoned: false,
        nfile: 0,
        fresh: if case.arg(3).as_bool() { Some(FileTime::now()) } else { None },
        assigned: Default::default(),
    };
    for f in case.arg(1).list() {
        let p = w.root.join(OsStr::from_bytes(f.arg(0).bytes()));
        std::fs::create_dir_all(p.parent().unwrap()).unwrap();
        std::fs::write(&p, vec![b'i'; f.arg(1).u64() as usize]).unwrap();
        // initial files: logical clock values 1..999 (below the running clock's start of 1000)
        let c = f.arg(2).u64() as i64;
        let t = match w.fresh {
            None => FileTime::from_unix_time(BASE + c, 0),
            Some(_) => w.logical(c),
        };
        set_file_mtime(&p, t).unwrap();
        w.assigned.insert(p.clone(), (t, c));
    }
    let mut out = vec![];
    let r = w.open(case.arg(0).u64());
    out.push(w.observe(r));
    for op in case.arg(2).list() {
        if w.poisoned {
            out.push(Sx::L(vec![Sx::sym("panic")]));
            continue;
        }
        match catch(|| w.apply(op)) {
            Ok(r) => out.push(w.observe(&r)),
            Err(_) => {
                w.poisoned = true;
                out.push(Sx::L(vec![Sx::sym("panic")]));
            }
        }
    }
    for (_, e) in w.handles.drain(..) {
        drop(e);
    }
    Sx::L(out)
}

// ---------------------------------------------------------------------------------------------
// leg `put`: the real `DiskCache` (src/cache/disk.rs) — reserve, write, commit | abandon — with an
// injected write fault: while a `put` with fault m+1 runs, RLIMIT_FSIZE is m bytes (SIGXFSZ ignored),
// so the write of the entry data into the reserved temp file fails with EFBIG after m bytes, as it
// would on a full disk or an exceeded quota.  Entries are valid empty zips of exactly n bytes.
// ---------------------------------------------------------------------------------------------
mod put_leg {
    use sccache::verif_hooks::cache::disk::DiskCache;
    use sccache::verif_hooks::cache::{Cache, CacheMode, CacheWrite, PreprocessorCacheModeConfig, Storage};
    use std::os::unix::ffi::OsStrExt;
    use std::path::Path;
    use vh::{catch, Sx};

    struct FileSizeLimit(libc::rlimit);
    impl FileSizeLimit {
        fn set(bytes: u64) -> FileSizeLimit {
            unsafe {
                libc::signal(libc::SIGXFSZ, libc::SIG_IGN);
                let mut old = std::mem::zeroed::<libc::rlimit>();
                assert_eq!(libc::getrlimit(libc::RLIMIT_FSIZE, &mut old), 0);
                let new = libc::rlimit { rlim_cur: bytes as libc::rlim_t, rlim_max: old.rlim_max };
                assert_eq!(libc::setrlimit(libc::RLIMIT_FSIZE, &new), 0);
                FileSizeLimit(old)
            }
        }
    }
    impl Drop for FileSizeLimit {
        fn drop(&mut self) {
            unsafe {
                libc::setrlimit(libc::RLIMIT_FSIZE, &self.0);
            }
        }
    }

    fn count_tmp(dir: &Path, n: &mut u64) {
        if let Ok(rd) = std::fs::read_dir(dir) {
            for e in rd.flatten() {
                let p = e.path();
                match e.file_type() {
                    Ok(t) if t.is_dir() => count_tmp(&p, n),
                    Ok(t) if t.is_file() => {
                        if p.file_name().unwrap().as_bytes().starts_with(b".sccachetmp") {
                            *n += 1;
                        }
                    }
                    _ => {}
                }
            }
        }
    }

    fn classify(e: &anyhow::Error, faulted: bool) -> &'static str {
        for c in e.chain() {
            if let Some(le) = c.downcast_ref::<sccache::lru_disk_cache::Error>() {
                return match le {
                    sccache::lru_disk_cache::Error::FileTooLarge => "too_large",
                    sccache::lru_disk_cache::Error::FileNotInCache => "not_in_cache",
                    sccache::lru_disk_cache::Error::Io(_) => "io_err",
                };
            }
        }
        if faulted {
            "write_err"
        } else {
            "io_err"
        }
    }

    fn count_files(dir: &Path, tmp: bool, n: &mut u64) {
        if let Ok(rd) = std::fs::read_dir(dir) {
            for e in rd.flatten() {
                let p = e.path();
                match e.file_type() {
                    Ok(t) if t.is_dir() => count_files(&p, tmp, n),
                    Ok(t) if t.is_file() => {
                        if tmp || !p.file_name().unwrap().as_bytes().starts_with(b".sccachetmp") {
                            *n += 1;
                        }
                    }
                    _ => {}
                }
            }
        }
    }

    pub fn run_case(case: &Sx) -> Sx {
        run(case, false)
    }

    /// leg `lazy`: as `put`, plus an open fault: while a request with ofault = 1 runs on a cache that has not
    /// been opened yet, a regular file sits where the parent of the cache directory should be, so the lazy
    /// `LruDiskCache::new` fails (ENOTDIR); it is removed again after the request.  The process runs in an
    /// empty scratch working directory, and every observation also reports the files found there (`stray`),
    /// whether `location()` names the configured directory, and the entry files under the configured directory.
    pub fn run_lazy_case(case: &Sx) -> Sx {
        run(case, true)
    }

    fn run(case: &Sx, lazy: bool) -> Sx {
        let td = tempfile::Builder::new().prefix("vh-c07p-").tempdir_in("/dev/shm").unwrap();
        let parent = td.path().join("parent");
        let root = if lazy { parent.join("cache") } else { td.path().join("cache") };
        let cwd = td.path().join("cwd");
        if lazy {
            std::fs::create_dir_all(&cwd).unwrap();
            std::env::set_current_dir(&cwd).unwrap();
        }
        let mut opened = false;
        let rt = tokio::runtime::Builder::new_multi_thread().enable_all().worker_threads(1).build().unwrap();
        let cache = DiskCache::new(
            &root,
            case.arg(0).u64(),
            rt.handle(),
            PreprocessorCacheModeConfig::default(),
            CacheMode::ReadWrite,
        );
        let mut out = vec![];
        let mut poisoned = false;
        for op in case.arg(1).list() {
            if poisoned {
                out.push(Sx::L(vec![Sx::sym("panic")]));
                continue;
            }
            let tag = op.tag();
            let key = String::from_utf8(op.arg(1).bytes().to_vec()).unwrap();
            let ofault = lazy && op.arg(if tag == "put" { 4 } else { 2 }).as_bool();
            let obstacle = ofault && !opened;
            if obstacle {
                std::fs::write(&parent, b"in the way").unwrap();
            } else {
                opened = true;
            }
            let r = catch(|| match tag.as_str() {
                "put" => {
                    let n = op.arg(2).u64() as usize;
                    let fault = op.arg(3).u64();
                    assert!(n >= 22);
                    let entry = CacheWrite::verif_with_comment(vec![b'p'; n - 22]);
                    let _limit = if fault > 0 { Some(FileSizeLimit::set(fault - 1)) } else { None };
                    match rt.block_on(cache.put(&key, entry)) {
                        Ok(_) => "ok",
                        Err(e) => classify(&e, fault > 0),
                    }
                }
                "get" => match rt.block_on(cache.get(&key)) {
                    Ok(Cache::Hit(_)) => "hit",
                    Ok(Cache::Miss) => "miss",
                    Ok(_) => "other",
                    Err(e) => classify(&e, false),
                },
                _ => "bad_op",
            });
            if obstacle {
                std::fs::remove_file(&parent).unwrap();
            }
            let r = r.map(|res| if obstacle && !matches!(res, "ok" | "hit" | "miss") { "open_err" } else { res });
            match r {
                Ok(res) => {
                    let size = rt.block_on(cache.current_size()).unwrap().unwrap_or(0);
                    let index = match &cache.verif_indexes()[0] {
                        Some(v) => v
                            .iter()
                            .map(|(k, s)| Sx::L(vec![Sx::B(k.as_bytes().to_vec()), Sx::n(*s)]))
                            .collect(),
                        None => vec![],
                    };
                    let mut ntmp = 0;
                    count_tmp(&root, &mut ntmp);
                    let mut obs = vec![Sx::sym(res), Sx::n(size), Sx::L(index), Sx::n(ntmp)];
                    if lazy {
                        let mut stray = 0;
                        count_files(&cwd, true, &mut stray);
                        let mut nroot = 0;
                        count_files(&root, false, &mut nroot);
                        let loc_ok = cache.location() == format!("Local disk: {:?}", root);
                        obs.push(Sx::n(stray));
                        obs.push(Sx::n(loc_ok as u64));
                        obs.push(Sx::n(nroot));
                    }
                    out.push(Sx::L(obs));
                }
                Err(_) => {
                    poisoned = true;
                    out.push(Sx::L(vec![Sx::sym("panic")]));
                }
            }
        }
        Sx::L(out)
    }
}

fn main() {
    vh::quiet_panics();
    let leg = std::env::args().nth(1);
    if leg.as_deref() == Some("put") {
        vh::run_lines(put_leg::run_case);
    } else if leg.as_deref() == Some("lazy") {
        vh::run_lines(put_leg::run_lazy_case);
    } else {
        vh::run_lines(run_case);
    }
}
