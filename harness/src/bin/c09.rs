//! c09 — drives the REAL request path of sccache in-process for the properties C09 and C14:
//!
//!   protocol `Request::Compile`  ->  `Service::call` (compile_requests += 1)  ->  `handle_compile`
//!   -> `compiler_info` / `check_compiler` -> `start_compile_task` -> `get_cached_or_compile`
//!   (`generate_hash_key` incl. the preprocessor-cache prelude, lookup with time-out, extraction,
//!   compile, artifact creation, deferred `put`) -> result handling and every `ServerStats` increment,
//!
//! with the real gcc argument parser, a real `DiskCache` (optionally read-only, wrapped in the real
//! `ReadOnlyStorage` exactly as `server::start_server` does), a fault-injecting `Storage` written
//! here that wraps it, and a fake compiler/preprocessor (a `CommandCreator` written here that
//! answers compiler detection, `-E` and `-c` invocations from a per-translation-unit oracle and
//! counts the invocations).  The counters printed are the real `ServerStats` obtained through
//! `Request::GetStats`.
//!
//! Case / observation formats: see coq/theories/Run/C09.v (the model prints the same lines).
use async_trait::async_trait;
use futures::FutureExt;
use sccache::server::{SccacheService, ServerStats};
use sccache::verif_hooks::cache::disk::DiskCache;
use sccache::verif_hooks::cache::readonly::ReadOnlyStorage;
use sccache::verif_hooks::cache::{
    Cache, CacheMode, CacheRead, CacheWrite, PreprocessorCacheModeConfig, Storage,
};
use sccache::verif_hooks::compiler::PreprocessorCacheEntry;
use sccache::verif_hooks::jobserver::Client;
use sccache::verif_hooks::mock_command::{ChildOrCall, CommandCreator, MockChild, MockCommand};
use sccache::verif_hooks::protocol::{Compile, CompileResponse, Request, Response};
use std::collections::HashMap;
use std::ffi::{OsStr, OsString};
use std::io::{Cursor, Read};
use std::os::unix::process::ExitStatusExt;
use std::path::{Path, PathBuf};
use std::process::ExitStatus;
use std::sync::atomic::{AtomicU64, Ordering};
use std::sync::{Arc, Mutex};
use std::time::Duration;
use vh::Sx;

type Res<T> = anyhow::Result<T>;
type Creator = Arc<Mutex<FakeCreator>>;

const NTU: usize = 4;

/// exit status `code`; 98 stands for "killed by signal 9" (no exit code at all)
fn status(code: i32) -> ExitStatus {
    if code == 98 {
        ExitStatus::from_raw(9)
    } else {
        ExitStatus::from_raw(code << 8)
    }
}

// ---------------------------------------------------------------- the fake compiler

#[derive(Clone, Copy, Default, Debug)]
struct Oracle {
    pp_status: i32,
    upd: bool,
    c_status: i32,
    c_out: bool,
}

/// What the fake compiler does, shared by every `FakeCreator` of the process.
struct Script {
    cwd: PathBuf,
    oracles: Mutex<[Oracle; NTU]>,
    pp_runs: [AtomicU64; NTU],
    cc_runs: [AtomicU64; NTU],
    /// preprocessor runs since the start of the current sequential request
    cur_pp: AtomicU64,
    unexpected: Mutex<Vec<String>>,
}

static SCRIPT: Mutex<Option<Arc<Script>>> = Mutex::new(None);
/// keys of entries written on behalf of MSVC requests of the current history
static FOREIGN_KEYS: Mutex<Vec<String>> = Mutex::new(Vec::new());

fn tu_stdout(t: usize) -> Vec<u8> {
    format!("out{}", t).into_bytes()
}
fn tu_stderr(t: usize) -> Vec<u8> {
    format!("err{}", t).into_bytes()
}
fn tu_pperr(t: usize) -> Vec<u8> {
    format!("ppe{}", t).into_bytes()
}
/// "objN" followed by 48 bytes that do not compress (same formula as Run/C09.v `tu_obj`)
fn tu_obj(t: usize) -> Vec<u8> {
    let mut v = format!("obj{}", t).into_bytes();
    for i in 0..48usize {
        v.push(((i * i * 7 + i * 13 + t * 29 + 3) % 256) as u8);
    }
    v
}

fn tu_of_args(args: &[OsString]) -> Option<usize> {
    for a in args {
        let s = a.to_string_lossy();
        let name = s.rsplit('/').next().unwrap_or("");
        if let Some(rest) = name.strip_prefix("tu") {
            if let Some(num) = rest.strip_suffix(".c") {
                if let Ok(n) = num.parse::<usize>() {
                    if n < NTU {
                        return Some(n);
                    }
                }
            }
        }
    }
    None
}

impl Script {
    fn spawn(&self, program: &OsStr, args: &[OsString]) -> Res<MockChild> {
        let last = args.last().map(|a| a.to_string_lossy().into_owned()).unwrap_or_default();
        if last.ends_with("testfile.c") {
            // compiler detection
            let name = Path::new(program).file_name().map(|n| n.to_string_lossy().into_owned()).unwrap_or_default();
            return Ok(if name == "gcc" {
                MockChild::new(status(0), "compiler_id=gcc\ncompiler_version=\"12.2.0\"\n", "")
            } else if name == "clang" {
                MockChild::new(status(0), "compiler_id=clang\ncompiler_version=\"14.0.6\"\n", "")
            } else if name == "cl" {
                MockChild::new(status(0), "compiler_id=msvc\n", "")
            } else {
                MockChild::new(status(0), "", "not a known compiler")
            });
        }
        if args.iter().any(|a| a == "-showIncludes") && last.ends_with("test.c") {
            // MSVC: detection of the -showIncludes prefix
            let dir = Path::new(&last).parent().map(|p| p.display().to_string()).unwrap_or_default();
            return Ok(MockChild::new(status(0), format!("Note: including file: {}/test.h\n", dir), ""));
        }
        if args.iter().any(|a| a == "-vV") {
            // the "is this a rustc driver?" probe made for executables with an unknown name
            return Ok(MockChild::new(status(1), "", "unknown option -vV"));
        }
        let t = match tu_of_args(args) {
            Some(t) => t,
            None => {
                self.unexpected.lock().unwrap().push(format!("{:?} {:?}", program, args));
                return Ok(MockChild::new(status(97), "", "unexpected command"));
            }
        };
        let o = self.oracles.lock().unwrap()[t];
        if args.iter().any(|a| a == "-E" || a == "-EP") {
            if o.pp_status == 99 {
                // a bug on the way to running the preprocessor
                panic!("injected panic while spawning the preprocessor");
            }
            self.pp_runs[t].fetch_add(1, Ordering::SeqCst);
            self.cur_pp.fetch_add(1, Ordering::SeqCst);
            if o.pp_status != 0 {
                return Ok(MockChild::new(status(o.pp_status), "partial preprocessor output", tu_pperr(t)));
            }
            let c = self.cwd.display();
            let out = format!(
                "# 1 \"{c}/tu{t}.c\"\n# 1 \"{c}/h{t}.h\" 1\nint h{t};\n# 2 \"{c}/tu{t}.c\" 2\nint y{t};\n"
            );
            return Ok(MockChild::new(status(0), out, ""));
        }
        // the compilation proper
        if o.c_status == 99 {
            panic!("injected panic while spawning the compiler");
        }
        self.cc_runs[t].fetch_add(1, Ordering::SeqCst);
        let mut out: Option<PathBuf> = None;
        let mut it = args.iter();
        while let Some(a) = it.next() {
            if a == "-o" {
                out = it.next().map(|p| self.cwd.join(p));
            }
            // MSVC spellings: -Fo<object>, -Fd<program database> (written by every compile that uses it)
            let s = a.to_string_lossy();
            if let Some(p) = s.strip_prefix("-Fo") {
                out = Some(self.cwd.join(p));
            }
            if let Some(p) = s.strip_prefix("-Fd") {
                if o.c_status == 0 {
                    let _ = std::fs::write(self.cwd.join(p), b"pdb");
                }
            }
        }
        if o.c_status != 0 {
            return Ok(MockChild::new(status(o.c_status), tu_stdout(t), tu_stderr(t)));
        }
        if o.c_out {
            if let Some(p) = out {
                if std::fs::write(&p, tu_obj(t)).is_err() {
                    return Ok(MockChild::new(status(1), "", "nodir"));
                }
            }
        }
        Ok(MockChild::new(status(0), tu_stdout(t), tu_stderr(t)))
    }
}

struct FakeCreator {
    script: Arc<Script>,
}

impl CommandCreator for FakeCreator {
    type Cmd = MockCommand;
    fn new(_client: &Client) -> FakeCreator {
        FakeCreator {
            script: SCRIPT.lock().unwrap().clone().expect("script installed"),
        }
    }
    fn new_command<S: AsRef<OsStr>>(&mut self, program: S) -> MockCommand {
        let script = self.script.clone();
        let program: OsString = program.as_ref().to_owned();
        MockCommand {
            child: Some(ChildOrCall::Call(Box::new(move |args| script.spawn(&program, args)))),
            args: vec![],
        }
    }
}

// ---------------------------------------------------------------- the fault-injecting storage

#[derive(Clone, Copy, PartialEq, Eq, Debug, Default)]
enum PpGet {
    #[default]
    None,
    Absent,
    Err,
    Garbage,
    Truncated,
    Empty,
    Panic,
}
#[derive(Clone, Copy, PartialEq, Eq, Debug, Default)]
enum PutF {
    #[default]
    None,
    Err,
    TooLarge,
    Ro,
    Panic,
    /// the write of the entry to its temporary file fails (as on a full disk) AFTER the space was reserved
    WFail,
}
#[derive(Clone, Copy, PartialEq, Eq, Debug, Default)]
enum GetF {
    #[default]
    None,
    Miss,
    Err,
    Timeout,
    Garbage,
    Truncated,
    BadObj,
    NoObj,
    Panic,
    /// the lookup is a genuine hit (entry opened and parsed); BEFORE the request reads it the file is
    /// truncated to zero / overwritten in place / unlinked behind the server's back
    HitTrunc,
    HitOverwrite,
    HitUnlink,
}
#[derive(Clone, Copy, Default, Debug)]
struct Faults {
    ppget: PpGet,
    ppupd: PutF,
    ppput: PutF,
    get: GetF,
    put: PutF,
}

#[derive(Default)]
struct Cur {
    tu: Option<usize>,
    faults: Faults,
    /// the running request is compiled by the fake MSVC: its entries have keys of their own and are not the
    /// unit's entries that `disk` / `poke` steps aim at
    foreign: bool,
}

struct FaultStorage {
    inner: Arc<dyn Storage>,
    script: Arc<Script>,
    cache: PathBuf,
    cur: Mutex<Cur>,
    /// when set, the next `get` reports that it was entered and then waits to be released: lets the
    /// harness act (ZeroStats) while a request is provably in flight
    hold: Mutex<Option<(futures::channel::oneshot::Sender<()>, futures::channel::oneshot::Receiver<()>)>>,
    /// translation unit -> (preprocessor key, result key) learnt from sequential requests
    keys: Arc<Mutex<HashMap<usize, (Option<String>, Option<String>)>>>,
}

fn good_zip(obj: Option<&[u8]>, raw_obj: bool) -> Vec<u8> {
    // a well-formed entry built with the real CacheWrite; optionally with an undecodable `obj`
    let mut w = CacheWrite::new();
    if let Some(o) = obj {
        if raw_obj {
            // valid zip, member `obj` is not a zstd stream
            return raw_member_zip(o);
        }
        w.put_object("obj", &mut Cursor::new(o.to_vec()), Some(0o644)).unwrap();
    }
    w.put_stdout(b"stale stdout").unwrap();
    w.finish().unwrap()
}

fn raw_member_zip(garbage: &[u8]) -> Vec<u8> {
    // Hand-made single-member "stored" zip whose member `obj` holds `garbage` (not zstd).
    let name = b"obj";
    let crc = crc32(garbage);
    let mut v = vec![];
    let lh = |v: &mut Vec<u8>| {
        v.extend_from_slice(&[0x50, 0x4b, 0x03, 0x04, 20, 0, 0, 0, 0, 0, 0, 0, 0x21, 0]);
        v.extend_from_slice(&crc.to_le_bytes());
        v.extend_from_slice(&(garbage.len() as u32).to_le_bytes());
        v.extend_from_slice(&(garbage.len() as u32).to_le_bytes());
        v.extend_from_slice(&(name.len() as u16).to_le_bytes());
        v.extend_from_slice(&0u16.to_le_bytes());
        v.extend_from_slice(name);
    };
    lh(&mut v);
    v.extend_from_slice(garbage);
    let cd_off = v.len() as u32;
    v.extend_from_slice(&[0x50, 0x4b, 0x01, 0x02, 20, 3, 20, 0, 0, 0, 0, 0, 0, 0, 0x21, 0]);
    v.extend_from_slice(&crc.to_le_bytes());
    v.extend_from_slice(&(garbage.len() as u32).to_le_bytes());
    v.extend_from_slice(&(garbage.len() as u32).to_le_bytes());
    v.extend_from_slice(&(name.len() as u16).to_le_bytes());
    v.extend_from_slice(&[0, 0, 0, 0, 0, 0, 0, 0]);
    v.extend_from_slice(&(0o100644u32 << 16).to_le_bytes());
    v.extend_from_slice(&0u32.to_le_bytes());
    v.extend_from_slice(name);
    let cd_len = v.len() as u32 - cd_off;
    v.extend_from_slice(&[0x50, 0x4b, 0x05, 0x06, 0, 0, 0, 0, 1, 0, 1, 0]);
    v.extend_from_slice(&cd_len.to_le_bytes());
    v.extend_from_slice(&cd_off.to_le_bytes());
    v.extend_from_slice(&[0, 0]);
    v
}

fn crc32(data: &[u8]) -> u32 {
    let mut c: u32 = !0;
    for &b in data {
        c ^= b as u32;
        for _ in 0..8 {
            c = if c & 1 != 0 { (c >> 1) ^ 0xedb8_8320 } else { c >> 1 };
        }
    }
    !c
}

impl FaultStorage {
    fn learn(&self, pp: Option<&str>, res: Option<&str>) {
        let cur = self.cur.lock().unwrap();
        if cur.foreign {
            let mut ig = FOREIGN_KEYS.lock().unwrap();
            for k in [pp, res].into_iter().flatten() {
                ig.push(k.to_owned());
            }
            return;
        }
        if let Some(t) = cur.tu {
            let mut k = self.keys.lock().unwrap();
            let e = k.entry(t).or_insert((None, None));
            if let Some(p) = pp {
                e.0 = Some(p.to_owned());
            }
            if let Some(r) = res {
                e.1 = Some(r.to_owned());
            }
        }
    }
    fn faults(&self) -> Faults {
        self.cur.lock().unwrap().faults
    }
}

#[async_trait]
impl Storage for FaultStorage {
    async fn get(&self, key: &str) -> Res<Cache> {
        self.learn(None, Some(key));
        let held = self.hold.lock().unwrap().take();
        if let Some((entered, release)) = held {
            let _ = entered.send(());
            let _ = release.await;
        }
        match self.faults().get {
            GetF::None => self.inner.get(key).await,
            GetF::Miss => Ok(Cache::Miss),
            GetF::Err => Err(anyhow::anyhow!("injected storage read error")),
            GetF::Timeout => {
                tokio::time::sleep(Duration::from_secs(100_000)).await;
                Ok(Cache::Miss)
            }
            // the same calls DiskCache::get makes on the bytes it finds
            GetF::Garbage => Ok(Cache::Hit(CacheRead::from(Cursor::new(b"\x01garbage, not a zip archive".to_vec()))?)),
            GetF::Truncated => {
                let z = good_zip(Some(b"obj"), false);
                Ok(Cache::Hit(CacheRead::from(Cursor::new(z[..z.len() / 2].to_vec()))?))
            }
            GetF::BadObj => Ok(Cache::Hit(CacheRead::from(Cursor::new(good_zip(Some(b"this is not zstd"), true)))?)),
            GetF::NoObj => Ok(Cache::Hit(CacheRead::from(Cursor::new(good_zip(None, false)))?)),
            // a bug in the storage backend (an unwrap, a poisoned lock, ...)
            GetF::Panic => panic!("injected panic in Storage::get"),
            f @ (GetF::HitTrunc | GetF::HitOverwrite | GetF::HitUnlink) => {
                let r = self.inner.get(key).await;
                if let Ok(Cache::Hit(_)) = &r {
                    // the fault happens DURING the request: after the entry was opened, before it is read
                    let path = res_path(&self.cache, key);
                    match f {
                        GetF::HitTrunc => {
                            let _ = std::fs::OpenOptions::new().write(true).truncate(true).open(&path);
                        }
                        GetF::HitOverwrite => {
                            if let Ok(len) = std::fs::metadata(&path).map(|m| m.len()) {
                                use std::io::{Seek, SeekFrom, Write};
                                if let Ok(mut fh) = std::fs::OpenOptions::new().write(true).open(&path) {
                                    let _ = fh.seek(SeekFrom::Start(0));
                                    let _ = fh.write_all(&vec![0x5au8; len as usize]);
                                }
                            }
                        }
                        _ => {
                            let _ = std::fs::remove_file(&path);
                        }
                    }
                }
                r
            }
        }
    }

    async fn put(&self, key: &str, entry: CacheWrite) -> Res<Duration> {
        self.learn(None, Some(key));
        match self.faults().put {
            PutF::None => self.inner.put(key, entry).await,
            PutF::Err => Err(anyhow::anyhow!("injected storage write error")),
            PutF::TooLarge => Err(sccache::lru_disk_cache::Error::FileTooLarge.into()),
            PutF::Ro => ReadOnlyStorage(self.inner.clone()).put(key, entry).await,
            PutF::Panic => panic!("injected panic in Storage::put"),
            PutF::WFail => {
                set_file_size_limit(Some(16));
                let r = self.inner.put(key, entry).await;
                set_file_size_limit(None);
                r
            }
        }
    }

    async fn check(&self) -> Res<CacheMode> {
        self.inner.check().await
    }
    fn location(&self) -> String {
        self.inner.location()
    }
    async fn current_size(&self) -> Res<Option<u64>> {
        self.inner.current_size().await
    }
    async fn max_size(&self) -> Res<Option<u64>> {
        self.inner.max_size().await
    }
    fn preprocessor_cache_mode_config(&self) -> PreprocessorCacheModeConfig {
        self.inner.preprocessor_cache_mode_config()
    }

    async fn get_preprocessor_cache_entry(
        &self,
        key: &str,
    ) -> Res<Option<Box<dyn sccache::lru_disk_cache::ReadSeek>>> {
        self.learn(Some(key), None);
        let sub = |b: Vec<u8>| -> Res<Option<Box<dyn sccache::lru_disk_cache::ReadSeek>>> {
            Ok(Some(Box::new(Cursor::new(b))))
        };
        match self.faults().ppget {
            PpGet::None => self.inner.get_preprocessor_cache_entry(key).await,
            PpGet::Absent => Ok(None),
            PpGet::Err => Err(anyhow::anyhow!("injected preprocessor cache read error")),
            PpGet::Garbage => sub(b"\x07garbage garbage garbage".to_vec()),
            PpGet::Truncated => {
                // the first half of whatever is stored, or of a well-formed non-trivial entry
                let mut bytes = vec![];
                if let Ok(Some(mut r)) = self.inner.get_preprocessor_cache_entry(key).await {
                    let _ = r.read_to_end(&mut bytes);
                }
                if bytes.len() < 8 {
                    bytes = vec![0u8; 1];
                    bytes.extend_from_slice(&7u64.to_le_bytes());
                    bytes.extend_from_slice(&[1, 0, 0, 0]);
                }
                let n = std::cmp::max(2, bytes.len() / 2);
                sub(bytes[..n].to_vec())
            }
            PpGet::Empty => sub(vec![]),
            PpGet::Panic => panic!("injected panic in Storage::get_preprocessor_cache_entry"),
        }
    }

    async fn put_preprocessor_cache_entry(&self, key: &str, e: PreprocessorCacheEntry) -> Res<()> {
        self.learn(Some(key), None);
        let f = self.faults();
        let which = if self.cur.lock().unwrap().tu.is_some() && self.script.cur_pp.load(Ordering::SeqCst) == 0 {
            f.ppupd
        } else {
            f.ppput
        };
        match which {
            PutF::None => self.inner.put_preprocessor_cache_entry(key, e).await,
            PutF::Err | PutF::TooLarge => Err(anyhow::anyhow!("injected preprocessor cache write error")),
            PutF::Ro => ReadOnlyStorage(self.inner.clone()).put_preprocessor_cache_entry(key, e).await,
            PutF::Panic => panic!("injected panic in Storage::put_preprocessor_cache_entry"),
            PutF::WFail => {
                set_file_size_limit(Some(16));
                let r = self.inner.put_preprocessor_cache_entry(key, e).await;
                set_file_size_limit(None);
                r
            }
        }
    }
}

// ---------------------------------------------------------------- one history

/// Fallback for trees without the hook `SccacheService::verif_mock_with_failing_dist_client`: an inherent
/// associated function of that name, when present, takes precedence over this trait's.
trait FailingDistFallback: Sized {
    fn verif_mock_with_failing_dist_client(_msg: &str, _storage: Arc<dyn Storage>, _rt: tokio::runtime::Handle) -> Option<Self> {
        None
    }
}
impl FailingDistFallback for SccacheService<Creator> {}
trait IntoService {
    fn into_service(self) -> Option<SccacheService<Creator>>;
}
impl IntoService for SccacheService<Creator> {
    fn into_service(self) -> Option<SccacheService<Creator>> {
        Some(self)
    }
}
impl IntoService for Option<SccacheService<Creator>> {
    fn into_service(self) -> Option<SccacheService<Creator>> {
        self
    }
}

struct World {
    dir: tempfile::TempDir,
    cwd: PathBuf,
    cache: PathBuf,
    ppmode: bool,
    script: Arc<Script>,
    keys: Arc<Mutex<HashMap<usize, (Option<String>, Option<String>)>>>,
    storage: Arc<FaultStorage>,
    service: SccacheService<Creator>,
    rt: tokio::runtime::Handle,
}

fn res_path(cache: &Path, key: &str) -> PathBuf {
    cache.join(&key[0..1]).join(&key[1..2]).join(key)
}
fn pp_path(cache: &Path, key: &str) -> PathBuf {
    cache.join("preprocessor").join(&key[0..1]).join(&key[1..2]).join(&key[2..3]).join(key)
}

fn walk(dir: &Path, out: &mut Vec<PathBuf>) {
    if let Ok(rd) = std::fs::read_dir(dir) {
        for e in rd.flatten() {
            let p = e.path();
            match e.file_type() {
                Ok(t) if t.is_dir() => walk(&p, out),
                Ok(t) if t.is_file() => out.push(p),
                _ => {}
            }
        }
    }
}

async fn make_storage(
    cache: &Path,
    ppmode: bool,
    ro: bool,
    rt: &tokio::runtime::Handle,
    script: &Arc<Script>,
    keys: &Arc<Mutex<HashMap<usize, (Option<String>, Option<String>)>>>,
) -> Arc<FaultStorage> {
    let disk = DiskCache::new(
        cache,
        CAPACITY.load(Ordering::SeqCst),
        rt,
        PreprocessorCacheModeConfig {
            use_preprocessor_cache_mode: ppmode,
            ..Default::default()
        },
        if ro { CacheMode::ReadOnly } else { CacheMode::ReadWrite },
    );
    let raw: Arc<dyn Storage> = Arc::new(disk);
    // exactly what server::start_server does with the result of `check()`
    let inner: Arc<dyn Storage> = match raw.check().await {
        Ok(CacheMode::ReadOnly) => Arc::new(ReadOnlyStorage(raw)),
        _ => raw,
    };
    // build both LRU indices now, so that "indexed" = "file existed at (re)start or was stored since"
    let _ = inner.get("00000000000000000000000000000000").await;
    let _ = inner.get_preprocessor_cache_entry("00000000000000000000000000000000").await;
    Arc::new(FaultStorage {
        inner,
        script: script.clone(),
        cache: cache.to_path_buf(),
        cur: Mutex::new(Cur::default()),
        hold: Mutex::new(None),
        keys: keys.clone(),
    })
}

fn sym_of<T: Copy + PartialEq>(x: &Sx, table: &[(&str, T)], what: &str) -> Result<T, String> {
    for (n, v) in table {
        if x.is_sym(n) {
            return Ok(*v);
        }
    }
    Err(format!("bad {}: {}", what, x))
}

fn parse_faults(x: &Sx) -> Result<Faults, String> {
    let l = x.list();
    if l.len() != 5 {
        return Err("faults arity".into());
    }
    let put_t = [("none", PutF::None), ("err", PutF::Err), ("toolarge", PutF::TooLarge), ("ro", PutF::Ro), ("panic", PutF::Panic), ("wfail", PutF::WFail)];
    Ok(Faults {
        ppget: sym_of(
            &l[0],
            &[
                ("none", PpGet::None),
                ("absent", PpGet::Absent),
                ("err", PpGet::Err),
                ("garbage", PpGet::Garbage),
                ("truncated", PpGet::Truncated),
                ("empty", PpGet::Empty),
                ("panic", PpGet::Panic),
            ],
            "ppget",
        )?,
        ppupd: sym_of(&l[1], &put_t, "ppupd")?,
        ppput: sym_of(&l[2], &put_t, "ppput")?,
        get: sym_of(
            &l[3],
            &[
                ("none", GetF::None),
                ("miss", GetF::Miss),
                ("err", GetF::Err),
                ("timeout", GetF::Timeout),
                ("garbage", GetF::Garbage),
                ("truncated", GetF::Truncated),
                ("badobj", GetF::BadObj),
                ("noobj", GetF::NoObj),
                ("panic", GetF::Panic),
                ("hit_trunc", GetF::HitTrunc),
                ("hit_overwrite", GetF::HitOverwrite),
                ("hit_unlink", GetF::HitUnlink),
            ],
            "get",
        )?,
        put: sym_of(&l[4], &put_t, "put")?,
    })
}

struct Req {
    tu: usize,
    class: String,
    cc: String,
    extract_ok: bool,
    faults: Faults,
}

fn parse_req(x: &Sx) -> Result<Req, String> {
    // ( req tu class cc extract_ok faults )
    let l = x.list();
    if l.len() != 6 {
        return Err("req arity".into());
    }
    let tu = l[1].u64() as usize;
    if tu >= NTU {
        return Err("tu out of range".into());
    }
    Ok(Req {
        tu,
        class: l[2].str(),
        cc: l[3].str(),
        extract_ok: l[4].as_bool(),
        faults: parse_faults(&l[5])?,
    })
}

impl World {
    async fn new(ppmode: bool, oracles: [Oracle; NTU], rt: tokio::runtime::Handle) -> World {
        let dir = tempfile::Builder::new().prefix("vh-c09-").tempdir_in(scratch()).unwrap();
        SCRATCH_DIRS.lock().unwrap().push(dir.path().to_path_buf());
        let cwd = dir.path().join("w");
        let cache = dir.path().join("cache");
        std::fs::create_dir_all(&cwd).unwrap();
        std::fs::create_dir_all(&cache).unwrap();
        std::fs::write(cwd.join("gcc"), b"#!/bin/sh\n").unwrap();
        std::fs::write(cwd.join("clang"), b"#!/bin/sh\n# clang\n").unwrap();
        std::fs::write(cwd.join("cl"), b"#!/bin/sh\n# cl\n").unwrap();
        std::fs::write(cwd.join("unk"), b"#!/bin/sh\n").unwrap();
        let old = filetime::FileTime::from_unix_time(1_600_000_000, 0);
        for t in 0..NTU {
            std::fs::write(cwd.join(format!("tu{}.c", t)), format!("#include \"h{t}.h\"\nint y{t};\n")).unwrap();
            let h = cwd.join(format!("h{}.h", t));
            let body = if oracles[t].upd {
                format!("int h{t}; /* built __TIMESTAMP__ */\n")
            } else {
                format!("int h{t};\n")
            };
            std::fs::write(&h, body).unwrap();
            // headers newer than the compilation start are not recorded in the manifest
            filetime::set_file_mtime(&h, old).unwrap();
        }
        let script = Arc::new(Script {
            cwd: cwd.clone(),
            oracles: Mutex::new(oracles),
            pp_runs: Default::default(),
            cc_runs: Default::default(),
            cur_pp: AtomicU64::new(0),
            unexpected: Mutex::new(vec![]),
        });
        *SCRIPT.lock().unwrap() = Some(script.clone());
        FOREIGN_KEYS.lock().unwrap().clear();
        let keys = Arc::new(Mutex::new(HashMap::new()));
        let storage = make_storage(&cache, ppmode, false, &rt, &script, &keys).await;
        let service = SccacheService::<Creator>::mock_with_storage(storage.clone(), rt.clone());
        World { dir, cwd, cache, ppmode, script, keys, storage, service, rt }
    }

    async fn restart(&mut self, ro: bool) {
        self.storage = make_storage(&self.cache, self.ppmode, ro, &self.rt, &self.script, &self.keys).await;
        self.service = SccacheService::<Creator>::mock_with_storage(self.storage.clone(), self.rt.clone());
    }

    fn compile_msg(&self, r: &Req) -> (Request, PathBuf) {
        self.compile_msg_to(r, "")
    }

    /// `compile_msg` with the object file named `tu<N><suffix>.o`.  The output path is not part of either hash key
    /// (`-o` is an output argument, not a common one), so requests that differ only in `suffix` share their keys.
    fn compile_msg_to(&self, r: &Req, suffix: &str) -> (Request, PathBuf) {
        let t = r.tu;
        let out_rel = if r.extract_ok { format!("tu{}{}.o", t, suffix) } else { format!("nodir/tu{}{}.o", t, suffix) };
        let out = self.cwd.join(&out_rel);
        let _ = std::fs::remove_file(&out);
        let src = format!("tu{}.c", t);
        let (exe, args): (PathBuf, Vec<String>) = match r.class.as_str() {
            // four (language, compiler) pairs of ONE language family: unit 0 c [gcc], 1 c++ [gcc], 2 c [clang],
            // 3 c++ [clang] — one per-language key, four per-language-and-compiler keys
            "compile" => {
                let exe = self.cwd.join(if t >= 2 { "clang" } else { "gcc" });
                let mut a: Vec<String> = vec![];
                if t % 2 == 1 {
                    a.push("-x".into());
                    a.push("c++".into());
                }
                a.extend(["-c".to_string(), src, "-o".to_string(), out_rel]);
                (exe, a)
            }
            // MSVC with a program database that already exists (shared with an earlier compilation): argument
            // parsing accepts the request, generate_compile_commands answers Cacheable::No -> NotCacheable
            "msvc_nc" => {
                let _ = std::fs::write(self.cwd.join("shared.pdb"), b"pdb of an earlier compilation");
                (
                    self.cwd.join("cl"),
                    vec!["-c".into(), src, format!("-Fo{}", out_rel), "-Zi".into(), "-Fdshared.pdb".into()],
                )
            }
            // `sccache <compiler>` without a single argument
            "noargs" => (self.cwd.join(if t >= 2 { "clang" } else { "gcc" }), vec![]),
            "unsupported" => (self.cwd.join("unk"), vec!["-c".into(), src, "-o".into(), out_rel]),
            "vanished" => (self.cwd.join("gone-gcc"), vec!["-c".into(), src, "-o".into(), out_rel]),
            "notcompile" => (self.cwd.join("gcc"), vec![src, "-o".into(), format!("tu{}", t)]),
            // two inputs: "multiple input files"
            "cannotcache" => (self.cwd.join("gcc"), vec!["-c".into(), src, "tu_other.c".into(), "-o".into(), out_rel]),
            // response file: "@"
            _ => (self.cwd.join("gcc"), vec!["-c".into(), src, "@rsp".into(), "-o".into(), out_rel]),
        };
        let mut env: Vec<(OsString, OsString)> = vec![];
        match r.cc.as_str() {
            "recache" => env.push(("SCCACHE_RECACHE".into(), "1".into())),
            "nocache" => env.push(("SCCACHE_NO_CACHE".into(), "1".into())),
            _ => {}
        }
        (
            Request::Compile(Compile {
                exe: exe.into_os_string(),
                cwd: self.cwd.clone().into_os_string(),
                args: args.into_iter().map(OsString::from).collect(),
                env_vars: env,
            }),
            out,
        )
    }

    /// Run one compile request through the real `Service::call`; returns the client-side view.
    /// `run_req_inner` with a guard: a request that is never answered is reported as `hung` (10 minutes, real or
    /// virtual; far beyond the 60 s lookup time-out).
    async fn run_req(service: SccacheService<Creator>, msg: Request, out: PathBuf) -> Sx {
        match tokio::time::timeout(request_timeout(), World::run_req_inner(service, msg, out)).await {
            Ok(x) => x,
            Err(_) => Sx::L(vec![Sx::L(vec![Sx::sym("hung")]), Sx::L(vec![])]),
        }
    }

    async fn run_req_inner(service: SccacheService<Creator>, msg: Request, out: PathBuf) -> Sx {
        let call = std::panic::AssertUnwindSafe(service.verif_call(msg)).catch_unwind().await;
        let client = match call {
            Err(_) => Sx::L(vec![Sx::sym("panic")]),
            Ok(Err(_)) => Sx::L(vec![Sx::sym("call_err")]),
            Ok(Ok((Response::Compile(CompileResponse::UnsupportedCompiler(_)), _))) => Sx::L(vec![Sx::sym("unsupported")]),
            Ok(Ok((Response::Compile(CompileResponse::UnhandledCompile), _))) => Sx::L(vec![Sx::sym("unhandled")]),
            Ok(Ok((Response::Compile(CompileResponse::CompileStarted), Some(body)))) => {
                match std::panic::AssertUnwindSafe(body).catch_unwind().await {
                    Ok(Ok(Response::CompileFinished(cf))) => match (cf.retcode, cf.signal) {
                        (Some(-2), _) => Sx::L(vec![Sx::sym("fatal")]),
                        (Some(c), _) => Sx::L(vec![
                            Sx::sym("finished"),
                            Sx::n((c as i64 & 0xff) as u64),
                            Sx::B(cf.stdout),
                            Sx::B(cf.stderr),
                        ]),
                        // killed by a signal: reported as status 256 + signal (the model's statuses are numbers)
                        (None, s) => Sx::L(vec![
                            Sx::sym("finished"),
                            Sx::n(256 + s.unwrap_or(0) as u64),
                            Sx::B(cf.stdout),
                            Sx::B(cf.stderr),
                        ]),
                    },
                    Ok(Ok(_)) => Sx::L(vec![Sx::sym("bad_body")]),
                    Ok(Err(_)) => Sx::L(vec![Sx::sym("body_err")]),
                    Err(_) => Sx::L(vec![Sx::sym("panic")]),
                }
            }
            Ok(Ok(_)) => Sx::L(vec![Sx::sym("bad_response")]),
        };
        let outputs = match std::fs::read(&out) {
            Ok(b) => Sx::L(vec![Sx::B(b)]),
            Err(_) => Sx::L(vec![]),
        };
        Sx::L(vec![client, outputs])
    }

    fn runs(&self) -> (Vec<u64>, Vec<u64>) {
        (
            self.script.pp_runs.iter().map(|a| a.load(Ordering::SeqCst)).collect(),
            self.script.cc_runs.iter().map(|a| a.load(Ordering::SeqCst)).collect(),
        )
    }

    /// (res_good res_bad pp_good pp_bad pp_empty): what is on disk, judged with the real decoders.
    fn disk(&self) -> Sx {
        let mut files = vec![];
        walk(&self.cache, &mut files);
        let (mut rg, mut rb, mut pg, mut pb, mut pe) = (0u64, 0u64, 0u64, 0u64, 0u64);
        let pp_root = self.cache.join("preprocessor");
        for f in files {
            if f.file_name().map(|n| n.to_string_lossy().starts_with(".sccachetmp")).unwrap_or(false) {
                continue;
            }
            let bytes = std::fs::read(&f).unwrap_or_default();
            if f.starts_with(&pp_root) {
                if bytes.is_empty() {
                    pe += 1;
                } else if PreprocessorCacheEntry::read(&bytes).is_ok() {
                    pg += 1;
                } else {
                    pb += 1;
                }
            } else {
                let ok = match CacheRead::from(Cursor::new(bytes)) {
                    Ok(mut r) => {
                        r.get_object("obj", &mut std::io::sink()).is_ok()
                            && r.get_stdout().is_ok()
                            && r.get_stderr().is_ok()
                    }
                    Err(_) => false,
                };
                if ok {
                    rg += 1
                } else {
                    rb += 1
                }
            }
        }
        // anything created in the scratch directory OUTSIDE the cache directory and the working directory
        let mut escaped = 0u64;
        if let Ok(rd) = std::fs::read_dir(self.dir.path()) {
            for e in rd.flatten() {
                let n = e.file_name().to_string_lossy().into_owned();
                if n != "w" && n != "cache" && n != "cache.saved" && n != "cached-config" {
                    escaped += 1;
                }
            }
        }
        Sx::L(vec![Sx::n(rg), Sx::n(rb), Sx::n(pg), Sx::n(pb), Sx::n(pe), Sx::n(escaped)])
    }

    async fn stats(&self) -> Sx {
        match tokio::time::timeout(request_timeout(), self.service.verif_call(Request::GetStats)).await {
            Ok(Ok((Response::Stats(info), _))) => stats_sx(&info.stats),
            Ok(_) => Sx::L(vec![Sx::sym("no_stats")]),
            Err(_) => Sx::L(vec![Sx::sym("stats_hung")]),
        }
    }

    /// Learn which entry files belong to which translation unit from their CONTENT (the stored object is
    /// `objN`, the recorded include file is `hN.h`): needed for requests that ran concurrently, where the
    /// storage wrapper cannot tell on whose behalf it is called.
    fn learn_from_disk(&self) {
        let mut files = vec![];
        walk(&self.cache, &mut files);
        let pp_root = self.cache.join("preprocessor");
        let mut keys = self.keys.lock().unwrap();
        for f in files {
            let name = match f.file_name() {
                Some(n) => n.to_string_lossy().into_owned(),
                None => continue,
            };
            if name.starts_with(".sccachetmp") || FOREIGN_KEYS.lock().unwrap().contains(&name) {
                continue;
            }
            let bytes = std::fs::read(&f).unwrap_or_default();
            if f.starts_with(&pp_root) {
                for t in 0..NTU {
                    let pat = format!("/h{}.h", t).into_bytes();
                    if bytes.windows(pat.len()).any(|w| w == &pat[..]) {
                        keys.entry(t).or_insert((None, None)).0 = Some(name.clone());
                    }
                }
            } else if let Ok(mut r) = CacheRead::from(Cursor::new(bytes)) {
                let mut obj = vec![];
                if r.get_object("obj", &mut obj).is_ok() {
                    for t in 0..NTU {
                        if obj == tu_obj(t) {
                            keys.entry(t).or_insert((None, None)).1 = Some(name.clone());
                        }
                    }
                }
            }
        }
    }

    fn disk_op(&self, target: &str, what: &str, tu: usize, off: u64) {
        if !self.cache.is_dir() {
            return;
        }
        self.learn_from_disk();
        let k = self.keys.lock().unwrap().get(&tu).cloned().unwrap_or((None, None));
        let path = match target {
            "res" => k.1.map(|k| res_path(&self.cache, &k)),
            _ => k.0.map(|k| pp_path(&self.cache, &k)),
        };
        let path = match path {
            Some(p) if p.is_file() => p,
            _ => return,
        };
        match what {
            "flip" => {
                // change one byte IN PLACE inside the stored data of one member: the file length, the zip
                // directory and (usually) the zstd framing stay valid
                if target != "res" {
                    return;
                }
                let mut b = std::fs::read(&path).unwrap();
                let members = match CacheRead::from(Cursor::new(b.clone())) {
                    Ok(mut r) => r.verif_members(),
                    Err(_) => return,
                };
                let want = ["obj", "stdout", "stderr"][(off % 3) as usize];
                if let Some((_, start, size, _)) = members.iter().find(|m| m.0 == want) {
                    if *size > 0 {
                        let pos = (*start + (off / 3) % *size) as usize;
                        if pos < b.len() {
                            b[pos] = b[pos].wrapping_add(1);
                            std::fs::write(&path, &b).unwrap();
                        }
                    }
                }
            }
            "garbage" => std::fs::write(&path, b"\x09overwritten with garbage behind the server's back").unwrap(),
            "truncate" => {
                let b = std::fs::read(&path).unwrap();
                let n = std::cmp::max(2, b.len() / 2);
                if b.len() > n {
                    std::fs::write(&path, &b[..n]).unwrap()
                } else {
                    std::fs::write(&path, b"\x00\x01").unwrap()
                }
            }
            "empty" => std::fs::write(&path, b"").unwrap(),
            _ => std::fs::remove_file(&path).unwrap(),
        }
    }
}

fn stats_sx(s: &ServerStats) -> Sx {
    let plc = |p: &sccache::server::PerLanguageCount| -> Vec<Sx> {
        let (c, a) = p.verif_maps();
        let mut cs: Vec<u64> = c.values().copied().collect();
        let mut as_: Vec<u64> = a.values().copied().collect();
        cs.sort();
        as_.sort();
        vec![
            Sx::n(p.all()),
            Sx::L(cs.into_iter().map(Sx::n).collect()),
            Sx::L(as_.into_iter().map(Sx::n).collect()),
        ]
    };
    let mut v = vec![
        Sx::n(s.compile_requests),
        Sx::n(s.requests_unsupported_compiler),
        Sx::n(s.requests_not_compile),
        Sx::n(s.requests_not_cacheable),
        Sx::n(s.requests_executed),
    ];
    v.push(Sx::L(plc(&s.cache_errors)));
    v.push(Sx::L(plc(&s.cache_hits)));
    v.push(Sx::L(plc(&s.cache_misses)));
    v.extend([
        Sx::n(s.cache_timeouts),
        Sx::n(s.cache_read_errors),
        Sx::n(s.non_cacheable_compilations),
        Sx::n(s.forced_recaches),
        Sx::n(s.cache_write_errors),
        Sx::n(s.cache_writes),
        Sx::n(s.compilations),
        Sx::n(s.compile_fails),
    ]);
    let mut nc: Vec<u64> = s.not_cached.values().map(|v| *v as u64).collect();
    nc.sort();
    v.push(Sx::L(nc.into_iter().map(Sx::n).collect()));
    v.push(Sx::n(s.dist_errors + s.dist_compiles.values().map(|v| *v as u64).sum::<u64>()));
    Sx::L(v)
}

/// size limit of the DiskCache of the current history (a small one when bit 1 of the case's first field is set)
static CAPACITY: AtomicU64 = AtomicU64::new(1 << 30);

/// RLIMIT_FSIZE of the process: a write beyond it fails with EFBIG (SIGXFSZ is ignored), which is how a store is
/// made to fail AFTER its reservation, while the entry is written to its temporary file.
fn set_file_size_limit(limit: Option<u64>) {
    unsafe {
        let mut r = libc::rlimit { rlim_cur: 0, rlim_max: 0 };
        libc::getrlimit(libc::RLIMIT_FSIZE, &mut r);
        r.rlim_cur = match limit {
            Some(l) => l as libc::rlim_t,
            None => r.rlim_max,
        };
        libc::setrlimit(libc::RLIMIT_FSIZE, &r);
    }
}

static PAUSED: std::sync::atomic::AtomicBool = std::sync::atomic::AtomicBool::new(false);

/// How long a request may stay unanswered: 8 s of real time (a request of these histories takes milliseconds), or 600 s of virtual time on the paused clock
/// (far beyond the 60 s lookup time-out; virtual time only advances when nothing else can run).
fn request_timeout() -> Duration {
    if PAUSED.load(Ordering::SeqCst) {
        Duration::from_secs(600)
    } else {
        Duration::from_secs(8)
    }
}

fn scratch() -> PathBuf {
    let p = if Path::new("/dev/shm").is_dir() { PathBuf::from("/dev/shm") } else { std::env::temp_dir() };
    p
}

fn diff(a: &[u64], b: &[u64]) -> Vec<Sx> {
    a.iter().zip(b).map(|(x, y)| Sx::n(y - x)).collect()
}

async fn run_case(case: &Sx, rt: tokio::runtime::Handle) -> Result<Sx, String> {
    // ( ppmode ( oracle x NTU ) ( step ... ) )
    let l = case.list();
    if l.len() != 3 {
        return Err("case arity".into());
    }
    // first field: bit 0 = preprocessor cache mode, bit 1 = a small cache (room for four result entries)
    let ppmode = l[0].u64() & 1 == 1;
    CAPACITY.store(if l[0].u64() & 2 == 2 { 2000 } else { 1 << 30 }, Ordering::SeqCst);
    let mut oracles = [Oracle::default(); NTU];
    for (i, o) in l[1].list().iter().enumerate().take(NTU) {
        let f = o.list();
        if f.len() != 4 {
            return Err("oracle arity".into());
        }
        oracles[i] = Oracle {
            pp_status: f[0].u64() as i32,
            upd: f[1].as_bool(),
            c_status: f[2].u64() as i32,
            c_out: f[3].as_bool(),
        };
    }
    let mut w = World::new(ppmode, oracles, rt).await;
    let mut obs = vec![];
    for step in l[2].list() {
        if format!("{}", Sx::L(obs.clone())).contains("hung") {
            obs.push(Sx::L(vec![Sx::sym("aborted")]));
            continue;
        }
        let tag = step.tag();
        match tag.as_str() {
            "req" => {
                let r = parse_req(step)?;
                {
                    let mut c = w.storage.cur.lock().unwrap();
                    c.tu = Some(r.tu);
                    c.faults = r.faults;
                    c.foreign = r.class == "msvc_nc";
                }
                w.script.cur_pp.store(0, Ordering::SeqCst);
                let (p0, c0) = w.runs();
                let (msg, out) = w.compile_msg(&r);
                let res = World::run_req(w.service.clone(), msg, out).await;
                {
                    let mut c = w.storage.cur.lock().unwrap();
                    c.tu = None;
                    c.faults = Faults::default();
                    c.foreign = false;
                }
                let (p1, c1) = w.runs();
                obs.push(Sx::L(vec![
                    Sx::sym("req"),
                    res,
                    Sx::n(p1[r.tu] - p0[r.tu]),
                    Sx::n(c1[r.tu] - c0[r.tu]),
                    w.disk(),
                    w.stats().await,
                ]));
            }
            "midzero" => {
                // ( midzero ( req ... ) ): ZeroStats while the request is blocked inside its cache lookup
                let r = parse_req(step.arg(1))?;
                {
                    let mut c = w.storage.cur.lock().unwrap();
                    c.tu = Some(r.tu);
                    c.faults = r.faults;
                    c.foreign = r.class == "msvc_nc";
                }
                w.script.cur_pp.store(0, Ordering::SeqCst);
                let (p0, c0) = w.runs();
                let (msg, out) = w.compile_msg(&r);
                let (etx, erx) = futures::channel::oneshot::channel::<()>();
                let (rtx, rrx) = futures::channel::oneshot::channel::<()>();
                *w.storage.hold.lock().unwrap() = Some((etx, rrx));
                let task = w.rt.spawn(World::run_req(w.service.clone(), msg, out));
                let res = match futures::future::select(erx, task).await {
                    futures::future::Either::Left((entered, task)) => {
                        if entered.is_ok() {
                            let _ = w.service.verif_call(Request::ZeroStats).await;
                        }
                        let _ = rtx.send(());
                        task.await.unwrap_or_else(|_| Sx::L(vec![Sx::sym("join_err")]))
                    }
                    futures::future::Either::Right((res, _)) => {
                        // the request never looked the cache up: zero afterwards
                        *w.storage.hold.lock().unwrap() = None;
                        let _ = w.service.verif_call(Request::ZeroStats).await;
                        res.unwrap_or_else(|_| Sx::L(vec![Sx::sym("join_err")]))
                    }
                };
                *w.storage.hold.lock().unwrap() = None;
                {
                    let mut c = w.storage.cur.lock().unwrap();
                    c.tu = None;
                    c.faults = Faults::default();
                    c.foreign = false;
                }
                let (p1, c1) = w.runs();
                obs.push(Sx::L(vec![
                    Sx::sym("midzero"),
                    res,
                    Sx::n(p1[r.tu] - p0[r.tu]),
                    Sx::n(c1[r.tu] - c0[r.tu]),
                    w.disk(),
                    w.stats().await,
                ]));
            }
            "par" => {
                let mut reqs = vec![];
                for x in &step.list()[1..] {
                    reqs.push(parse_req(x)?);
                }
                let (p0, c0) = w.runs();
                let mut futs = vec![];
                for r in &reqs {
                    let (msg, out) = w.compile_msg(r);
                    // each request on its own task, so that they really interleave
                    futs.push(w.rt.spawn(World::run_req(w.service.clone(), msg, out)));
                }
                let mut results = vec![];
                for f in futs {
                    results.push(f.await.unwrap_or_else(|_| Sx::L(vec![Sx::sym("join_err")])));
                }
                let (p1, c1) = w.runs();
                obs.push(Sx::L(vec![
                    Sx::sym("par"),
                    Sx::L(results),
                    Sx::L(diff(&p0, &p1)),
                    Sx::L(diff(&c0, &c1)),
                    w.disk(),
                    w.stats().await,
                ]));
            }
            "disk" => {
                // ( disk target what tu )
                w.disk_op(&step.arg(1).str(), &step.arg(2).str(), step.arg(3).u64() as usize, step.arg(4).u64());
                obs.push(Sx::L(vec![Sx::sym("disk"), w.disk()]));
            }
            "restart" => {
                w.restart(step.arg(1).is_sym("ro")).await;
                obs.push(Sx::L(vec![Sx::sym("restart"), w.disk(), w.stats().await]));
            }
            "twin" => {
                // ( twin tu ): two concurrent forced-recache requests of ONE unit: both compile, both store under the
                // same key.  Using the sync points of DiskCache::put, the first store to reserve waits until the
                // second has reserved too; then its write is made to fail (disk full) and it gives up; only then
                // may the second one write and commit.
                let tu = step.arg(1).u64() as usize;
                let r = Req { tu, class: "compile".into(), cc: "recache".into(), extract_ok: true, faults: Faults::default() };
                struct Twin {
                    reserved: u32,
                    release_second: bool,
                }
                let state = Arc::new((Mutex::new(Twin { reserved: 0, release_second: false }), std::sync::Condvar::new()));
                let st2 = state.clone();
                sccache::verif_hooks::set_sync_controller(Some(Box::new(move |point: &str, key: &Path, _len: u64| {
                    if point != "put.reserved" || key.starts_with("preprocessor") {
                        return;
                    }
                    let (m, cv) = &*st2;
                    let mut g = m.lock().unwrap();
                    g.reserved += 1;
                    if g.reserved == 1 {
                        // first: wait (bounded) for the twin's reservation, then write under a full disk
                        let (g2, _) = cv.wait_timeout_while(g, Duration::from_secs(5), |t| t.reserved < 2).unwrap();
                        drop(g2);
                        set_file_size_limit(Some(16));
                    } else if g.reserved == 2 {
                        cv.notify_all();
                        // second: wait until the first has failed and given up
                        let (g2, _) = cv.wait_timeout_while(g, Duration::from_secs(8), |t| !t.release_second).unwrap();
                        drop(g2);
                    }
                })));
                let (p0, c0) = w.runs();
                // Each request has an object file of its own.  What is studied here is two STORES of one key in
                // flight; two compilers writing one output file at the same time is a different thing, and no storage
                // fault: a compiler truncates its output before it writes it, so the other request — which reads its
                // object back after its own compiler has exited — could find the file empty and store that (a direct
                // compile races in the same way).  With one shared file this made about one run in ten of the
                // unchanged tree report a hit with an empty object.  (That the two stores still reserve under ONE key
                // was checked at the `put.reserved` sync point when this was changed: 880 twin steps, no difference.)
                let (m1, o1) = w.compile_msg(&r);
                let (m2, o2) = w.compile_msg_to(&r, ".twin");
                let f1 = w.rt.spawn(World::run_req(w.service.clone(), m1, o1));
                let f2 = w.rt.spawn(World::run_req(w.service.clone(), m2, o2));
                // whichever finishes first is the one whose write failed
                let (first, other) = match futures::future::select(f1, f2).await {
                    futures::future::Either::Left((a, b)) => (a, b),
                    futures::future::Either::Right((a, b)) => (a, b),
                };
                set_file_size_limit(None);
                {
                    let (m, cv) = &*state;
                    m.lock().unwrap().release_second = true;
                    cv.notify_all();
                }
                let second = other.await;
                sccache::verif_hooks::set_sync_controller(None);
                set_file_size_limit(None);
                let (p1, c1) = w.runs();
                let res = vec![
                    first.unwrap_or_else(|_| Sx::L(vec![Sx::sym("join_err")])),
                    second.unwrap_or_else(|_| Sx::L(vec![Sx::sym("join_err")])),
                ];
                obs.push(Sx::L(vec![
                    Sx::sym("twin"),
                    Sx::L(res),
                    Sx::n(p1[tu] - p0[tu]),
                    Sx::n(c1[tu] - c0[tu]),
                    w.disk(),
                    w.stats().await,
                ]));
            }
            "ppforge" => {
                // ( ppforge tu kind ): replace the unit's preprocessor-cache entry by a WELL-FORMED entry (written
                // with the real PreprocessorCacheEntry::add_result / serialize_to) holding one result with an
                // empty include list — which matches every lookup — and a result key that no compilation produced.
                // The key comes out of an untrusted file: it may be empty, too short, not hexadecimal, contain
                // path separators or "..".
                let tu = step.arg(1).u64() as usize;
                let kind = step.arg(2).str();
                let key: String = match kind.as_str() {
                    "empty" => "".into(),
                    "len1" => "a".into(),
                    "len2" => "ab".into(),
                    "nonhex" => "this-is-not-a-digest".into(),
                    "upper" => "A".repeat(64),
                    "slash" => "ab/cd/ef".into(),
                    "dotdot" => "../escaped-from-the-cache".into(),
                    // an absolute path (inside the scratch directory, so that a tree that follows it is harmless)
                    "abs" => format!("{}/escaped-absolute", w.dir.path().display()),
                    "utf8" => "\u{e9}\u{e9}\u{e9}\u{e9}".into(),
                    "short" => "ab".repeat(16),
                    // a well-formed digest that simply is not in the cache
                    _ => "a".repeat(64),
                };
                if w.cache.is_dir() {
                    w.learn_from_disk();
                    let k = w.keys.lock().unwrap().get(&tu).cloned().unwrap_or((None, None)).0;
                    if let Some(k) = k {
                        let path = pp_path(&w.cache, &k);
                        if path.is_file() {
                            let mut e = PreprocessorCacheEntry::new();
                            e.add_result(std::time::SystemTime::now(), &key, Vec::<(String, PathBuf)>::new());
                            let mut buf = vec![];
                            e.serialize_to(&mut buf).unwrap();
                            std::fs::write(&path, &buf).unwrap();
                        }
                    }
                }
                obs.push(Sx::L(vec![Sx::sym("ppforge"), w.disk()]));
            }
            "poke" => {
                // ( poke tu off width ): overwrite `width` bytes at absolute offset `off mod len` of the stored
                // RESULT entry of the unit — any structural region of the archive (local headers, names, central
                // directory, end-of-central-directory record) or payload.  The model is not consulted for
                // histories with this step (the class of the damage depends on the archive layout); the
                // property monitor judges the real behaviour.
                let tu = step.arg(1).u64() as usize;
                let off = step.arg(2).u64() as usize;
                let width = std::cmp::max(1, step.arg(3).u64() as usize);
                if w.cache.is_dir() {
                    w.learn_from_disk();
                    let on_pp = step.arg(4).is_sym("pp");
                    let keys = w.keys.lock().unwrap().get(&tu).cloned().unwrap_or((None, None));
                    let key = if on_pp { keys.0 } else { keys.1 };
                    if let Some(k) = key {
                        let path = if on_pp { pp_path(&w.cache, &k) } else { res_path(&w.cache, &k) };
                        if path.is_file() {
                            let mut b = std::fs::read(&path).unwrap();
                            if !b.is_empty() {
                                let start = off % b.len();
                                for i in start..std::cmp::min(b.len(), start + width) {
                                    b[i] = b[i].wrapping_add(1 + (i - start) as u8);
                                }
                                std::fs::write(&path, &b).unwrap();
                            }
                        }
                    }
                }
                obs.push(Sx::L(vec![Sx::sym("poke"), w.disk()]));
            }
            "restart_distfail" => {
                // a new server whose distributed-compilation client cannot be created (e.g. OAuth2 configured,
                // no token): `get_client()` fails for every executed request until the next restart
                // the cached client configuration (where the missing token is looked up) lives in the scratch dir
                std::env::set_var("SCCACHE_CACHED_CONF", w.dir.path().join("cached-config"));
                w.storage = make_storage(&w.cache, w.ppmode, false, &w.rt, &w.script, &w.keys).await;
                let svc = SccacheService::<Creator>::verif_mock_with_failing_dist_client(
                    "injected: dist client cannot be created",
                    w.storage.clone(),
                    w.rt.clone(),
                )
                .into_service();
                match svc {
                    Some(svc) => {
                        w.service = svc;
                        obs.push(Sx::L(vec![Sx::sym("restart_distfail"), w.disk(), w.stats().await]));
                    }
                    None => return Err("this tree has no hook verif_mock_with_failing_dist_client".into()),
                }
            }
            "restart_broken" => {
                // the cache directory cannot be opened when the new server first touches its stores
                let saved = w.dir.path().join("cache.saved");
                if w.cache.is_dir() {
                    let _ = std::fs::remove_dir_all(&saved);
                    std::fs::rename(&w.cache, &saved).unwrap();
                }
                if !w.cache.exists() {
                    std::fs::write(&w.cache, b"a regular file where the cache directory should be").unwrap();
                }
                w.restart(false).await;
                obs.push(Sx::L(vec![Sx::sym("restart_broken"), w.disk(), w.stats().await]));
            }
            "heal" => {
                let saved = w.dir.path().join("cache.saved");
                if w.cache.is_file() {
                    std::fs::remove_file(&w.cache).unwrap();
                    if saved.is_dir() {
                        std::fs::rename(&saved, &w.cache).unwrap();
                    } else {
                        std::fs::create_dir_all(&w.cache).unwrap();
                    }
                }
                // same server: the lazily opened stores have to retry; build both indices now
                let _ = w.storage.inner.get("00000000000000000000000000000000").await;
                let _ = w.storage.inner.get_preprocessor_cache_entry("00000000000000000000000000000000").await;
                obs.push(Sx::L(vec![Sx::sym("heal"), w.disk()]));
            }
            "zero" => {
                let _ = w.service.verif_call(Request::ZeroStats).await;
                obs.push(Sx::L(vec![Sx::sym("zero"), w.stats().await]));
            }
            _ => return Err(format!("bad step {}", tag)),
        }
    }
    // (a hung request leaves locks held for good: the rest of the history is not run)
    let un = w.script.unexpected.lock().unwrap().clone();
    if !un.is_empty() {
        return Err(format!("unexpected commands: {:?}", un));
    }
    let _ = &w.dir;
    Ok(Sx::L(obs))
}

fn has_timeout(case: &Sx) -> bool {
    format!("{}", case).contains(" timeout ")
}

fn run_lines_flushed<F: FnMut(&Sx) -> Sx>(mut f: F) {
    use std::io::{BufRead, Write};
    let stdin = std::io::stdin();
    let stdout = std::io::stdout();
    for line in stdin.lock().lines() {
        let line = line.expect("stdin");
        let t = line.trim();
        let r = if t.is_empty() || t.starts_with(';') {
            Sx::L(vec![])
        } else {
            match Sx::parse(t) {
                Ok(x) => f(&x),
                Err(e) => Sx::L(vec![Sx::sym("harness_parse_error"), Sx::B(e.into_bytes())]),
            }
        };
        let mut out = stdout.lock();
        writeln!(out, "{}", r).unwrap();
        out.flush().unwrap();
    }
}

/// Cases run on a worker thread that owns the runtimes.  If a case does not finish within the hard limit (a
/// thread of the real code is stuck in a loop or on a lock, which no in-runtime time-out can interrupt) it is
/// reported as hung, the worker is abandoned and a fresh one is started; after three such cases the remaining
/// ones are not run at all, so that a broken tree cannot stall the check.
struct Worker {
    tx: std::sync::mpsc::Sender<Sx>,
    rx: std::sync::mpsc::Receiver<Sx>,
}

fn spawn_worker() -> Worker {
    let (tx, case_rx) = std::sync::mpsc::channel::<Sx>();
    let (res_tx, rx) = std::sync::mpsc::channel::<Sx>();
    std::thread::spawn(move || {
        let rt = tokio::runtime::Builder::new_multi_thread().worker_threads(3).enable_all().build().unwrap();
        // virtual time: the 60 s lookup time-out of get_cached_or_compile elapses at once
        let rt_paused = tokio::runtime::Builder::new_current_thread().enable_all().start_paused(true).build().unwrap();
        while let Ok(case) = case_rx.recv() {
            let paused = has_timeout(&case);
            PAUSED.store(paused, Ordering::SeqCst);
            let r = if paused {
                let h = rt_paused.handle().clone();
                rt_paused.block_on(run_case(&case, h))
            } else {
                let h = rt.handle().clone();
                rt.block_on(run_case(&case, h))
            };
            let out = match r {
                Ok(x) => x,
                Err(e) => Sx::L(vec![Sx::sym("harness_error"), Sx::B(e.into_bytes())]),
            };
            if res_tx.send(out).is_err() {
                break;
            }
        }
        // never drop the runtimes: a stuck blocking task would make the drop wait for ever
        std::mem::forget(rt);
        std::mem::forget(rt_paused);
    });
    Worker { tx, rx }
}

/// Every scratch directory a `World` was given: the process ends with `exit` (abandoned threads are not joined), so
/// the directories of worlds that are still alive then are removed here instead of by their `TempDir`.
static SCRATCH_DIRS: std::sync::Mutex<Vec<std::path::PathBuf>> = std::sync::Mutex::new(Vec::new());

fn main() {
    let leg = std::env::args().nth(1).unwrap_or_default();
    if leg != "reqsm" {
        eprintln!("usage: c09 reqsm");
        std::process::exit(2);
    }
    vh::quiet_panics();
    unsafe {
        libc::signal(libc::SIGXFSZ, libc::SIG_IGN);
    }
    let hard = Duration::from_secs(
        std::env::var("VH_CASE_TIMEOUT").ok().and_then(|v| v.parse().ok()).unwrap_or(45),
    );
    let mut worker = spawn_worker();
    let mut hangs = 0u32;
    // like vh::run_lines, but every observation is flushed at once: if a history kills the whole process (SIGBUS,
    // abort) the observations of the histories before it must already be out, so that the first missing one IS
    // the culprit
    run_lines_flushed(|case| {
        if hangs >= 3 {
            return Sx::L(vec![Sx::L(vec![Sx::sym("not_run_after_hangs")])]);
        }
        if worker.tx.send(case.clone()).is_err() {
            worker = spawn_worker();
            let _ = worker.tx.send(case.clone());
        }
        match worker.rx.recv_timeout(hard) {
            Ok(x) => {
                if format!("{}", x).contains("hung") {
                    hangs += 1;
                    // the abandoned server may hold threads and locks: start afresh
                    worker = spawn_worker();
                }
                x
            }
            Err(_) => {
                hangs += 1;
                worker = spawn_worker();
                Sx::L(vec![Sx::L(vec![Sx::sym("case_hung")])])
            }
        }
    });
    // do not wait for abandoned threads
    use std::io::Write;
    let _ = std::io::stdout().flush();
    if let Ok(dirs) = SCRATCH_DIRS.lock() {
        for d in dirs.iter() {
            let _ = std::fs::remove_dir_all(d);
        }
    }
    std::process::exit(0);
}
