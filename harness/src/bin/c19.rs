//! c19 — thin driver: the real build-server code lives in the `sccache-dist` binary crate, so the cases are
//! piped through the hooked binary (`sccache-dist __verif_paths <leg>`, src/bin/sccache-dist/verif_paths.rs in
//! /repo), which runs the real `join_suffix` / id validation / `make_lru_key_path` and a real `Server` +
//! `OverlayBuilder` in a scratch root, and prints one observation per case.
//! The binary is `pipeline.repo_bin('sccache-dist')`; its path arrives in VERIF_C19_DIST.
use std::process::{Command, Stdio};

fn main() {
    let leg = std::env::args().nth(1).unwrap_or_default();
    let bin = std::env::var("VERIF_C19_DIST").unwrap_or_else(|_| {
        let build = std::env::var("VERIF_BUILD").unwrap_or_else(|_| "/verif/.build".into());
        format!("{}/target-e2e/debug/sccache-dist", build)
    });
    let st = Command::new(&bin)
        .arg("__verif_paths")
        .arg(&leg)
        .stdin(Stdio::inherit())
        .stdout(Stdio::inherit())
        .stderr(Stdio::null())
        .status();
    match st {
        Ok(s) => std::process::exit(s.code().unwrap_or(101)),
        Err(e) => {
            eprintln!("c19: cannot run {}: {}", bin, e);
            std::process::exit(102)
        }
    }
}
