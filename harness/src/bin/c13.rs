//! c13 — drives the real distributed-compile client code of sccache on the cases of Run/C13.v.
//!
//! leg status:   the real `sccache::dist::ProcessOutput` <-> `std::process::Output` conversions.
//! leg fallback: the real `dist_or_local_compile` (hook `verif_dist_or_local_compile`) with a scripted
//!               `dist::Client`, a scripted `Compilation` (packagers / outputs rewriter that can fail)
//!               and a mock local compiler (`MockCommandCreator`), on a scratch directory.
//! leg request:  the real `get_cached_or_compile` of a gcc `CCompilation` (compiler detection, preprocessor
//!               and compiler mocked) with the same scripted client and a real `DiskCache`, followed by a
//!               second identical request.
//! leg args:     the real `gcc::generate_compile_commands` for gcc and clang.
use async_trait::async_trait;
use sccache::dist::{
    self, pkg, AllocJobResult, JobAlloc, JobComplete, JobId, OutputData, PathTransformer,
    ProcessOutput, RunJobResult, SchedulerStatusResult, ServerId, SubmitToolchainResult, Toolchain,
};
use sccache::errors::{HttpClientError, ProcessError};
use sccache::server::SccacheService;
use sccache::verif_hooks::cache::disk::DiskCache;
use sccache::verif_hooks::cache::{CacheMode, FileObjectSource, PreprocessorCacheModeConfig, Storage};
use sccache::verif_hooks::compiler::c::{ArtifactDescriptor, ParsedArguments};
use sccache::verif_hooks::compiler::{
    self as comp, CCompileCommand, CCompilerKind, CacheControl, Cacheable, ColorMode, Compilation,
    CompileCommand, CompileResult, CompilerArguments, DistPackagers, DistType, Language, MissType,
    OutputsRewriter, SingleCompileCommand,
};
use sccache::verif_hooks::jobserver::Client as JobClient;
use sccache::verif_hooks::mock_command::{
    exit_status, CommandCreator, MockChild, MockCommandCreator,
};
use std::collections::HashMap;
use std::ffi::OsString;
use std::os::unix::ffi::{OsStrExt, OsStringExt};
use std::os::unix::process::ExitStatusExt;
use std::path::{Path, PathBuf};
use std::process::{ExitStatus, Output};
use std::sync::atomic::{AtomicBool, Ordering};
use std::sync::{Arc, Mutex};
use vh::{catch, Sx};

type Creator = Arc<Mutex<MockCommandCreator>>;

// ------------------------------------------------------------------ i32 as S M

fn dec_i32(s: &Sx, m: &Sx) -> i32 {
    let mag = m.num() as i128;
    let v = if s.as_bool() { -mag } else { mag };
    v as i32
}

fn enc_i32(v: i32) -> Vec<Sx> {
    vec![Sx::bool(v < 0), Sx::N((v as i64).unsigned_abs() as u128)]
}

fn enc_st(st: ExitStatus) -> Sx {
    Sx::L(vec![
        Sx::opt(st.code().map(|c| Sx::N(c.unsigned_abs() as u128))),
        Sx::opt(st.signal().map(|c| Sx::N(c.unsigned_abs() as u128))),
        Sx::bool(st.success()),
    ])
}

// ------------------------------------------------------------------ leg status

fn run_status(case: &Sx) -> Sx {
    let v = dec_i32(case.arg(1), case.arg(2));
    match case.tag().as_str() {
        "to_local" => {
            let out: Output = ProcessOutput::verif_new(v, vec![], vec![]).into();
            enc_st(out.status)
        }
        "roundtrip" => {
            let status = ExitStatus::from_raw(v);
            let o = Output {
                status,
                stdout: vec![],
                stderr: vec![],
            };
            match ProcessOutput::try_from(o) {
                Err(_) => Sx::L(vec![enc_st(status), Sx::L(vec![]), Sx::L(vec![])]),
                Ok(po) => {
                    let c = po.verif_code();
                    let back: Output = po.into();
                    Sx::L(vec![enc_st(status), Sx::L(enc_i32(c)), enc_st(back.status)])
                }
            }
        }
        _ => Sx::sym("bad_status_op"),
    }
}

// ------------------------------------------------------------------ the script

#[derive(Clone, Copy, PartialEq, Debug)]
enum Class {
    Http,
    TooLarge,
    /// an lru_disk_cache::Error that is not FileTooLarge: must be treated like any other error
    LruOther,
    Other,
}

fn dec_class(x: &Sx) -> Class {
    if x.is_sym("http") {
        Class::Http
    } else if x.is_sym("toolarge") {
        Class::TooLarge
    } else if x.is_sym("lruother") {
        Class::LruOther
    } else {
        Class::Other
    }
}

fn dec_oclass(x: &Sx) -> Option<Class> {
    if x.is_sym("ok") {
        None
    } else {
        Some(dec_class(x))
    }
}

fn mkerr(c: Class, what: &str) -> anyhow::Error {
    match c {
        Class::Http => HttpClientError(format!("MOCK 403 at {}", what)).into(),
        Class::TooLarge => sccache::lru_disk_cache::Error::FileTooLarge.into(),
        Class::LruOther => sccache::lru_disk_cache::Error::FileNotInCache.into(),
        Class::Other => anyhow::anyhow!("MOCK: {} failure", what),
    }
}

#[derive(Clone)]
enum Alloc {
    Err(Class),
    Fail,
    Ok(bool),
}
#[derive(Clone)]
enum Submit {
    Err(Class),
    JobNotFound,
    CannotCache,
    Ok,
}
#[derive(Clone, Copy, PartialEq)]
enum W {
    Ok,
    Create,
    Copy,
    Len,
}
#[derive(Clone)]
enum Run {
    Err(Class),
    JobNotFound,
    Complete(i32, Vec<(u64, W)>),
}
#[derive(Clone)]
enum Local {
    SpawnErr,
    Exit(i32, Vec<u64>),
}

#[derive(Clone)]
struct Script {
    gen: bool,
    dist: bool,
    prep: Option<Class>,
    put: Option<Class>,
    alloc: Alloc,
    submit: Submit,
    run: Run,
    rewrite: Option<Class>,
    local: Local,
    pre: Vec<(u64, u64)>,
}

fn dec_script(case: &Sx) -> Script {
    let al = case.arg(4);
    let alloc = if al.list().len() == 2 {
        if al.arg(0).is_sym("err") {
            Alloc::Err(dec_class(al.arg(1)))
        } else {
            Alloc::Ok(al.arg(1).as_bool())
        }
    } else {
        Alloc::Fail
    };
    let sb = case.arg(5);
    let submit = if sb.list().len() == 2 {
        Submit::Err(dec_class(sb.arg(1)))
    } else if sb.is_sym("job_not_found") {
        Submit::JobNotFound
    } else if sb.is_sym("cannot_cache") {
        Submit::CannotCache
    } else {
        Submit::Ok
    };
    let rn = case.arg(6);
    let run = match rn.list().len() {
        2 => Run::Err(dec_class(rn.arg(1))),
        4 => Run::Complete(
            dec_i32(rn.arg(1), rn.arg(2)),
            rn.arg(3)
                .list()
                .iter()
                .map(|o| {
                    let w = o.arg(1);
                    (
                        o.arg(0).u64(),
                        if w.is_sym("create") {
                            W::Create
                        } else if w.is_sym("copy") {
                            W::Copy
                        } else if w.is_sym("len") {
                            W::Len
                        } else {
                            W::Ok
                        },
                    )
                })
                .collect(),
        ),
        _ => Run::JobNotFound,
    };
    let lc = case.arg(8);
    let local = if lc.list().len() == 4 {
        Local::Exit(
            dec_i32(lc.arg(1), lc.arg(2)),
            lc.arg(3).list().iter().map(|p| p.u64()).collect(),
        )
    } else {
        Local::SpawnErr
    };
    Script {
        gen: case.arg(0).as_bool(),
        dist: case.arg(1).as_bool(),
        prep: dec_oclass(case.arg(2)),
        put: dec_oclass(case.arg(3)),
        alloc,
        submit,
        run,
        rewrite: dec_oclass(case.arg(7)),
        local,
        pre: case.arg(9).list().iter().map(dec_pre).collect(),
    }
}

fn opath(dir: &Path, p: u64) -> PathBuf {
    dir.join(format!("o{}", p))
}

/// What the build server returns for output `p` of source variant `v`; the variants differ in length
/// (an edit that shortens / lengthens the object).
fn payload_v(p: u64, v: u64) -> Vec<u8> {
    let n = match v {
        0 => 400u64,
        1 => 150,
        _ => 600,
    };
    let mut out = Vec::new();
    let mut x: u64 = 0x9e3779b97f4a7c15 ^ p ^ (v << 32);
    for i in 0..n {
        x = x.wrapping_mul(6364136223846793005).wrapping_add(1442695040888963407);
        out.extend_from_slice(format!("remote-{}-{}-{}-{:x};", p, v, i, x >> 40).as_bytes());
    }
    out
}

fn payload(p: u64) -> Vec<u8> {
    payload_v(p, 0)
}

/// A file that is at an output path before the request: kind 0 shorter than, 1 as long as, 2 longer than
/// anything the build server or the local compiler writes there.
fn pre_bytes(p: u64, kind: u64) -> Vec<u8> {
    match kind {
        0 => b"pre".to_vec(),
        1 => vec![b'P'; payload_v(p, 0).len()],
        _ => vec![b'Q'; 3 * payload_v(p, 2).len()],
    }
}

/// PRE entry: P or ( P KIND )
fn dec_pre(x: &Sx) -> (u64, u64) {
    if x.list().len() == 2 {
        (x.arg(0).u64(), x.arg(1).u64())
    } else {
        (x.u64(), 0)
    }
}

const REMOTE_STDOUT: &[u8] = b"remote stdout";
const REMOTE_STDERR: &[u8] = b"remote stderr";
const LOCAL_STDOUT: &[u8] = b"local stdout";
const LOCAL_STDERR: &[u8] = b"local stderr";

// ------------------------------------------------------------------ scripted dist::Client

struct ScriptClient {
    s: Script,
    dir: PathBuf,
    /// source variant (selects the payload) and what the inputs archive of the job contained (leg request)
    variant: u64,
    sent: Mutex<Option<Vec<u8>>>,
    /// the real client toolchain cache and the size of the packaged toolchain (leg toolchain)
    toolchains: Option<(Arc<dist::ClientToolchains>, usize)>,
    /// leg aliases: the toolchain is "packaged" as the path it was packaged for, and the scripted build server
    /// checks that the toolchain of the job contains the executable the job is told to run
    alias_mode: bool,
    job_tc: Mutex<Option<Toolchain>>,
    tc_match: Mutex<Option<bool>>,
    /// when set, do_run_job answers for exactly the requested output paths (leg request)
    requested_outputs: bool,
}

fn tc() -> Toolchain {
    Toolchain {
        archive_id: "somearchiveid".to_owned(),
    }
}

fn job_alloc() -> JobAlloc {
    JobAlloc {
        auth: "abcd".to_owned(),
        job_id: JobId(0),
        server_id: ServerId::new(([0, 0, 0, 0], 1).into()),
    }
}

#[async_trait]
impl dist::Client for ScriptClient {
    async fn do_alloc_job(&self, tc: Toolchain) -> anyhow::Result<AllocJobResult> {
        *self.job_tc.lock().unwrap() = Some(tc);
        match self.s.alloc {
            Alloc::Err(c) => Err(mkerr(c, "alloc job")),
            Alloc::Fail => Ok(AllocJobResult::Fail {
                msg: "MOCK: no capacity".into(),
            }),
            Alloc::Ok(need) => Ok(AllocJobResult::Success {
                job_alloc: job_alloc(),
                need_toolchain: need,
            }),
        }
    }
    async fn do_get_status(&self) -> anyhow::Result<SchedulerStatusResult> {
        unreachable!()
    }
    async fn do_submit_toolchain(
        &self,
        _: JobAlloc,
        tc: Toolchain,
    ) -> anyhow::Result<SubmitToolchainResult> {
        if let Some((tcs, _)) = &self.toolchains {
            // as dist::http::Client does
            return match tcs.get_toolchain(&tc) {
                Ok(Some(_file)) => Ok(SubmitToolchainResult::Success),
                Ok(None) => Err(anyhow::anyhow!("couldn't find toolchain locally")),
                Err(e) => Err(e),
            };
        }
        match self.s.submit {
            Submit::Err(c) => Err(mkerr(c, "submit toolchain")),
            Submit::JobNotFound => Ok(SubmitToolchainResult::JobNotFound),
            Submit::CannotCache => Ok(SubmitToolchainResult::CannotCache),
            Submit::Ok => Ok(SubmitToolchainResult::Success),
        }
    }
    async fn do_run_job(
        &self,
        _: JobAlloc,
        command: dist::CompileCommand,
        requested: Vec<String>,
        inputs_packager: Box<dyn pkg::InputsPackager>,
    ) -> anyhow::Result<(RunJobResult, PathTransformer)> {
        if self.alias_mode {
            // what a build server does: run `command.executable` inside the toolchain the job was allocated with
            let tc = self.job_tc.lock().unwrap().clone();
            let packaged_for = match (&self.toolchains, tc) {
                (Some((tcs, _)), Some(tc)) => match tcs.get_toolchain(&tc) {
                    Ok(Some(mut f)) => {
                        use std::io::Read;
                        let mut b = vec![];
                        let _ = f.read_to_end(&mut b);
                        Some(b)
                    }
                    _ => None,
                },
                _ => None,
            };
            let ok = packaged_for.as_deref() == Some(command.executable.as_bytes());
            *self.tc_match.lock().unwrap() = Some(ok);
            if !ok {
                let _ = inputs_packager.write_inputs(&mut vec![])?;
                return Ok((
                    RunJobResult::Complete(JobComplete {
                        output: ProcessOutput::verif_new(
                            1,
                            vec![],
                            format!("bwrap: execvp {}: No such file or directory", command.executable).into_bytes(),
                        ),
                        outputs: vec![],
                    }),
                    PathTransformer::new(),
                ));
            }
        }
        if self.requested_outputs {
            // what a build server would unpack: the input file inside the inputs archive
            let mut tar = vec![];
            let _ = inputs_packager.write_inputs(&mut tar)?;
            *self.sent.lock().unwrap() = Some(tar_member(&tar, "foo.c").unwrap_or_else(|| b"<no foo.c>".to_vec()));
        }
        match &self.s.run {
            Run::Err(c) => Err(mkerr(*c, "run job")),
            Run::JobNotFound => Ok((RunJobResult::JobNotFound, PathTransformer::new())),
            Run::Complete(code, outs) => {
                let mut outputs = vec![];
                for (i, (p, w)) in outs.iter().enumerate() {
                    let path = if self.requested_outputs {
                        match requested.get(i) {
                            Some(r) => PathBuf::from(r),
                            None => continue,
                        }
                    } else {
                        opath(&self.dir, *p)
                    };
                    let data = payload_v(*p, self.variant);
                    let good = OutputData::verif_try_from_reader(&data[..]).unwrap();
                    let od = match w {
                        W::Ok => good,
                        W::Create => {
                            // make File::create fail: a dangling symlink into a directory that does not exist
                            // (only for the first failing output: the client never gets to later ones)
                            if outs[..i].iter().all(|(_, w)| *w == W::Ok) {
                                let _ = std::fs::remove_file(&path);
                                std::os::unix::fs::symlink(self.dir.join("nonexistent/x"), &path)
                                    .unwrap();
                            }
                            good
                        }
                        W::Copy => {
                            let z = good.verif_compressed().to_vec();
                            OutputData::verif_raw(z[..z.len() / 2].to_vec(), data.len() as u64)
                        }
                        W::Len => OutputData::verif_raw(
                            good.verif_compressed().to_vec(),
                            data.len() as u64 + 1,
                        ),
                    };
                    outputs.push((path.to_str().unwrap().to_owned(), od));
                }
                Ok((
                    RunJobResult::Complete(JobComplete {
                        output: ProcessOutput::verif_new(
                            *code,
                            REMOTE_STDOUT.to_vec(),
                            REMOTE_STDERR.to_vec(),
                        ),
                        outputs,
                    }),
                    PathTransformer::new(),
                ))
            }
        }
    }
    async fn put_toolchain(
        &self,
        compiler_path: PathBuf,
        weak_key: String,
        _: Box<dyn pkg::ToolchainPackager>,
    ) -> anyhow::Result<(Toolchain, Option<(String, PathBuf)>)> {
        if let Some((tcs, size)) = &self.toolchains {
            // the real ClientToolchains::put_toolchain with a packager that writes `size` bytes
            return tcs
                .verif_put_toolchain(
                    &compiler_path,
                    &weak_key,
                    if self.alias_mode { compiler_path.as_os_str().as_bytes().to_vec() } else { vec![b'T'; *size] },
                    false,
                )
                .map(|tc| (tc, None));
        }
        match self.s.put {
            // wrapped in a context, as errors from the real client usually are
            Some(c) => Err(mkerr(c, "put toolchain").context("while putting the toolchain")),
            None => Ok((
                tc(),
                Some((
                    "/overridden/compiler".to_owned(),
                    PathBuf::from("somearchiveid"),
                )),
            )),
        }
    }
    fn rewrite_includes_only(&self) -> bool {
        false
    }
    fn get_custom_toolchain(&self, _exe: &Path) -> Option<PathBuf> {
        None
    }
}

/// The data of the member whose name ends with `suffix` in a (ustar / GNU long name) tar stream.
fn tar_member(tar: &[u8], suffix: &str) -> Option<Vec<u8>> {
    let mut pos = 0;
    let mut long_name: Option<String> = None;
    while pos + 512 <= tar.len() {
        let h = &tar[pos..pos + 512];
        if h.iter().all(|b| *b == 0) {
            break;
        }
        let cstr = |b: &[u8]| String::from_utf8_lossy(&b[..b.iter().position(|c| *c == 0).unwrap_or(b.len())]).into_owned();
        let size = usize::from_str_radix(cstr(&h[124..136]).trim(), 8).unwrap_or(0);
        let typeflag = h[156];
        let data = &tar[pos + 512..(pos + 512 + size).min(tar.len())];
        let mut name = cstr(&h[0..100]);
        let prefix = cstr(&h[345..500]);
        if !prefix.is_empty() && &h[257..262] == b"ustar" {
            name = format!("{}/{}", prefix, name);
        }
        if typeflag == b'L' {
            long_name = Some(cstr(data));
        } else {
            if let Some(n) = long_name.take() {
                name = n;
            }
            if name.ends_with(suffix) {
                return Some(data.to_vec());
            }
        }
        pos += 512 + size.div_ceil(512) * 512;
    }
    None
}

// ------------------------------------------------------------------ scripted Compilation

struct NullInputs;
impl pkg::InputsPackager for NullInputs {
    fn write_inputs(self: Box<Self>, _: &mut dyn std::io::Write) -> anyhow::Result<PathTransformer> {
        Ok(PathTransformer::new())
    }
}
struct ScriptRewriter(Option<Class>);
impl OutputsRewriter for ScriptRewriter {
    fn handle_outputs(
        self: Box<Self>,
        _: &PathTransformer,
        _: &[PathBuf],
        _: &[PathBuf],
    ) -> anyhow::Result<()> {
        match self.0 {
            Some(c) => Err(mkerr(c, "rewrite outputs")),
            None => Ok(()),
        }
    }
}

struct RawCompilation {
    s: Script,
    dir: PathBuf,
    dist_cmd: bool,
}

impl Compilation<Creator> for RawCompilation {
    fn generate_compile_commands(
        &self,
        _: &mut PathTransformer,
        _: bool,
    ) -> anyhow::Result<(
        Box<dyn CompileCommand<Creator>>,
        Option<dist::CompileCommand>,
        Cacheable,
    )> {
        if !self.s.gen {
            anyhow::bail!("MOCK: Missing object file output");
        }
        let cmd = SingleCompileCommand {
            executable: "/usr/bin/mockcc".into(),
            arguments: vec!["-c".into(), "foo.c".into()],
            env_vars: vec![],
            cwd: self.dir.clone(),
        };
        let d = if self.dist_cmd {
            Some(dist::CompileCommand {
                executable: "/usr/bin/mockcc".into(),
                arguments: vec!["-c".into(), "foo.c".into()],
                env_vars: vec![],
                cwd: self.dir.to_str().unwrap().into(),
            })
        } else {
            None
        };
        Ok((CCompileCommand::new(cmd), d, Cacheable::Yes))
    }
    fn into_dist_packagers(self: Box<Self>, _: PathTransformer) -> anyhow::Result<DistPackagers> {
        if let Some(c) = self.s.prep {
            return Err(mkerr(c, "dist packagers"));
        }
        Ok((
            Box::new(NullInputs),
            Box::new(pkg::VerifNullToolchainPackager),
            Box::new(ScriptRewriter(self.s.rewrite)),
        ))
    }
    fn outputs<'a>(&'a self) -> Box<dyn Iterator<Item = FileObjectSource> + 'a> {
        Box::new(std::iter::once(FileObjectSource {
            key: "obj".into(),
            path: "o0".into(),
            optional: false,
        }))
    }
}

// ------------------------------------------------------------------ observations

fn listing(dir: &Path, want: &dyn Fn(&str) -> Option<u64>) -> Sx {
    let mut v: Vec<(u64, &'static str)> = vec![];
    for e in std::fs::read_dir(dir).unwrap().flatten() {
        let name = e.file_name().to_string_lossy().into_owned();
        let p = match want(&name) {
            Some(p) => p,
            None => continue,
        };
        let md = std::fs::symlink_metadata(e.path()).unwrap();
        let c = if md.file_type().is_symlink() {
            "symlink"
        } else if !md.is_file() {
            "other"
        } else {
            let data = std::fs::read(e.path()).unwrap();
            if (0..3).any(|k| data == pre_bytes(p, k)) {
                "pre"
            } else if data == b"local" {
                "local"
            } else if (0..3).any(|v| data == payload_v(p, v)) {
                "remote"
            } else {
                "partial"
            }
        };
        v.push((p, c));
    }
    v.sort();
    Sx::L(v.into_iter().map(|(p, c)| Sx::L(vec![Sx::n(p), Sx::sym(c)])).collect())
}

fn oname(name: &str) -> Option<u64> {
    name.strip_prefix('o').and_then(|r| r.parse().ok())
}

fn src_of(stdout: &[u8], stderr: &[u8]) -> &'static str {
    if stdout == REMOTE_STDOUT && stderr == REMOTE_STDERR {
        "remote"
    } else if stdout == LOCAL_STDOUT && stderr == LOCAL_STDERR {
        "local"
    } else {
        "mixed"
    }
}

fn dt_sym(dt: &DistType) -> &'static str {
    match dt {
        DistType::NoDist => "nodist",
        DistType::Ok(_) => "dist_ok",
        DistType::Error => "dist_error",
    }
}

/// (OUT, ST, SRC) of an error
fn classify_err(e: &anyhow::Error) -> (String, Sx, &'static str) {
    if let Some(ProcessError(out)) = e.downcast_ref::<ProcessError>() {
        return ("proc_err".into(), enc_st(out.status), src_of(&out.stdout, &out.stderr));
    }
    if e.downcast_ref::<HttpClientError>().is_some() {
        return ("err_http".into(), Sx::L(vec![]), "none");
    }
    let msg = format!("{:#}", e);
    let k = if msg.contains("Could not cache dist toolchain") {
        "err_toolarge".to_string()
    } else if msg.contains("MOCK spawn failure") {
        "err_spawn".to_string()
    } else if msg.contains("Failed to generate compile commands") {
        "err_gen".to_string()
    } else if msg.contains("failed to zip up compiler outputs") {
        "err_zip".to_string()
    } else {
        format!("err_other:{}", msg.replace(|c: char| !c.is_ascii_alphanumeric(), "_"))
    };
    (k, Sx::L(vec![]), "none")
}

fn queue_local(creator: &Creator, s: &Script, dir: &Path, ran: Arc<AtomicBool>, files: Vec<PathBuf>) {
    let local = s.local.clone();
    let _ = dir;
    creator.lock().unwrap().next_command_calls(move |_| {
        ran.store(true, Ordering::SeqCst);
        match &local {
            Local::SpawnErr => Err(anyhow::anyhow!("MOCK spawn failure")),
            Local::Exit(raw, _) => {
                for f in &files {
                    let _ = std::fs::remove_file(f);
                    std::fs::write(f, b"local")?;
                }
                Ok(MockChild::new(exit_status(*raw), LOCAL_STDOUT, LOCAL_STDERR))
            }
        }
    });
}

fn new_creator() -> Creator {
    let client = JobClient::new_num(1);
    Arc::new(Mutex::new(MockCommandCreator::new(&client)))
}

// ------------------------------------------------------------------ leg fallback

fn shared() -> (&'static tokio::runtime::Runtime, Arc<dyn Storage>) {
    use std::sync::OnceLock;
    static RT: OnceLock<tokio::runtime::Runtime> = OnceLock::new();
    static ST: OnceLock<Arc<dyn Storage>> = OnceLock::new();
    let rt = RT.get_or_init(|| {
        tokio::runtime::Builder::new_multi_thread()
            .worker_threads(1)
            .enable_all()
            .build()
            .unwrap()
    });
    // DiskCache initialises lazily: this leg never reads or writes it, the directory is never created
    let st = ST.get_or_init(|| {
        let st: Arc<dyn Storage> = Arc::new(DiskCache::new(
            "/dev/shm/vh-c13-never-created/cache",
            u64::MAX,
            rt.handle(),
            PreprocessorCacheModeConfig::default(),
            CacheMode::ReadWrite,
        ));
        st
    });
    (rt, st.clone())
}

fn run_fallback(case: &Sx) -> Sx {
    let s = dec_script(case);
    let td = tempfile::Builder::new().prefix("vh-c13-").tempdir_in("/dev/shm").unwrap();
    let dir = td.path().join("w");
    std::fs::create_dir_all(&dir).unwrap();
    for (p, k) in &s.pre {
        std::fs::write(opath(&dir, *p), pre_bytes(*p, *k)).unwrap();
    }
    // one runtime and one (unused by this leg) storage per harness process
    let (runtime, storage) = shared();
    let pool = runtime.handle().clone();
    let creator = new_creator();
    let ran = Arc::new(AtomicBool::new(false));
    let files = match &s.local {
        Local::Exit(_, ws) => ws.iter().map(|p| opath(&dir, *p)).collect(),
        Local::SpawnErr => vec![],
    };
    queue_local(&creator, &s, &dir, ran.clone(), files);
    // "no distributed compile possible" arises in two ways; exercise both
    let (with_client, with_cmd) = if s.dist {
        (true, true)
    } else if s.put.is_none() {
        (true, false)
    } else {
        (false, true)
    };
    let client: Arc<dyn dist::Client> = Arc::new(ScriptClient {
        s: s.clone(),
        dir: dir.clone(),
        requested_outputs: false,
        variant: 0,
        sent: Mutex::new(None),
        toolchains: None,
        alias_mode: false,
        job_tc: Mutex::new(None),
        tc_match: Mutex::new(None),
    });
    let service = SccacheService::<Creator>::mock_with_dist_client(client.clone(), storage, pool);
    let compilation = Box::new(RawCompilation {
        s: s.clone(),
        dir: dir.clone(),
        dist_cmd: with_cmd,
    });
    let res = catch(|| {
        runtime.block_on(comp::verif_dist_or_local_compile(
            &service,
            if with_client { Some(client.clone()) } else { None },
            creator.clone(),
            dir.clone(),
            compilation,
            "weak".into(),
            "o0".into(),
        ))
    });
    let (out, dt, st, src) = match res {
        Err(_) => ("panic".to_string(), "none", Sx::L(vec![]), "none"),
        Ok(Ok((_, dt, o))) => (
            "ok".to_string(),
            dt_sym(&dt),
            enc_st(o.status),
            src_of(&o.stdout, &o.stderr),
        ),
        Ok(Err(e)) => {
            let (k, st, src) = classify_err(&e);
            (k, "none", st, src)
        }
    };
    let fs = listing(&dir, &oname);
    Sx::L(vec![
        Sx::sym(&out),
        Sx::sym(dt),
        st,
        fs,
        Sx::bool(ran.load(Ordering::SeqCst)),
        Sx::sym(src),
    ])
}

// ------------------------------------------------------------------ leg request
// A history of requests through `get_cached_or_compile` with a real gcc `CCompilation`, a real disk cache with
// the preprocessor cache mode on or off, and the scripted client acting as scheduler + build server.
// case: ( PP ( STEP ... ) )   STEP = the ten script fields (paths: 0 = foo.o), VARIANT, CLEAN
// obs:  ( ( CLASS DT ST FS RAN SRC PPRUN SENT ) ... )

fn fname(name: &str) -> Option<u64> {
    if name == "foo.o" {
        Some(0)
    } else {
        oname(name)
    }
}

fn preprocessed(v: u64) -> Vec<u8> {
    format!(
        "# 1 \"foo.c\"\n# 1 \"<built-in>\"\n# 1 \"<command-line>\"\n# 1 \"foo.c\"\n# 1 \"foo.h\" 1\nint g(void);\n# 2 \"foo.c\" 2\nint f{v}(void) {{ return g() + {v}; }}\n",
        v = v
    )
    .into_bytes()
}

fn age(path: &Path) {
    // the sources are (much) older than the compilation
    let t = filetime::FileTime::from_unix_time(1_500_000_000, 0);
    filetime::set_file_mtime(path, t).unwrap();
}

fn run_request(case: &Sx) -> Sx {
    let pp = case.arg(0).as_bool();
    let td = tempfile::Builder::new().prefix("vh-c13r-").tempdir_in("/dev/shm").unwrap();
    let dir = td.path().join("w");
    std::fs::create_dir_all(&dir).unwrap();
    let rpath = |p: u64| if p == 0 { dir.join("foo.o") } else { opath(&dir, p) };
    std::fs::write(dir.join("foo.h"), b"int g(void);\n").unwrap();
    age(&dir.join("foo.h"));
    let gcc = dir.join("gcc");
    std::fs::write(&gcc, b"#!/bin/sh\n").unwrap();
    {
        use std::os::unix::fs::PermissionsExt;
        std::fs::set_permissions(&gcc, std::fs::Permissions::from_mode(0o755)).unwrap();
    }
    let runtime = tokio::runtime::Builder::new_multi_thread()
        .worker_threads(2)
        .enable_all()
        .build()
        .unwrap();
    let pool = runtime.handle().clone();
    let storage: Arc<dyn Storage> = Arc::new(DiskCache::new(
        td.path().join("cache"),
        u64::MAX,
        &pool,
        PreprocessorCacheModeConfig {
            use_preprocessor_cache_mode: pp,
            ..Default::default()
        },
        CacheMode::ReadWrite,
    ));
    let creator = new_creator();
    // compiler detection
    creator
        .lock()
        .unwrap()
        .next_command_spawns(Ok(MockChild::new(exit_status(0), "compiler_id=gcc", "")));
    let c = runtime
        .block_on(comp::get_compiler_info(
            creator.clone(),
            &gcc,
            &dir,
            &[],
            &[],
            &pool,
            None,
        ))
        .unwrap()
        .0;
    let arguments: Vec<OsString> = vec!["-c".into(), "foo.c".into(), "-o".into(), "foo.o".into()];
    let hasher = match c.parse_arguments(&arguments, ".".as_ref(), &[]) {
        CompilerArguments::Ok(h) => h,
        _ => return Sx::sym("parse_arguments_failed"),
    };

    let mut obs = vec![];
    let mut cur_variant: Option<u64> = None;
    for step in case.arg(1).list() {
        let s = dec_script(step);
        let variant = step.arg(10).u64();
        let clean = step.arg(11).as_bool();
        if cur_variant != Some(variant) {
            // the edit
            std::fs::write(
                dir.join("foo.c"),
                format!("#include \"foo.h\"\nint f{v}(void) {{ return g() + {v}; }}\n", v = variant),
            )
            .unwrap();
            age(&dir.join("foo.c"));
            cur_variant = Some(variant);
        }
        if clean {
            for e in std::fs::read_dir(&dir).unwrap().flatten() {
                let n = e.file_name().to_string_lossy().into_owned();
                if fname(&n).is_some() {
                    let _ = std::fs::remove_file(e.path());
                }
            }
        }
        for (p, k) in &s.pre {
            let _ = std::fs::remove_file(rpath(*p));
            std::fs::write(rpath(*p), pre_bytes(*p, *k)).unwrap();
        }
        let client = Arc::new(ScriptClient {
            s: s.clone(),
            dir: dir.clone(),
            requested_outputs: true,
            variant,
            sent: Mutex::new(None),
            toolchains: None,
        alias_mode: false,
        job_tc: Mutex::new(None),
        tc_match: Mutex::new(None),
        });
        let dclient: Arc<dyn dist::Client> = client.clone();
        let dc = if s.dist { Some(dclient.clone()) } else { None };
        let service = SccacheService::<Creator>::mock_with_dist_client(
            dclient.clone(),
            storage.clone(),
            pool.clone(),
        );
        // Two mock processes are available per request; each looks at its command line: `-E` is the
        // preprocessor, anything else the compiler.
        let ran = Arc::new(AtomicBool::new(false));
        let pprun = Arc::new(AtomicBool::new(false));
        let files: Vec<PathBuf> = match &s.local {
            Local::Exit(_, ws) => ws.iter().map(|p| rpath(*p)).collect(),
            Local::SpawnErr => vec![],
        };
        for _ in 0..2 {
            let (ran, pprun, local, files) = (ran.clone(), pprun.clone(), s.local.clone(), files.clone());
            creator.lock().unwrap().next_command_calls(move |args| {
                if args.iter().any(|a| a == "-E") {
                    pprun.store(true, Ordering::SeqCst);
                    return Ok(MockChild::new(exit_status(0), preprocessed(variant), ""));
                }
                ran.store(true, Ordering::SeqCst);
                match &local {
                    Local::SpawnErr => Err(anyhow::anyhow!("MOCK spawn failure")),
                    Local::Exit(raw, _) => {
                        for f in &files {
                            let _ = std::fs::remove_file(f);
                            std::fs::write(f, b"local")?;
                        }
                        Ok(MockChild::new(exit_status(*raw), LOCAL_STDOUT, LOCAL_STDERR))
                    }
                }
            });
        }
        let h = hasher.clone();
        let res = catch(|| {
            runtime.block_on(async {
                let r = h
                    .get_cached_or_compile(
                        &service,
                        dc.clone(),
                        creator.clone(),
                        storage.clone(),
                        arguments.clone(),
                        dir.clone(),
                        vec![],
                        CacheControl::Default,
                        pool.clone(),
                    )
                    .await;
                match r {
                    Ok((CompileResult::CacheMiss(mt, dt, d, fut), out)) => {
                        let w = fut.await;
                        Ok((CompileResult::CacheMiss(mt, dt, d, Box::pin(async { w })), out))
                    }
                    o => o,
                }
            })
        });
        let (class, dt, st, src) = match res {
            Err(_) => ("panic".to_string(), "none", Sx::L(vec![]), "none"),
            Ok(Ok((cr, o))) => {
                let (k, dt) = match &cr {
                    CompileResult::Error => ("error", "none"),
                    CompileResult::CacheHit(_) => ("hit", "none"),
                    CompileResult::CacheMiss(MissType::Normal, dt, _, _) => ("miss", dt_sym(dt)),
                    CompileResult::CacheMiss(_, dt, _, _) => ("miss_other", dt_sym(dt)),
                    CompileResult::NotCached(dt, _) => ("not_cached", dt_sym(dt)),
                    CompileResult::NotCacheable(dt, _) => ("not_cacheable", dt_sym(dt)),
                    CompileResult::CompileFailed(dt, _) => ("compile_failed", dt_sym(dt)),
                };
                (k.to_string(), dt, enc_st(o.status), src_of(&o.stdout, &o.stderr))
            }
            Ok(Err(e)) => {
                let (k, st, src) = classify_err(&e);
                (k, "none", st, src)
            }
        };
        // drop whatever mock commands were not consumed
        creator.lock().unwrap().children.clear();
        let sent = match client.sent.lock().unwrap().take() {
            None => "none",
            Some(u) if u == preprocessed(variant) => "full",
            Some(u) if u.is_empty() => "empty",
            Some(_) => "other",
        };
        obs.push(Sx::L(vec![
            Sx::sym(&class),
            Sx::sym(dt),
            st,
            listing(&dir, &fname),
            Sx::bool(ran.load(Ordering::SeqCst)),
            Sx::sym(src),
            Sx::bool(pprun.load(Ordering::SeqCst)),
            Sx::sym(sent),
        ]));
    }
    Sx::L(obs)
}

// ------------------------------------------------------------------ leg toolchain
// The real `dist::ClientToolchains` (toolchain cache + weak map on disk) under a size limit, behind the
// scripted client, over several requests and client restarts; requests go through `dist_or_local_compile`.
// case: ( LIMIT SIZE ( OP ... ) )   OP = restart | ( request NEED LOCAL )
// obs:  ( ( ( WEAK ARCH ) R ) ... )  WEAK = weak_map.json has an entry, ARCH = an archive is in the cache

fn run_toolchain(case: &Sx) -> Sx {
    let limit = case.arg(0).u64();
    let size = case.arg(1).u64() as usize;
    let td = tempfile::Builder::new().prefix("vh-c13t-").tempdir_in("/dev/shm").unwrap();
    let dir = td.path().join("w");
    let tcdir = td.path().join("toolchains");
    std::fs::create_dir_all(&dir).unwrap();
    let open = || Arc::new(dist::ClientToolchains::new(&tcdir, limit, &[]).unwrap());
    let mut tcs = open();
    let (runtime, storage) = shared();
    let pool = runtime.handle().clone();
    let mut out = vec![];
    for op in case.arg(2).list() {
        let r = if op.is_sym("restart") {
            drop(tcs);
            tcs = open();
            Sx::L(vec![])
        } else {
            let lc = op.arg(2);
            let local = if lc.list().len() == 4 {
                Local::Exit(
                    dec_i32(lc.arg(1), lc.arg(2)),
                    lc.arg(3).list().iter().map(|p| p.u64()).collect(),
                )
            } else {
                Local::SpawnErr
            };
            let s = Script {
                gen: true,
                dist: true,
                prep: None,
                put: None,
                alloc: Alloc::Ok(op.arg(1).as_bool()),
                submit: Submit::Ok,
                run: Run::Complete(0, vec![(0, W::Ok)]),
                rewrite: None,
                local,
                pre: vec![],
            };
            let creator = new_creator();
            let ran = Arc::new(AtomicBool::new(false));
            let files = match &s.local {
                Local::Exit(_, ws) => ws.iter().map(|p| opath(&dir, *p)).collect(),
                Local::SpawnErr => vec![],
            };
            queue_local(&creator, &s, &dir, ran.clone(), files);
            let client: Arc<dyn dist::Client> = Arc::new(ScriptClient {
                s: s.clone(),
                dir: dir.clone(),
                requested_outputs: false,
                variant: 0,
                sent: Mutex::new(None),
                toolchains: Some((tcs.clone(), size)),
                alias_mode: false,
                job_tc: Mutex::new(None),
                tc_match: Mutex::new(None),
            });
            let service = SccacheService::<Creator>::mock_with_dist_client(
                client.clone(),
                storage.clone(),
                pool.clone(),
            );
            let compilation = Box::new(RawCompilation {
                s: s.clone(),
                dir: dir.clone(),
                dist_cmd: true,
            });
            let res = catch(|| {
                runtime.block_on(comp::verif_dist_or_local_compile(
                    &service,
                    Some(client.clone()),
                    creator.clone(),
                    dir.clone(),
                    compilation,
                    "weak".into(),
                    "o0".into(),
                ))
            });
            let (o, dt, st, src) = match res {
                Err(_) => ("panic".to_string(), "none", Sx::L(vec![]), "none"),
                Ok(Ok((_, dt, o))) => (
                    "ok".to_string(),
                    dt_sym(&dt),
                    enc_st(o.status),
                    src_of(&o.stdout, &o.stderr),
                ),
                Ok(Err(e)) => {
                    let (k, st, src) = classify_err(&e);
                    (k, "none", st, src)
                }
            };
            Sx::L(vec![
                Sx::sym(&o),
                Sx::sym(dt),
                st,
                listing(&dir, &oname),
                Sx::bool(ran.load(Ordering::SeqCst)),
                Sx::sym(src),
            ])
        };
        let weak = std::fs::read(tcdir.join("weak_map.json"))
            .map(|b| String::from_utf8_lossy(&b).trim() != "{}")
            .unwrap_or(false);
        let arch = std::fs::read_dir(tcdir.join("tc"))
            .map(|rd| {
                fn any_file(rd: std::fs::ReadDir) -> bool {
                    rd.flatten().any(|e| {
                        let p = e.path();
                        if p.is_dir() {
                            std::fs::read_dir(&p).map(any_file).unwrap_or(false)
                        } else {
                            true
                        }
                    })
                }
                any_file(rd)
            })
            .unwrap_or(false);
        out.push(Sx::L(vec![Sx::L(vec![Sx::bool(weak), Sx::bool(arch)]), r]));
    }
    Sx::L(out)
}

// ------------------------------------------------------------------ leg rustinputs
// The real rust `parse_arguments` + the real `RustInputsPackager::write_inputs` (hook `verif_write_inputs`) for
// every spelling of a `--crate-type` list, with a dependency rlib on disk.
// case: ( ( ( SPELL ty ... ) ... ) SIBLING KIND )   SPELL 0: `--crate-type V`, 1: `--crate-type=V`; V = tys joined by ','
//        SIBLING: a lib*.a lies next to the rlib; KIND 0: rlib with a `rust.metadata.bin` member (hand-made ar),
//        1: a real rlib built by the installed rustc (metadata member `lib.rmeta`), 2: an archive without a metadata member
// obs:  uncacheable | complete | trimmed | missing | other

fn ar_gnu(members: &[(&str, &[u8])]) -> Vec<u8> {
    fn hdr(name: &str, size: usize) -> Vec<u8> {
        format!("{:<16}{:<12}{:<6}{:<6}{:<8}{:<10}`\n", name, 0, 0, 0, 644, size).into_bytes()
    }
    let mut table = String::new();
    let mut offs = vec![];
    for (n, _) in members {
        offs.push(table.len());
        table.push_str(n);
        table.push_str("/\n");
    }
    let mut out = b"!<arch>\n".to_vec();
    out.extend(hdr("//", table.len()));
    out.extend(table.as_bytes());
    if out.len() % 2 == 1 {
        out.push(b'\n');
    }
    for ((_, d), o) in members.iter().zip(offs) {
        out.extend(hdr(&format!("/{}", o), d.len()));
        out.extend(*d);
        if out.len() % 2 == 1 {
            out.push(b'\n');
        }
    }
    out
}

fn real_rlib() -> Option<Vec<u8>> {
    use std::sync::OnceLock;
    static R: OnceLock<Option<Vec<u8>>> = OnceLock::new();
    R.get_or_init(|| {
        let td = tempfile::Builder::new().prefix("vh-c13rl-").tempdir_in("/dev/shm").ok()?;
        std::fs::write(td.path().join("dep.rs"), "pub fn g() -> i32 { 41 }\n").ok()?;
        let out = td.path().join("libdep.rlib");
        let st = std::process::Command::new("rustc")
            .args(["--crate-type", "rlib", "--crate-name", "dep", "-C", "metadata=0123abcd", "dep.rs", "-o"])
            .arg(&out)
            .current_dir(td.path())
            .status()
            .ok()?;
        if !st.success() {
            return None;
        }
        std::fs::read(out).ok()
    })
    .clone()
}

fn run_rustinputs(case: &Sx) -> Sx {
    let td = tempfile::Builder::new().prefix("vh-c13ri-").tempdir_in("/dev/shm").unwrap();
    let cwd = td.path().to_path_buf();
    std::fs::create_dir_all(cwd.join("src")).unwrap();
    std::fs::create_dir_all(cwd.join("target/deps")).unwrap();
    std::fs::write(cwd.join("src/top.rs"), "extern crate dep; pub fn f() -> i32 { dep::g() + 1 }\n").unwrap();
    let kind = case.arg(2).u64();
    let rlib = if kind == 1 {
        match real_rlib() {
            Some(b) => b,
            None => return Sx::sym("no_rustc"),
        }
    } else if kind == 2 {
        // an archive without any metadata member
        ar_gnu(&[("dep.dep.7rcbfp3g-cgu.0.rcgu.o", &[0x7fu8, b'E', b'L', b'F', 1, 2, 3, 4, 5, 6, 7, 8, 9, 10][..])])
    } else {
        ar_gnu(&[
            ("rust.metadata.bin", &b"rust\0\0\0\x08metadata of dep"[..]),
            ("dep.dep.7rcbfp3g-cgu.0.rcgu.o", &[0x7fu8, b'E', b'L', b'F', 1, 2, 3, 4, 5, 6, 7, 8, 9, 10][..]),
        ])
    };
    let rpath = cwd.join("target/deps/libdep-0123abcd.rlib");
    std::fs::write(&rpath, &rlib).unwrap();
    if case.arg(1).as_bool() {
        std::fs::write(cwd.join("target/deps/libdep-0123abcd.a"), b"!<arch>\n").unwrap();
    }
    let mut args: Vec<OsString> = vec![];
    for opt in case.arg(0).list() {
        let l = opt.list();
        let v = l[1..].iter().map(|t| t.str()).collect::<Vec<_>>().join(",");
        if l[0].as_bool() {
            args.push(format!("--crate-type={}", v).into());
        } else {
            args.push("--crate-type".into());
            args.push(v.into());
        }
    }
    for a in [
        "--crate-name", "top", "--emit=dep-info,link", "src/top.rs", "--out-dir", "target/deps", "--extern",
        "dep=target/deps/libdep-0123abcd.rlib",
    ] {
        args.push(a.into());
    }
    let r = catch(|| comp::rust::verif_write_inputs(&args, &cwd, vec![cwd.join("src/top.rs")], vec![]));
    match r {
        Err(_) => Sx::sym("panic"),
        Ok(Err(_)) => Sx::sym("error"),
        Ok(Ok(None)) => Sx::sym("uncacheable"),
        Ok(Ok(Some(tar))) => match tar_member(&tar, "libdep-0123abcd.rlib") {
            None => Sx::sym("missing"),
            Some(b) if b == rlib => Sx::sym("complete"),
            // an ar archive with the metadata member only (no code-generation-unit object)
            Some(b)
                if b.len() < rlib.len()
                    && b.starts_with(b"!<arch>\n")
                    && !b.windows(7).any(|w| w == b".rcgu.o")
                    && (b.windows(9).any(|w| w == b"lib.rmeta") || b.windows(17).any(|w| w == b"rust.metadata.bin")) =>
            {
                Sx::sym("trimmed")
            }
            Some(_) => Sx::sym("other"),
        },
    }
}

// ------------------------------------------------------------------ leg simplify
// The real `dist::pkg::simplify_path` (used by the C and Rust inputs packagers for every input path) on a real
// directory tree with symbolic links.
// case: ( ( ( LINKPATH TARGET ) ... ) ( DIR ... ) PATH )   all relative to a scratch root; LINKPATH/DIR/PATH are lists
//        of components ( name | dotdot | dot ), TARGET likewise with an optional leading `root` = the scratch root
// obs:  refused | ( ( comp ... ) SAME )    the simplified path (relative to the scratch root) and whether it names the
//        same file as PATH according to the kernel (canonicalize)

fn comps_to_rel(x: &Sx) -> PathBuf {
    let mut p = PathBuf::new();
    for c in x.list() {
        if c.is_sym("dotdot") {
            p.push("..");
        } else if c.is_sym("dot") {
            p.push(".");
        } else if c.is_sym("root") {
        } else {
            p.push(c.str());
        }
    }
    p
}

fn run_simplify(case: &Sx) -> Sx {
    let td = tempfile::Builder::new().prefix("vh-c13s-").tempdir_in("/dev/shm").unwrap();
    let root = td.path().canonicalize().unwrap();
    for d in case.arg(1).list() {
        std::fs::create_dir_all(root.join(comps_to_rel(d))).unwrap();
    }
    for l in case.arg(0).list() {
        let at = root.join(comps_to_rel(l.arg(0)));
        if let Some(parent) = at.parent() {
            std::fs::create_dir_all(parent).unwrap();
        }
        let t = l.arg(1);
        let target = if t.list().first().map(|c| c.is_sym("root")).unwrap_or(false) {
            root.join(comps_to_rel(t))
        } else {
            comps_to_rel(t)
        };
        let _ = std::os::unix::fs::symlink(target, at);
    }
    // the path is written as the user would: root joined with the components, `.`/`..` kept
    let mut raw = root.as_os_str().as_bytes().to_vec();
    for c in case.arg(2).list() {
        raw.push(b'/');
        if c.is_sym("dotdot") {
            raw.extend(b"..");
        } else if c.is_sym("dot") {
            raw.push(b'.');
        } else {
            raw.extend(c.bytes());
        }
    }
    let path = PathBuf::from(OsString::from_vec(raw));
    match catch(|| pkg::simplify_path(&path)) {
        Err(_) => Sx::sym("panic"),
        Ok(Err(_)) => Sx::sym("refused"),
        Ok(Ok(q)) => {
            let same = match (std::fs::canonicalize(&path), std::fs::canonicalize(&q)) {
                (Ok(a), Ok(b)) => a == b,
                // a path that does not exist: compare the directories it is looked up in and the final name
                (Err(_), Err(_)) => match (path.parent().and_then(|d| d.canonicalize().ok()), q.parent().and_then(|d| d.canonicalize().ok())) {
                    (Some(a), Some(b)) => a == b && path.file_name() == q.file_name(),
                    (None, None) => true,
                    _ => false,
                },
                _ => false,
            };
            let rel = match q.strip_prefix(&root) {
                Ok(r) => Sx::L(r.components().map(|c| Sx::B(c.as_os_str().as_bytes().to_vec())).collect()),
                Err(_) => Sx::L(vec![Sx::sym("outside"), Sx::B(q.as_os_str().as_bytes().to_vec())]),
            };
            Sx::L(vec![rel, Sx::bool(same)])
        }
    }
}

// ------------------------------------------------------------------ leg rustdeps
// An edit history of a small cargo-style workspace top -> bdep -> cdep built with the installed rustc, packaged by
// the real client code: `Rust::new` (with its real RlibDepReader and its `rustc -Z ls` cache), the real
// parse_arguments / generate_hash_key (runs `rustc --emit dep-info`) / into_dist_packagers / write_inputs.
// case: ( OP ... )   OP = ( build CRATE USES ) (re)compile bdep|ddep to its fixed cargo-style path, USES = 1: its code
//                        calls into cdep (which is always passed as --extern) | package (top's inputs) | touch
// obs:  per OP: ok | ( rlib names in the inputs archive, sorted ) | err

fn rustc_run(cwd: &Path, args: &[&str]) -> bool {
    std::process::Command::new("rustc")
        .args(args)
        .current_dir(cwd)
        .stdout(std::process::Stdio::null())
        .stderr(std::process::Stdio::null())
        .status()
        .map(|s| s.success())
        .unwrap_or(false)
}

fn tar_names(tar: &[u8]) -> Vec<String> {
    let mut pos = 0;
    let mut out = vec![];
    let mut long_name: Option<String> = None;
    while pos + 512 <= tar.len() {
        let h = &tar[pos..pos + 512];
        if h.iter().all(|b| *b == 0) {
            break;
        }
        let cstr = |b: &[u8]| String::from_utf8_lossy(&b[..b.iter().position(|c| *c == 0).unwrap_or(b.len())]).into_owned();
        let size = usize::from_str_radix(cstr(&h[124..136]).trim(), 8).unwrap_or(0);
        let data = &tar[pos + 512..(pos + 512 + size).min(tar.len())];
        if h[156] == b'L' {
            long_name = Some(cstr(data));
        } else {
            let mut name = cstr(&h[0..100]);
            let prefix = cstr(&h[345..500]);
            if !prefix.is_empty() && &h[257..262] == b"ustar" {
                name = format!("{}/{}", prefix, name);
            }
            out.push(long_name.take().unwrap_or(name));
        }
        pos += 512 + size.div_ceil(512) * 512;
    }
    out
}

fn run_rustdeps_named(tname: &str, case: &Sx) -> Sx {
    use sccache::verif_hooks::mock_command::ProcessCommandCreator;
    let td = tempfile::Builder::new().prefix("vh-c13d-").tempdir_in("/dev/shm").unwrap();
    let ws = td.path().canonicalize().unwrap();
    std::fs::create_dir_all(ws.join("src")).unwrap();
    std::fs::create_dir_all(ws.join("target/debug/deps")).unwrap();
    std::fs::write(ws.join(format!("src/{}.rs", tname)), "pub fn c() -> i32 { 1 }\n").unwrap();
    let tsrc = format!("src/{}.rs", tname);
    let textern = format!("{t}=target/debug/deps/lib{t}-1111.rlib", t = tname);
    std::fs::write(ws.join("src/top.rs"), "pub fn t() -> i32 { bdep::b() + ddep::d() }\n").unwrap();
    if !rustc_run(&ws, &["--crate-name", tname, "--edition=2021", "--crate-type", "lib", "-C", "extra-filename=-1111", "--out-dir", "target/debug/deps", &tsrc]) {
        return Sx::sym("no_rustc");
    }
    let build = |name: &str, tag: &str, f: &str, uses: bool| -> bool {
        std::fs::write(
            ws.join(format!("src/{}.rs", name)),
            if uses { format!("pub fn {}() -> i32 {{ {}::c() + 1 }}\n", f, tname) } else { format!("pub fn {}() -> i32 {{ 1 }}\n", f) },
        )
        .unwrap();
        let extra = format!("extra-filename=-{}", tag);
        let src = format!("src/{}.rs", name);
        rustc_run(&ws, &["--crate-name", name, "--edition=2021", "--crate-type", "lib", "-C", &extra, "--out-dir", "target/debug/deps", "-L", "dependency=target/debug/deps", "--extern", &textern, "-A", "unused-crate-dependencies", &src])
    };
    if !build("bdep", "2222", "b", false) || !build("ddep", "4444", "d", false) {
        return Sx::sym("no_rustc");
    }
    let runtime = tokio::runtime::Builder::new_multi_thread().worker_threads(2).enable_all().build().unwrap();
    let pool = runtime.handle().clone();
    let env: Vec<(OsString, OsString)> = vec![
        ("PATH".into(), std::env::var_os("PATH").unwrap_or_default()),
        ("CARGO_PKG_NAME".into(), "top".into()),
    ];
    let vv = match std::process::Command::new("rustc").arg("-vV").output() {
        Ok(o) if o.status.success() => String::from_utf8_lossy(&o.stdout).into_owned(),
        _ => return Sx::sym("no_rustc"),
    };
    let exe = match std::env::split_paths(&std::env::var_os("PATH").unwrap_or_default()).map(|d| d.join("rustc")).find(|p| p.is_file()) {
        Some(p) => p,
        None => return Sx::sym("no_rustc"),
    };
    let client = JobClient::new_num(1);
    let creator = <ProcessCommandCreator as sccache::verif_hooks::mock_command::CommandCreatorSync>::new(&client);
    let rust = match runtime.block_on(comp::rust::Rust::new(creator.clone(), exe, &env, &vv, None, pool.clone())) {
        Ok(r) => r,
        Err(_) => return Sx::sym("no_rustc"),
    };
    let storage: Arc<dyn Storage> = Arc::new(DiskCache::new(
        td.path().join("cache"),
        u64::MAX,
        &pool,
        PreprocessorCacheModeConfig::default(),
        CacheMode::ReadWrite,
    ));
    let args: Vec<OsString> = [
        "--crate-name", "top", "--edition=2021", "--crate-type", "lib", "--emit=dep-info,link", "-C", "extra-filename=-3333",
        "--out-dir", "target/debug/deps", "-L", "dependency=target/debug/deps",
        "--extern", "bdep=target/debug/deps/libbdep-2222.rlib", "--extern", "ddep=target/debug/deps/libddep-4444.rlib", "src/top.rs",
    ]
    .iter()
    .map(OsString::from)
    .collect();
    let mut out = vec![];
    for op in case.list() {
        if op.is_sym("package") {
            let r = catch(|| -> anyhow::Result<Vec<String>> {
                let hasher = match comp::Compiler::<ProcessCommandCreator>::parse_arguments(&rust, &args, &ws, &env) {
                    CompilerArguments::Ok(h) => h,
                    _ => anyhow::bail!("not cacheable"),
                };
                let hr = runtime.block_on(hasher.generate_hash_key(
                    &creator,
                    ws.clone(),
                    env.clone(),
                    true,
                    &pool,
                    false,
                    storage.clone(),
                    CacheControl::Default,
                ))?;
                let (inputs, _, _) = hr.compilation.into_dist_packagers(PathTransformer::new())?;
                let mut tar = vec![];
                inputs.write_inputs(&mut tar)?;
                let mut names: Vec<String> = tar_names(&tar)
                    .into_iter()
                    .filter(|n| n.ends_with(".rlib"))
                    .map(|n| n.rsplit('/').next().unwrap().to_owned())
                    .collect();
                names.sort();
                Ok(names)
            });
            out.push(match r {
                Ok(Ok(names)) => Sx::L(names.iter().map(|n| Sx::B(n.as_bytes().to_vec())).collect()),
                Ok(Err(e)) => Sx::L(vec![Sx::sym("err"), Sx::B(format!("{:#}", e).into_bytes())]),
                Err(_) => Sx::sym("panic"),
            });
        } else if op.is_sym("touch") {
            out.push(Sx::sym("ok"));
        } else {
            let name = op.arg(1).str();
            let (tag, f) = if name == "bdep" { ("2222", "b") } else { ("4444", "d") };
            // a rebuild is later than anything before it
            std::thread::sleep(std::time::Duration::from_millis(15));
            out.push(Sx::sym(if build(&name, tag, f, op.arg(2).as_bool()) { "ok" } else { "build_failed" }));
        }
    }
    Sx::L(out)
}

fn run_rustdeps(case: &Sx) -> Sx {
    run_rustdeps_named("cdep", case)
}

// leg rustnames: ( NAME ) - the transitive dependency is called NAME (e.g. libutil, lib_sys): bdep is rebuilt using it,
// top's inputs are packaged; obs: ( HAS_BDEP HAS_DDEP HAS_NAMED ) for lib<crate>-<hash>.rlib in the inputs archive
fn run_rustnames(case: &Sx) -> Sx {
    let name = case.arg(0).str();
    let ops = Sx::L(vec![
        Sx::L(vec![Sx::sym("build"), Sx::sym("bdep"), Sx::N(1)]),
        Sx::sym("package"),
    ]);
    let r = run_rustdeps_named(&name, &ops);
    if !matches!(r, Sx::L(_)) {
        return r;
    }
    let pk = r.arg(1);
    if pk.list().first().map(|x| x.is_sym("err")).unwrap_or(false) || !matches!(pk, Sx::L(_)) {
        return Sx::L(vec![Sx::sym("err"), pk.clone()]);
    }
    let has = |n: String| Sx::bool(pk.list().iter().any(|x| x.bytes() == n.as_bytes()));
    Sx::L(vec![
        has("libbdep-2222.rlib".into()),
        has("libddep-4444.rlib".into()),
        has(format!("lib{}-1111.rlib", name)),
    ])
}

// ------------------------------------------------------------------ leg aliases
// One compiler binary reached under several names (a real file, symlinks to it, a copy) through ONE client toolchain
// cache: real compiler detection / C hasher (weak toolchain key) / get_cached_or_compile / ClientToolchains; the
// scripted build server refuses to run an executable that is not in the job's toolchain.
// case: ( ALIAS ... )   0 = gcc, 1 = cc -> gcc, 2 = gcc-12 -> gcc, 3 = gcc2 (a copy of gcc)
// obs:  ( ( CLASS DT MATCH ) ... )   MATCH: the job's toolchain was packaged for the executable the job runs

fn run_aliases(case: &Sx) -> Sx {
    let td = tempfile::Builder::new().prefix("vh-c13a-").tempdir_in("/dev/shm").unwrap();
    let dir = td.path().join("w");
    std::fs::create_dir_all(&dir).unwrap();
    std::fs::write(dir.join("foo.h"), b"int g(void);\n").unwrap();
    age(&dir.join("foo.h"));
    let gcc = dir.join("gcc");
    std::fs::write(&gcc, b"#!/bin/sh\n# the compiler\n").unwrap();
    std::fs::copy(&gcc, dir.join("gcc2")).unwrap();
    {
        use std::os::unix::fs::PermissionsExt;
        for n in ["gcc", "gcc2"] {
            std::fs::set_permissions(dir.join(n), std::fs::Permissions::from_mode(0o755)).unwrap();
        }
    }
    std::os::unix::fs::symlink("gcc", dir.join("cc")).unwrap();
    std::os::unix::fs::symlink("gcc", dir.join("gcc-12")).unwrap();
    let names = ["gcc", "cc", "gcc-12", "gcc2"];
    let runtime = tokio::runtime::Builder::new_multi_thread().worker_threads(2).enable_all().build().unwrap();
    let pool = runtime.handle().clone();
    let storage: Arc<dyn Storage> = Arc::new(DiskCache::new(
        td.path().join("cache"),
        u64::MAX,
        &pool,
        PreprocessorCacheModeConfig::default(),
        CacheMode::ReadWrite,
    ));
    let tcs = Arc::new(dist::ClientToolchains::new(&td.path().join("toolchains"), 1 << 30, &[]).unwrap());
    let creator = new_creator();
    let arguments: Vec<OsString> = vec!["-c".into(), "foo.c".into(), "-o".into(), "foo.o".into()];
    let mut hashers = HashMap::new();
    let mut obs = vec![];
    for (i, a) in case.list().iter().enumerate() {
        let alias = (a.u64() as usize).min(3);
        if !hashers.contains_key(&alias) {
            // the detection may probe more than once, depending on the name
            for _ in 0..4 {
                creator
                    .lock()
                    .unwrap()
                    .next_command_spawns(Ok(MockChild::new(exit_status(0), "compiler_id=gcc", "")));
            }
            let c = match catch(|| {
                runtime.block_on(comp::get_compiler_info(creator.clone(), &dir.join(names[alias]), &dir, &[], &[], &pool, None))
            }) {
                Ok(Ok(c)) => c.0,
                _ => return Sx::sym("detection_failed"),
            };
            creator.lock().unwrap().children.clear();
            match c.parse_arguments(&arguments, ".".as_ref(), &[]) {
                CompilerArguments::Ok(h) => {
                    hashers.insert(alias, h);
                }
                _ => return Sx::sym("parse_arguments_failed"),
            }
        }
        let variant = i as u64 + 10;
        std::fs::write(dir.join("foo.c"), format!("#include \"foo.h\"\nint f{v}(void) {{ return g() + {v}; }}\n", v = variant)).unwrap();
        age(&dir.join("foo.c"));
        let _ = std::fs::remove_file(dir.join("foo.o"));
        let s = Script {
            gen: true,
            dist: true,
            prep: None,
            put: None,
            alloc: Alloc::Ok(true),
            submit: Submit::Ok,
            run: Run::Complete(0, vec![(0, W::Ok)]),
            rewrite: None,
            local: Local::Exit(0, vec![0]),
            pre: vec![],
        };
        let client = Arc::new(ScriptClient {
            s: s.clone(),
            dir: dir.clone(),
            requested_outputs: true,
            variant,
            sent: Mutex::new(None),
            toolchains: Some((tcs.clone(), 0)),
            alias_mode: true,
            job_tc: Mutex::new(None),
            tc_match: Mutex::new(None),
        });
        let dclient: Arc<dyn dist::Client> = client.clone();
        let service = SccacheService::<Creator>::mock_with_dist_client(dclient.clone(), storage.clone(), pool.clone());
        for _ in 0..2 {
            creator.lock().unwrap().next_command_calls(move |args| {
                if args.iter().any(|a| a == "-E") {
                    return Ok(MockChild::new(exit_status(0), preprocessed(variant), ""));
                }
                Err(anyhow::anyhow!("MOCK spawn failure"))
            });
        }
        let h = hashers[&alias].clone();
        let res = catch(|| {
            runtime.block_on(async {
                let r = h
                    .get_cached_or_compile(
                        &service,
                        Some(dclient.clone()),
                        creator.clone(),
                        storage.clone(),
                        arguments.clone(),
                        dir.clone(),
                        vec![],
                        CacheControl::Default,
                        pool.clone(),
                    )
                    .await;
                match r {
                    Ok((CompileResult::CacheMiss(mt, dt, d, fut), out)) => {
                        let w = fut.await;
                        Ok((CompileResult::CacheMiss(mt, dt, d, Box::pin(async { w })), out))
                    }
                    o => o,
                }
            })
        });
        creator.lock().unwrap().children.clear();
        let (class, dt) = match res {
            Err(_) => ("panic".to_string(), "none"),
            Ok(Ok((cr, _))) => match &cr {
                CompileResult::CacheMiss(MissType::Normal, dt, _, _) => ("miss".to_string(), dt_sym(dt)),
                CompileResult::CompileFailed(dt, _) => ("compile_failed".to_string(), dt_sym(dt)),
                CompileResult::CacheHit(_) => ("hit".to_string(), "none"),
                _ => ("other".to_string(), "none"),
            },
            Ok(Err(e)) => (classify_err(&e).0, "none"),
        };
        let m = client.tc_match.lock().unwrap().take();
        obs.push(Sx::L(vec![Sx::sym(&class), Sx::sym(dt), Sx::opt(m.map(Sx::bool))]));
    }
    Sx::L(obs)
}

// ------------------------------------------------------------------ leg routes
// The status a scheduler / build-server route answers a failing stage with (table read from src/dist/http.rs by the
// translator), through the client's real status mapping: for the scheduler's alloc_job route the REAL
// `dist::http::Client` talks to a stub scheduler on localhost that answers with that status; for the build-server
// routes (TLS) the scripted client raises the error class of that status. Then the real dist_or_local_compile.
// case: ( ROUTE KIND CODE LOCAL )     obs: ( OUT DT ST FS RAN SRC )

fn stub_scheduler(code: u64) -> (u16, std::thread::JoinHandle<()>, Arc<AtomicBool>) {
    use std::io::{Read, Write};
    let l = std::net::TcpListener::bind("127.0.0.1:0").unwrap();
    let port = l.local_addr().unwrap().port();
    l.set_nonblocking(true).unwrap();
    let stop = Arc::new(AtomicBool::new(false));
    let stop2 = stop.clone();
    let h = std::thread::spawn(move || {
        while !stop2.load(Ordering::SeqCst) {
            match l.accept() {
                Ok((mut c, _)) => {
                    let _ = c.set_nonblocking(false);
                    let _ = c.set_read_timeout(Some(std::time::Duration::from_millis(300)));
                    let mut buf = [0u8; 8192];
                    let mut got = vec![];
                    // read the headers and whatever body arrives with them
                    while let Ok(n) = c.read(&mut buf) {
                        if n == 0 {
                            break;
                        }
                        got.extend_from_slice(&buf[..n]);
                        if got.windows(4).any(|w| w == b"\r\n\r\n") {
                            break;
                        }
                    }
                    let body = b"{\"description\":\"stub scheduler\"}";
                    let _ = write!(c, "HTTP/1.1 {} STUB\r\nContent-Type: application/json\r\nContent-Length: {}\r\nConnection: close\r\n\r\n", code, body.len());
                    let _ = c.write_all(body);
                    let _ = c.flush();
                }
                Err(_) => std::thread::sleep(std::time::Duration::from_millis(2)),
            }
        }
    });
    (port, h, stop)
}

struct HttpAllocClient {
    real: dist::http::Client,
    inner: ScriptClient,
}

#[async_trait]
impl dist::Client for HttpAllocClient {
    async fn do_alloc_job(&self, tc: Toolchain) -> anyhow::Result<AllocJobResult> {
        self.real.do_alloc_job(tc).await
    }
    async fn do_get_status(&self) -> anyhow::Result<SchedulerStatusResult> {
        unreachable!()
    }
    async fn do_submit_toolchain(&self, j: JobAlloc, tc: Toolchain) -> anyhow::Result<SubmitToolchainResult> {
        self.inner.do_submit_toolchain(j, tc).await
    }
    async fn do_run_job(
        &self,
        j: JobAlloc,
        c: dist::CompileCommand,
        o: Vec<String>,
        i: Box<dyn pkg::InputsPackager>,
    ) -> anyhow::Result<(RunJobResult, PathTransformer)> {
        self.inner.do_run_job(j, c, o, i).await
    }
    async fn put_toolchain(
        &self,
        p: PathBuf,
        w: String,
        t: Box<dyn pkg::ToolchainPackager>,
    ) -> anyhow::Result<(Toolchain, Option<(String, PathBuf)>)> {
        self.inner.put_toolchain(p, w, t).await
    }
    fn rewrite_includes_only(&self) -> bool {
        false
    }
    fn get_custom_toolchain(&self, _exe: &Path) -> Option<PathBuf> {
        None
    }
}

fn run_routes(case: &Sx) -> Sx {
    let route = case.arg(0).str();
    let code = case.arg(2).u64();
    let lc = case.arg(3);
    let local = if lc.list().len() == 4 {
        Local::Exit(dec_i32(lc.arg(1), lc.arg(2)), lc.arg(3).list().iter().map(|p| p.u64()).collect())
    } else {
        Local::SpawnErr
    };
    let class = if (400..500).contains(&code) { Class::Http } else { Class::Other };
    let s = Script {
        gen: true,
        dist: true,
        prep: None,
        put: None,
        alloc: Alloc::Ok(true),
        submit: if route == "submit_toolchain" { Submit::Err(class) } else { Submit::Ok },
        run: if route == "run_job" { Run::Err(class) } else { Run::Complete(0, vec![(0, W::Ok)]) },
        rewrite: None,
        local,
        pre: vec![],
    };
    let td = tempfile::Builder::new().prefix("vh-c13h-").tempdir_in("/dev/shm").unwrap();
    let dir = td.path().join("w");
    std::fs::create_dir_all(&dir).unwrap();
    let (runtime, storage) = shared();
    let pool = runtime.handle().clone();
    let creator = new_creator();
    let ran = Arc::new(AtomicBool::new(false));
    let files = match &s.local {
        Local::Exit(_, ws) => ws.iter().map(|p| opath(&dir, *p)).collect(),
        Local::SpawnErr => vec![],
    };
    queue_local(&creator, &s, &dir, ran.clone(), files);
    let inner = ScriptClient {
        s: s.clone(),
        dir: dir.clone(),
        requested_outputs: false,
        variant: 0,
        sent: Mutex::new(None),
        toolchains: None,
        alias_mode: false,
        job_tc: Mutex::new(None),
        tc_match: Mutex::new(None),
    };
    let mut stub = None;
    let client: Arc<dyn dist::Client> = if route == "alloc_job" {
        let (port, h, stop) = stub_scheduler(code);
        stub = Some((h, stop));
        let real = match dist::http::Client::new(
            &pool,
            format!("http://127.0.0.1:{}", port).parse().unwrap(),
            &td.path().join("tc"),
            1 << 20,
            &[],
            "token".into(),
            false,
        ) {
            Ok(c) => c,
            Err(_) => return Sx::sym("client_new_failed"),
        };
        Arc::new(HttpAllocClient { real, inner })
    } else {
        Arc::new(inner)
    };
    let service = SccacheService::<Creator>::mock_with_dist_client(client.clone(), storage, pool);
    let compilation = Box::new(RawCompilation {
        s: s.clone(),
        dir: dir.clone(),
        dist_cmd: true,
    });
    let res = catch(|| {
        runtime.block_on(comp::verif_dist_or_local_compile(
            &service,
            Some(client.clone()),
            creator.clone(),
            dir.clone(),
            compilation,
            "weak".into(),
            "o0".into(),
        ))
    });
    if let Some((h, stop)) = stub {
        stop.store(true, Ordering::SeqCst);
        let _ = h.join();
    }
    let (out, dt, st, src) = match res {
        Err(_) => ("panic".to_string(), "none", Sx::L(vec![]), "none"),
        Ok(Ok((_, dt, o))) => ("ok".to_string(), dt_sym(&dt), enc_st(o.status), src_of(&o.stdout, &o.stderr)),
        Ok(Err(e)) => {
            let (k, st, src) = classify_err(&e);
            (k, "none", st, src)
        }
    };
    Sx::L(vec![Sx::sym(&out), Sx::sym(dt), st, listing(&dir, &oname), Sx::bool(ran.load(Ordering::SeqCst)), Sx::sym(src)])
}

// ------------------------------------------------------------------ leg args

fn os(b: &Sx) -> OsString {
    OsString::from_vec(b.bytes().to_vec())
}

fn lang_of(x: &Sx) -> Option<Language> {
    Some(match x.str().as_str() {
        "C" => Language::C,
        "Cxx" => Language::Cxx,
        "GenericHeader" => Language::GenericHeader,
        "CHeader" => Language::CHeader,
        "CxxHeader" => Language::CxxHeader,
        "ObjectiveC" => Language::ObjectiveC,
        "ObjectiveCxx" => Language::ObjectiveCxx,
        "ObjectiveCxxHeader" => Language::ObjectiveCxxHeader,
        "Cuda" => Language::Cuda,
        "CudaFE" => Language::CudaFE,
        "Ptx" => Language::Ptx,
        "Cubin" => Language::Cubin,
        "Rust" => Language::Rust,
        "Hip" => Language::Hip,
        _ => return None,
    })
}

fn run_args(case: &Sx) -> Sx {
    let is_gcc = case.arg(0).as_bool();
    let rio = case.arg(1).as_bool();
    let lang = match lang_of(case.arg(2)) {
        Some(l) => l,
        None => return Sx::sym("bad_language"),
    };
    let osl = |i: usize| -> Vec<OsString> { case.arg(i).list().iter().map(os).collect() };
    let mut outputs = HashMap::new();
    if let Some(o) = case.arg(7).list().first() {
        outputs.insert(
            "obj",
            ArtifactDescriptor {
                path: PathBuf::from(os(o)),
                optional: false,
            },
        );
    }
    let parsed = ParsedArguments {
        input: PathBuf::from(os(case.arg(6))),
        double_dash_input: case.arg(3).as_bool(),
        language: lang,
        compilation_flag: os(case.arg(5)),
        depfile: None,
        outputs,
        dependency_args: osl(9),
        preprocessor_args: osl(8),
        common_args: osl(11),
        arch_args: osl(12),
        unhashed_args: osl(10),
        extra_dist_files: vec![],
        extra_hash_files: vec![],
        msvc_show_includes: false,
        profile_generate: false,
        color_mode: ColorMode::Auto,
        suppress_rewrite_includes_only: case.arg(4).as_bool(),
        too_hard_for_preprocessor_cache_mode: None,
    };
    let exe = PathBuf::from(os(case.arg(13)));
    let cwd = PathBuf::from(os(case.arg(14)));
    let vars: Vec<(OsString, OsString)> =
        case.arg(15).list().iter().map(|kv| (os(kv.arg(0)), os(kv.arg(1)))).collect();
    let mut pt = PathTransformer::new();
    let r = if is_gcc {
        comp::gcc::generate_compile_commands(
            &mut pt,
            &exe,
            &parsed,
            &cwd,
            &vars,
            CCompilerKind::Gcc,
            rio,
            comp::gcc::language_to_gcc_arg,
        )
    } else {
        comp::gcc::generate_compile_commands(
            &mut pt,
            &exe,
            &parsed,
            &cwd,
            &vars,
            CCompilerKind::Clang,
            rio,
            comp::clang::language_to_clang_arg,
        )
    };
    match r {
        Err(_) => Sx::sym("err"),
        Ok((cmd, d, _)) => {
            let la = cmd.arguments.iter().map(|a| Sx::B(a.as_bytes().to_vec())).collect();
            let sb = |s: &String| Sx::B(s.as_bytes().to_vec());
            let dx = match d {
                None => Sx::L(vec![]),
                Some(c) => Sx::L(vec![Sx::L(vec![
                    sb(&c.executable),
                    Sx::L(c.arguments.iter().map(sb).collect()),
                    Sx::L(c.env_vars.iter().map(|(k, v)| Sx::L(vec![sb(k), sb(v)])).collect()),
                    sb(&c.cwd),
                ])]),
            };
            Sx::L(vec![Sx::L(la), dx])
        }
    }
}

fn main() {
    if std::env::var_os("C13_LOUD").is_none() {
        vh::quiet_panics();
    }
    let leg = std::env::args().nth(1).unwrap_or_default();
    match leg.as_str() {
        "status" => vh::run_lines(run_status),
        "fallback" => vh::run_lines(run_fallback),
        "request" => vh::run_lines(run_request),
        "toolchain" => vh::run_lines(run_toolchain),
        "rustinputs" => vh::run_lines(run_rustinputs),
        "simplify" => vh::run_lines(run_simplify),
        "aliases" => vh::run_lines(run_aliases),
        "routes" => vh::run_lines(run_routes),
        "rustdeps" => vh::run_lines(run_rustdeps),
        "rustnames" => vh::run_lines(run_rustnames),
        "args" => vh::run_lines(run_args),
        _ => {
            eprintln!("usage: c13 status|fallback|request|toolchain|args");
            std::process::exit(2);
        }
    }
}
