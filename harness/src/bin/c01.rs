//! c01 — drives the real `gcc::parse_arguments`, `gcc::generate_compile_commands`, `preprocess_cmd`, `ArgsIter`
//! and the table search of `sccache` on the cases of Run/C01.v and prints the same observations.
//!   leg "parse":  ( kind plusplus multiarch ((name content)...) (dir...) (word...) (may_dist rio (ws...)) )
//!   leg "search": ( sel key )
use sccache::dist::PathTransformer;
use sccache::verif_hooks::compiler::args::{
    ArgDisposition, ArgInfo, ArgParseError, ArgsIter, Argument, SearchableArgInfo,
};
use sccache::verif_hooks::compiler::c::{CCompilerKind, ParsedArguments};
use sccache::verif_hooks::compiler::gcc::{self, ArgData, ExpandIncludeFile};
use sccache::verif_hooks::compiler::{clang, ColorMode, CompilerArguments, Language};
use std::ffi::{OsStr, OsString};
use std::os::unix::ffi::{OsStrExt, OsStringExt};
use std::path::{Path, PathBuf};
use vh::{catch, Sx};

fn os(b: &[u8]) -> OsString {
    OsString::from_vec(b.to_vec())
}

fn ctor_idx(d: &ArgData) -> u64 {
    use ArgData::*;
    match d {
        TooHardFlag => 0,
        TooHard(_) => 1,
        DiagnosticsColor(_) => 2,
        DiagnosticsColorFlag => 3,
        NoDiagnosticsColorFlag => 4,
        PassThroughFlag => 5,
        PassThrough(_) => 6,
        PassThroughPath(_) => 7,
        PreprocessorArgumentFlag => 8,
        PreprocessorArgument(_) => 9,
        PreprocessorArgumentPath(_) => 10,
        UnhashedFlag => 11,
        Unhashed(_) => 12,
        DoCompilation => 13,
        Output(_) => 14,
        NeedDepTarget => 15,
        DepTarget(_) => 16,
        DepArgumentPath(_) => 17,
        Language(_) => 18,
        SplitDwarf => 19,
        ProfileGenerate => 20,
        ClangProfileUse(_) => 21,
        TestCoverage => 22,
        Coverage => 23,
        ExtraHashFile(_) => 24,
        XClang(_) => 25,
        Arch(_) => 26,
        PedanticFlag => 27,
        Standard(_) => 28,
        SerializeDiagnostics(_) => 29,
    }
}

fn lang_idx(l: Language) -> u64 {
    match l {
        Language::C => 0,
        Language::Cxx => 1,
        Language::GenericHeader => 2,
        Language::CHeader => 3,
        Language::CxxHeader => 4,
        Language::ObjectiveC => 5,
        Language::ObjectiveCxx => 6,
        Language::ObjectiveCxxHeader => 7,
        Language::Cuda => 8,
        Language::CudaFE => 9,
        Language::Ptx => 10,
        Language::Cubin => 11,
        Language::Rust => 12,
        Language::Hip => 13,
    }
}

fn enc_delim(d: &Option<u8>) -> Sx {
    Sx::opt(d.map(|c| Sx::n(c)))
}

fn enc_disp(d: &ArgDisposition) -> Sx {
    match d {
        ArgDisposition::Separated => Sx::sym("sep"),
        ArgDisposition::CanBeConcatenated(x) => Sx::L(vec![Sx::sym("cbc"), enc_delim(x)]),
        ArgDisposition::CanBeSeparated(x) => Sx::L(vec![Sx::sym("cbs"), enc_delim(x)]),
        ArgDisposition::Concatenated(x) => Sx::L(vec![Sx::sym("conc"), enc_delim(x)]),
    }
}

fn value_of(d: &ArgData) -> Vec<u8> {
    use sccache::verif_hooks::compiler::args::IntoArg;
    d.clone().into_arg_os_string().into_vec()
}

fn enc_arg(a: &Argument<ArgData>) -> Sx {
    match a {
        Argument::Raw(s) => Sx::L(vec![Sx::sym("raw"), Sx::B(s.as_bytes().to_vec())]),
        Argument::UnknownFlag(s) => Sx::L(vec![Sx::sym("unknown"), Sx::B(s.as_bytes().to_vec())]),
        Argument::Flag(s, d) => Sx::L(vec![Sx::sym("flag"), Sx::B(s.as_bytes().to_vec()), Sx::n(ctor_idx(d))]),
        Argument::WithValue(s, d, disp) => Sx::L(vec![
            Sx::sym("with"),
            Sx::B(s.as_bytes().to_vec()),
            Sx::n(ctor_idx(d)),
            Sx::B(value_of(d)),
            enc_disp(disp),
        ]),
    }
}

/// Runs the real ArgsIter to its end; returns the tokens and how it ended.
fn tokens<S: SearchableArgInfo<ArgData>>(
    cwd: &Path,
    words: &[OsString],
    info: S,
    double_dashes: bool,
) -> (Vec<Argument<ArgData>>, &'static str) {
    let it = ExpandIncludeFile::new(cwd, words);
    let mut iter = ArgsIter::new(it, info);
    if double_dashes {
        iter = iter.with_double_dashes();
    }
    let mut out = vec![];
    for a in iter {
        match a {
            Ok(a) => out.push(a),
            Err(ArgParseError::UnexpectedEndOfArgs) => return (out, "err_end"),
            Err(_) => return (out, "err_other"),
        }
    }
    (out, "end")
}

fn words(l: &[OsString]) -> Sx {
    Sx::L(l.iter().map(|w| Sx::B(w.as_bytes().to_vec())).collect())
}

fn strip_cwd(cwd: &Path, p: &Path) -> Vec<u8> {
    let c = cwd.as_os_str().as_bytes();
    let b = p.as_os_str().as_bytes();
    if b.starts_with(c) {
        let mut v = b"$CWD".to_vec();
        v.extend_from_slice(&b[c.len()..]);
        v
    } else {
        b.to_vec()
    }
}

fn parsed_fields(cwd: &Path, p: &ParsedArguments) -> Vec<Sx> {
    let mut outs: Vec<(&str, Vec<u8>, bool)> = p
        .outputs
        .iter()
        .map(|(k, v)| (*k, v.path.as_os_str().as_bytes().to_vec(), v.optional))
        .collect();
    outs.sort();
    vec![
        Sx::B(p.input.as_os_str().as_bytes().to_vec()),
        Sx::bool(p.double_dash_input),
        Sx::n(lang_idx(p.language)),
        Sx::B(p.compilation_flag.as_bytes().to_vec()),
        Sx::L(outs
            .into_iter()
            .map(|(k, path, o)| Sx::L(vec![Sx::B(k.as_bytes().to_vec()), Sx::B(path), Sx::bool(o)]))
            .collect()),
        words(&p.preprocessor_args),
        words(&p.dependency_args),
        words(&p.unhashed_args),
        words(&p.common_args),
        words(&p.arch_args),
        Sx::L(p.extra_hash_files.iter().map(|f| Sx::B(strip_cwd(cwd, f))).collect()),
        Sx::bool(p.profile_generate),
        Sx::n(match p.color_mode {
            ColorMode::Off => 0u64,
            ColorMode::On => 1,
            ColorMode::Auto => 2,
        }),
        Sx::bool(p.suppress_rewrite_includes_only),
        Sx::opt(p.too_hard_for_preprocessor_cache_mode.as_ref().map(|s| Sx::B(s.as_bytes().to_vec()))),
    ]
}

fn real_parse(kind: &CCompilerKind, plusplus: bool, cwd: &Path, argv: &[OsString]) -> Result<CompilerArguments<ParsedArguments>, String> {
    catch(|| match kind {
        CCompilerKind::Clang => gcc::parse_arguments(argv, cwd, (&gcc::ARGS[..], &clang::ARGS[..]), plusplus, kind.clone()),
        _ => gcc::parse_arguments(argv, cwd, &gcc::ARGS[..], plusplus, kind.clone()),
    })
}

fn enc_lite(cwd: &Path, r: &Result<CompilerArguments<ParsedArguments>, String>) -> Sx {
    match r {
        Err(_) => Sx::L(vec![Sx::sym("panic")]),
        Ok(CompilerArguments::NotCompilation) => Sx::L(vec![Sx::sym("not_compilation")]),
        Ok(CompilerArguments::CannotCache(w, _)) => Sx::L(vec![Sx::sym("cannot_cache"), Sx::B(w.as_bytes().to_vec())]),
        Ok(CompilerArguments::Ok(p)) => {
            let mut v = vec![Sx::sym("ok")];
            v.extend(parsed_fields(cwd, p));
            Sx::L(v)
        }
    }
}

fn run_parse(case: &Sx) -> Sx {
    let kind = if case.arg(0).is_sym("clang") { CCompilerKind::Clang } else { CCompilerKind::Gcc };
    let plusplus = case.arg(1).as_bool();
    let multiarch = case.arg(2).as_bool();
    let dir = tempfile::Builder::new().prefix("c01-").tempdir_in("/dev/shm").unwrap();
    let cwd = dir.path().to_path_buf();
    for d in case.arg(4).list() {
        let _ = std::fs::create_dir_all(cwd.join(OsStr::from_bytes(d.bytes())));
    }
    for f in case.arg(3).list() {
        let p = cwd.join(OsStr::from_bytes(f.arg(0).bytes()));
        std::fs::write(&p, f.arg(1).bytes()).unwrap();
    }
    if multiarch {
        std::env::set_var("SCCACHE_CACHE_MULTIARCH", "1");
    } else {
        std::env::remove_var("SCCACHE_CACHE_MULTIARCH");
    }
    let argv: Vec<OsString> = case.arg(5).list().iter().map(|w| os(w.bytes())).collect();
    let o = case.arg(6);
    let may_dist = o.arg(0).as_bool();
    let rio = o.arg(1).as_bool();
    let ws: Vec<String> = o.arg(2).list().iter().map(|w| w.str()).collect();

    // the real tokenizer on the same words (for the monitors)
    let (toks, tend) = match kind {
        CCompilerKind::Clang => tokens(&cwd, &argv, (&gcc::ARGS[..], &clang::ARGS[..]), true),
        _ => tokens(&cwd, &argv, &gcc::ARGS[..], false),
    };
    let xvals: Vec<OsString> = toks
        .iter()
        .filter_map(|a| match a {
            Argument::WithValue(_, ArgData::XClang(s), _) => Some(s.clone()),
            _ => None,
        })
        .collect();
    let (xtoks, xtend) = tokens(&cwd, &xvals, (&gcc::ARGS[..], &clang::ARGS[..]), false);

    let r = real_parse(&kind, plusplus, &cwd, &argv);
    let res = match &r {
        Ok(CompilerArguments::Ok(p)) => {
            let mut v = vec![Sx::sym("ok")];
            v.extend(parsed_fields(&cwd, p));
            let mut pt = PathTransformer::new();
            let lang: fn(Language) -> Option<&'static str> = match kind {
                CCompilerKind::Clang => clang::language_to_clang_arg,
                _ => gcc::language_to_gcc_arg,
            };
            let cmd = gcc::generate_compile_commands(&mut pt, Path::new("/usr/bin/cc"), p, &cwd, &[], kind.clone(), rio, lang);
            match cmd {
                Ok((c, _, _)) => {
                    v.push(words(&c.arguments));
                    v.push(words(&gcc::verif_preprocess_args(p, kind.clone(), may_dist, rio, ws.clone())));
                    let r2 = real_parse(&kind, plusplus, &cwd, &c.arguments);
                    v.push(enc_lite(&cwd, &r2));
                }
                Err(_) => v.push(Sx::sym("no_command")),
            }
            Sx::L(v)
        }
        _ => enc_lite(&cwd, &r),
    };
    Sx::L(vec![
        Sx::L(toks.iter().map(enc_arg).collect()),
        Sx::sym(tend),
        Sx::L(xtoks.iter().map(enc_arg).collect()),
        Sx::sym(xtend),
        res,
    ])
}

fn info_sx(i: Option<&ArgInfo<ArgData>>) -> Sx {
    match i {
        None => Sx::L(vec![Sx::sym("none")]),
        Some(i) => {
            // the constructor is only reachable by running the entry's own `process`
            let (s, idx) = match i {
                ArgInfo::Flag(s, d) => (*s, ctor_idx(d)),
                ArgInfo::TakeArg(s, create, _) => (*s, create(OsString::from("x")).map(|d| ctor_idx(&d)).unwrap_or(999)),
            };
            Sx::L(vec![Sx::sym("found"), Sx::B(s.as_bytes().to_vec()), Sx::n(idx)])
        }
    }
}

fn run_search(case: &Sx) -> Sx {
    let key = String::from_utf8_lossy(case.arg(1).bytes()).into_owned();
    let g: &'static [ArgInfo<ArgData>] = &gcc::ARGS[..];
    let c: &'static [ArgInfo<ArgData>] = &clang::ARGS[..];
    if case.arg(0).is_sym("gcc") {
        info_sx(g.search(&key))
    } else if case.arg(0).is_sym("clang") {
        info_sx(c.search(&key))
    } else {
        info_sx((g, c).search(&key))
    }
}

// ---- leg "entry": the real CacheWrite -> bytes -> CacheRead path on members of every size / compressibility class
fn lcg_chunks(x0: u64, chunks: &[(u64, u64)]) -> Vec<u8> {
    let mut x = x0;
    let mut out = Vec::new();
    for &(kind, n) in chunks {
        for i in 0..n {
            out.push(match kind {
                0 => {
                    x = (x.wrapping_mul(1103515245).wrapping_add(12345)) & 0x7fff_ffff;
                    ((x >> 16) & 255) as u8
                }
                1 => 0u8,
                _ => (97 + i % 7) as u8,
            });
        }
    }
    out
}

fn ck(bytes: &[u8]) -> u64 {
    bytes.iter().fold(0u64, |s, b| (s * 31 + *b as u64) & 0xffff_ffff)
}

fn run_entry(case: &Sx) -> Sx {
    use sccache::verif_hooks::cache::{CacheRead, CacheWrite};
    let mode = case.arg(0).u64() as u32;
    let chunks: Vec<(u64, u64)> = case.arg(1).list().iter().map(|c| (c.arg(0).u64(), c.arg(1).u64())).collect();
    let obj = lcg_chunks(12345, &chunks);
    let so = lcg_chunks(777, &[(0, case.arg(2).u64())]);
    let se = lcg_chunks(888, &[(0, case.arg(3).u64())]);
    let r = catch(|| -> Result<(Option<u32>, Vec<u8>, Vec<u8>, Vec<u8>), String> {
        let mut w = CacheWrite::new();
        w.put_object("obj", &mut std::io::Cursor::new(&obj[..]), Some(mode)).map_err(|e| e.to_string())?;
        w.put_stdout(&so).map_err(|e| e.to_string())?;
        w.put_stderr(&se).map_err(|e| e.to_string())?;
        let bytes = w.finish().map_err(|e| e.to_string())?;
        let mut rd = CacheRead::from(std::io::Cursor::new(bytes)).map_err(|e| e.to_string())?;
        let mut back = Vec::new();
        let m = rd.get_object("obj", &mut back).map_err(|e| e.to_string())?;
        let o = rd.get_stdout().map_err(|e| e.to_string())?;
        let e = rd.get_stderr().map_err(|e| e.to_string())?;
        Ok((m, back, o, e))
    });
    match r {
        Ok(Ok((m, back, o, e))) => Sx::L(vec![
            Sx::sym("ok"),
            Sx::n(m.unwrap_or(0) as u64 & 0o7777),
            Sx::n(back.len() as u64),
            Sx::n(ck(&back)),
            Sx::n(o.len() as u64),
            Sx::n(ck(&o)),
            Sx::n(e.len() as u64),
            Sx::n(ck(&e)),
        ]),
        Ok(Err(msg)) => Sx::L(vec![Sx::sym("error"), Sx::B(msg.into_bytes())]),
        Err(_) => Sx::L(vec![Sx::sym("panic")]),
    }
}

fn main() {
    vh::quiet_panics();
    let leg = std::env::args().nth(1).unwrap_or_default();
    let _ = PathBuf::new();
    vh::run_lines(|case| match leg.as_str() {
        "parse" => run_parse(case),
        "search" => run_search(case),
        "entry" => run_entry(case),
        _ => Sx::L(vec![Sx::sym("unknown_leg")]),
    });
}
