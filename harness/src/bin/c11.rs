//! c11 — correspondence legs for property C11 (losing the server mid-request).
//!
//! argv[1] = leg:
//!   decode_resp / decode_req   the real `bincode::deserialize::<Response|Request>` on a payload
//!   client   a FAKE SERVER: listens on a fresh localhost port, runs the REAL `sccache` client binary
//!            ($C11_SCCACHE) as `sccache <fake-cc> -c x.c -o x.o`, answers the compile request with the
//!            scripted bytes and ends the connection by close (FIN) or SO_LINGER-0 close (RST)
//!   server   a LIVE real server (own port, own cache dir, started by this process, killed by pid):
//!            scripted byte chunks on several connections while a bystander client compiles through it
//!   coldstart  no server on a fresh port; k real clients released together through a barrier; each must start /
//!              find a server and deliver the compiler's true result
//!   poison   one fresh real server; well-formed but unservable compile requests (real client or hand-built
//!            frame) followed by ordinary requests for the same compiler from other connections
//!   takeover a Unix-socket server draining after --stop-server while a new server takes the socket path over
//!   bigout   a real server with a small frame limit; the compiler's output is just below / at / above what fits into
//!            one CompileFinished frame; the client must deliver the status with the complete output either way
//!   vanish   a DAEMONISED real server (started by `sccache --start-server`, pid found through /proc); a peer sends a
//!            complete well-formed Compile request and then closes / resets / half-closes, before or after the
//!            acknowledgement, while a bystander's compile is in flight; the same server process must survive
//!   kill     a LIVE real server SIGKILLed at a scripted phase of a request (the wrapper compiler tells us
//!            through a fifo that the phase has been reached), then a second compile with no server running
use sccache::verif_hooks::protocol::{
    verif_decode_request, verif_decode_response, verif_encode_request, Compile, CompileResponse, Request, Response,
};
use std::io::{Read, Write};
use std::net::{TcpListener, TcpStream};
use std::os::unix::ffi::OsStrExt;
use std::os::unix::fs::PermissionsExt;
use std::os::unix::io::AsRawFd;
use std::os::unix::process::CommandExt;
use std::path::{Path, PathBuf};
use std::process::{Child, Command, Stdio};
use std::time::{Duration, Instant};
use vh::Sx;

const FAILSAFE: Duration = Duration::from_secs(60);
const SERVER_OBJ: &[u8] = b"OBJECT-WRITTEN-BY-SERVER\n";
const LOCAL_OBJ: &[u8] = b"OBJECT-WRITTEN-BY-LOCAL-COMPILER\n";

fn sccache_bin() -> String {
    std::env::var("C11_SCCACHE").expect("C11_SCCACHE")
}

fn opt32(o: Option<i32>) -> Sx {
    Sx::opt(o.map(|v| Sx::N(v as u32 as u128)))
}

// ------------------------------------------------------------------ pure decode legs

fn show_response(r: Option<Response>) -> Sx {
    match r {
        None => Sx::sym("err"),
        Some(Response::Compile(CompileResponse::CompileStarted)) => Sx::L(vec![Sx::sym("compile"), Sx::sym("started")]),
        Some(Response::Compile(CompileResponse::UnhandledCompile)) => Sx::L(vec![Sx::sym("compile"), Sx::sym("unhandled")]),
        Some(Response::Compile(CompileResponse::UnsupportedCompiler(s))) => {
            Sx::L(vec![Sx::sym("compile"), Sx::sym("unsupported"), Sx::B(s.as_bytes().to_vec())])
        }
        Some(Response::ZeroStats) => Sx::sym("zero_stats"),
        Some(Response::Stats(_)) => Sx::L(vec![Sx::sym("opaque"), Sx::N(2)]),
        Some(Response::DistStatus(_)) => Sx::L(vec![Sx::sym("opaque"), Sx::N(3)]),
        Some(Response::ShuttingDown(_)) => Sx::L(vec![Sx::sym("opaque"), Sx::N(4)]),
        Some(Response::CompileFinished(f)) => Sx::L(vec![
            Sx::sym("finished"),
            opt32(f.retcode),
            opt32(f.signal),
            Sx::B(f.stdout),
            Sx::B(f.stderr),
            Sx::N(f.color_mode as u32 as u128),
        ]),
    }
}

fn show_request(r: Option<Request>) -> Sx {
    match r {
        None => Sx::sym("err"),
        Some(Request::ZeroStats) => Sx::sym("zero_stats"),
        Some(Request::GetStats) => Sx::sym("get_stats"),
        Some(Request::DistStatus) => Sx::sym("dist_status"),
        Some(Request::Shutdown) => Sx::sym("shutdown"),
        Some(Request::Compile(c)) => Sx::L(vec![
            Sx::sym("compile"),
            Sx::B(c.exe.as_bytes().to_vec()),
            Sx::B(c.cwd.as_bytes().to_vec()),
            Sx::L(c.args.iter().map(|a| Sx::B(a.as_bytes().to_vec())).collect()),
            Sx::L(c.env_vars
                .iter()
                .map(|(k, v)| Sx::L(vec![Sx::B(k.as_bytes().to_vec()), Sx::B(v.as_bytes().to_vec())]))
                .collect()),
        ]),
    }
}

// ------------------------------------------------------------------ helpers

fn scratch(prefix: &str) -> tempfile::TempDir {
    tempfile::Builder::new().prefix(prefix).tempdir_in("/dev/shm").unwrap()
}

fn write_exec(path: &Path, text: &str) {
    std::fs::write(path, text).unwrap();
    std::fs::set_permissions(path, std::fs::Permissions::from_mode(0o755)).unwrap();
}

/// Read one length-prefixed frame; None on EOF / reset / time-out before a full frame.
fn read_frame(s: &mut TcpStream) -> Option<Vec<u8>> {
    let mut h = [0u8; 4];
    s.read_exact(&mut h).ok()?;
    let n = u32::from_be_bytes(h) as usize;
    let mut p = vec![0u8; n];
    s.read_exact(&mut p).ok()?;
    Some(p)
}

fn frame(payload: &[u8]) -> Vec<u8> {
    let mut v = (payload.len() as u32).to_be_bytes().to_vec();
    v.extend_from_slice(payload);
    v
}

fn set_linger0(s: &TcpStream) {
    let l = libc::linger { l_onoff: 1, l_linger: 0 };
    unsafe {
        libc::setsockopt(
            s.as_raw_fd(),
            libc::SOL_SOCKET,
            libc::SO_LINGER,
            &l as *const _ as *const libc::c_void,
            std::mem::size_of::<libc::linger>() as libc::socklen_t,
        );
    }
}

fn wait_child(child: &mut Child, limit: Duration) -> Option<i32> {
    let t0 = Instant::now();
    loop {
        match child.try_wait() {
            Ok(Some(st)) => {
                use std::os::unix::process::ExitStatusExt;
                return Some(st.code().unwrap_or_else(|| 1000 + st.signal().unwrap_or(0)));
            }
            Ok(None) => {}
            Err(_) => return None,
        }
        if t0.elapsed() > limit {
            let _ = child.kill();
            let _ = child.wait();
            return None;
        }
        std::thread::sleep(Duration::from_millis(2));
    }
}

/// A hermetic environment for every sccache process we start.
fn base_cmd(dir: &Path) -> Command {
    let mut c = Command::new(sccache_bin());
    c.env_clear()
        .env("PATH", "/usr/local/bin:/usr/bin:/bin")
        .env("HOME", dir)
        .env("SCCACHE_CONF", dir.join("no-such-config"))
        .env("SCCACHE_CACHED_CONF", dir.join("cached-config"))
        .env("TERM", "dumb")
        .stdin(Stdio::null());
    c
}

/// Which branch of commands.rs spoke, from the client's stderr.
fn classify_stderr(err: &str) -> &'static str {
    if err.contains("Failed to send data to or receive data from server") {
        "before_ack"
    } else if err.contains("Compiler not supported") {
        "unsupported"
    } else if err.contains("Unexpected response from server") {
        "unexpected_first"
    } else if err.contains("unexpected response from server") {
        "unexpected_second"
    } else if err.contains("shut down unexpectedly") {
        "eof_after_ack"
    } else if err.contains("error reading compile response from server compiling locally") {
        "ignored_error"
    } else if err.contains("error reading compile response from server") {
        "after_ack"
    } else {
        "none"
    }
}

// ------------------------------------------------------------------ leg client (fake server, real client)

fn run_client_case(case: &Sx) -> Sx {
    let ignore = case.arg(0).as_bool();
    let bytes = case.arg(1).bytes().to_vec();
    let reset = case.arg(2).is_sym("reset");
    let status = case.arg(3).u64();

    let td = scratch("vh-c11c-");
    let d = td.path();
    let cc = d.join("fakecc");
    let marker = d.join("marker");
    let obj = d.join("x.o");
    // the "compiler": records that it ran, writes its object iff it succeeds, exits with the scripted status
    write_exec(
        &cc,
        &format!(
            "#!/bin/sh\necho ran >> '{m}'\nif [ {st} -eq 0 ]; then printf '%s\\n' 'OBJECT-WRITTEN-BY-LOCAL-COMPILER' > x.o; fi\nexit {st}\n",
            m = marker.display(),
            st = status
        ),
    );
    std::fs::write(d.join("x.c"), "int x;\n").unwrap();

    let listener = TcpListener::bind("127.0.0.1:0").unwrap();
    let port = listener.local_addr().unwrap().port();
    listener.set_nonblocking(true).unwrap();

    let mut cmd = base_cmd(d);
    cmd.current_dir(d)
        .env("SCCACHE_SERVER_PORT", port.to_string())
        .arg(&cc)
        .args(["-c", "x.c", "-o", "x.o"])
        .stdout(Stdio::piped())
        .stderr(Stdio::piped());
    if ignore {
        cmd.env("SCCACHE_IGNORE_SERVER_IO_ERROR", "1");
    }
    let mut child = cmd.spawn().expect("spawn sccache client");

    // accept (the client connects at once; the loop only guards against a client that died first)
    let t0 = Instant::now();
    let mut conn = None;
    while t0.elapsed() < FAILSAFE {
        match listener.accept() {
            Ok((s, _)) => {
                conn = Some(s);
                break;
            }
            Err(ref e) if e.kind() == std::io::ErrorKind::WouldBlock => {
                if let Ok(Some(_)) = child.try_wait() {
                    break;
                }
                std::thread::sleep(Duration::from_millis(1));
            }
            Err(_) => break,
        }
    }
    let mut proto = "ok";
    if let Some(mut s) = conn {
        s.set_nonblocking(false).unwrap();
        s.set_read_timeout(Some(FAILSAFE)).unwrap();
        s.set_nodelay(true).unwrap();
        match read_frame(&mut s).and_then(|p| verif_decode_request(&p)) {
            Some(Request::Compile(_)) => {}
            _ => proto = "bad_request",
        }
        // a server that got this far has produced the outputs before it answers
        std::fs::write(&obj, SERVER_OBJ).unwrap();
        let _ = s.write_all(&bytes);
        let _ = s.flush();
        if reset {
            set_linger0(&s);
        }
        drop(s);
    } else {
        proto = "no_connection";
    }
    drop(listener);

    let code = wait_child(&mut child, FAILSAFE);
    let mut err = String::new();
    if let Some(mut e) = child.stderr.take() {
        let mut b = vec![];
        let _ = e.read_to_end(&mut b);
        err = String::from_utf8_lossy(&b).into_owned();
    }
    let ran = std::fs::read_to_string(&marker).map(|s| s.lines().count()).unwrap_or(0);
    let out = match std::fs::read(&obj) {
        Ok(b) if b == LOCAL_OBJ => "L",
        Ok(b) if b == SERVER_OBJ => "S",
        Ok(_) => "other",
        Err(_) => "missing",
    };
    if proto != "ok" {
        return Sx::L(vec![Sx::sym("harness_problem"), Sx::sym(proto)]);
    }
    let code = match code {
        Some(c) => c,
        None => return Sx::L(vec![Sx::sym("client_hung")]),
    };
    let why = classify_stderr(&err);
    let kind = if ran > 0 {
        "local"
    } else if err.contains("sccache: error") {
        "error"
    } else {
        "finished"
    };
    let why = if kind == "local" && why == "none" { "unhandled" } else { why };
    Sx::L(vec![Sx::sym(kind), Sx::sym(why), Sx::N(code as u32 as u128 & 0xffff), Sx::usize(ran), Sx::sym(out)])
}

// ------------------------------------------------------------------ a live real server owned by this process

struct Live {
    child: Child,
    port: u16,
    cap: u64,
    dir: tempfile::TempDir,
    wrapper: PathBuf,
}

fn free_port() -> u16 {
    TcpListener::bind("127.0.0.1:0").unwrap().local_addr().unwrap().port()
}

/// The compiler the real server (and the falling-back client) runs: real gcc behind a script that logs the
/// phase and the parent pid of every invocation and, when `arm-<phase>` exists, claims it (rename: exactly one
/// invocation wins), announces its pid on the fifo and then just sleeps until it is killed.
fn write_wrapper(dir: &Path) -> PathBuf {
    let bin = dir.join("bin");
    std::fs::create_dir_all(&bin).unwrap();
    let w = bin.join("gcc");
    write_exec(
        &w,
        &format!(
            "#!/bin/sh\nD='{d}'\nif [ -n \"$C11_FAIL\" ]; then echo 'wrapper: told to fail' >&2; exit 1; fi\nhas_e=0\nhas_src=0\nfor a in \"$@\"; do\n  case \"$a\" in\n    -E) has_e=1 ;;\n    *unit.c) has_src=1 ;;\n  esac\ndone\nphase=other\nif [ $has_e = 1 ] && [ $has_src = 0 ]; then phase=detect; fi\nif [ $has_e = 1 ] && [ $has_src = 1 ]; then phase=preprocess; fi\nif [ $has_e = 0 ] && [ $has_src = 1 ]; then phase=compile; fi\nT=\"${{C11_TAG:-x}}\"\necho \"$phase $PPID\" >> \"$D/phases.log\"\nif [ -n \"$C11_NOISE\" ] && [ $phase = compile ]; then\n  head -c \"$C11_NOISE\" /dev/zero | tr '\\0' 'w' >&2\n  printf '\\n%s\\n' \"$C11_LAST\" >&2\n  if [ -n \"$C11_EXIT\" ]; then exit \"$C11_EXIT\"; fi\nfi\nif mv \"$D/arm-$phase-$T\" \"$D/fired-$phase-$T\" 2>/dev/null; then\n  echo \"$$\" > \"$D/fifo\"\n  exec sleep 600\nfi\nif mv \"$D/hold-$phase-$T\" \"$D/held-$phase-$T\" 2>/dev/null; then\n  echo \"$$\" > \"$D/fifo\"\n  read _ < \"$D/release-$T\"\nfi\nexec /usr/bin/gcc \"$@\"\n",
            d = dir.display()
        ),
    );
    w
}

fn server_env(c: &mut Command, dir: &Path, port: u16, cap: u64) {
    c.env("SCCACHE_SERVER_PORT", port.to_string())
        .env("SCCACHE_DIR", dir.join("cache"))
        .env("SCCACHE_IDLE_TIMEOUT", "120")
        .env("SCCACHE_MAX_FRAME_LENGTH", cap.to_string());
}

fn start_server(cap: u64) -> Option<Live> {
    for _ in 0..20 {
        if let Ok(l) = start_server_in(scratch("vh-c11s-"), cap) {
            return Some(l);
        }
    }
    None
}

/// One attempt, in a given scratch directory (handed back when the port was lost to somebody else).
fn start_server_in(dir: tempfile::TempDir, cap: u64) -> Result<Live, tempfile::TempDir> {
    {
        let port = free_port();
        // the server itself tells us (SCCACHE_STARTUP_NOTIFY) whether it bound the port: nobody else's
        // listener on the same port can be mistaken for it
        let sock = dir.path().join("notify.sock");
        let notify = std::os::unix::net::UnixListener::bind(&sock).expect("bind notify socket");
        notify.set_nonblocking(true).unwrap();
        let mut c = base_cmd(dir.path());
        server_env(&mut c, dir.path(), port, cap);
        c.env("SCCACHE_START_SERVER", "1")
            .env("SCCACHE_NO_DAEMON", "1")
            .env("SCCACHE_STARTUP_NOTIFY", &sock)
            .current_dir(dir.path())
            .stdout(Stdio::null())
            .stderr(Stdio::null());
        unsafe {
            c.pre_exec(|| {
                libc::prctl(libc::PR_SET_PDEATHSIG, libc::SIGKILL);
                Ok(())
            });
        }
        let mut child = c.spawn().expect("spawn server");
        let t0 = Instant::now();
        let mut up = false;
        while t0.elapsed() < FAILSAFE {
            match notify.accept() {
                Ok((mut s, _)) => {
                    s.set_nonblocking(false).unwrap();
                    s.set_read_timeout(Some(FAILSAFE)).unwrap();
                    let mut h = [0u8; 4];
                    if s.read_exact(&mut h).is_ok() {
                        let mut p = vec![0u8; u32::from_be_bytes(h) as usize];
                        // ServerStartup::Ok { addr } is variant 0
                        up = s.read_exact(&mut p).is_ok() && p.len() >= 4 && p[..4] == [0, 0, 0, 0];
                    }
                    break;
                }
                Err(_) => {
                    if let Ok(Some(_)) = child.try_wait() {
                        break;
                    }
                    std::thread::sleep(Duration::from_millis(2));
                }
            }
        }
        if up {
            let wrapper = write_wrapper(dir.path());
            return Ok(Live { child, port, cap, dir, wrapper });
        }
        let _ = child.kill();
        let _ = child.wait(); // lost the port to somebody else (or failed to start): try another one
        let _ = std::fs::remove_file(&sock);
        Err(dir)
    }
}

impl Live {
    fn stop(mut self) {
        let _ = self.child.kill();
        let _ = self.child.wait();
        scan_and_kill_everything(self.dir.path());
    }
    fn exited(&mut self) -> bool {
        matches!(self.child.try_wait(), Ok(Some(_)))
    }
    /// `--show-stats` on the wire: GetStats must be answered with Stats.
    fn answers_stats(&self) -> bool {
        let mut s = match TcpStream::connect(("127.0.0.1", self.port)) {
            Ok(s) => s,
            Err(_) => return false,
        };
        s.set_read_timeout(Some(FAILSAFE)).unwrap();
        if s.write_all(&frame(&verif_encode_request(&Request::GetStats))).is_err() {
            return false;
        }
        matches!(read_frame(&mut s).and_then(|p| verif_decode_response(&p)), Some(Response::Stats(_)))
    }
    fn rich_client_cmd(&self, work: &Path) -> Command {
        let mut c = base_cmd(self.dir.path());
        server_env(&mut c, self.dir.path(), self.port, self.cap);
        c.env("SOURCE_DATE_EPOCH", RICH_EPOCH)
            .current_dir(work)
            .arg(&self.wrapper)
            .args(RICH_ARGS)
            .stdout(Stdio::piped())
            .stderr(Stdio::piped());
        c
    }
    fn client_cmd(&self, work: &Path) -> Command {
        let mut c = base_cmd(self.dir.path());
        server_env(&mut c, self.dir.path(), self.port, self.cap);
        c.current_dir(work)
            .arg(&self.wrapper)
            .args(["-c", "unit.c", "-o", "unit.o"])
            .stdout(Stdio::piped())
            .stderr(Stdio::piped());
        c
    }
}

/// A unit of C whose object we can compare with a direct gcc run in the same directory.
fn make_unit(work: &Path, k: u64) -> Vec<u8> {
    std::fs::create_dir_all(work).unwrap();
    std::fs::write(work.join("unit.c"), format!("int unit_{k}(void) {{ return {k}; }}\n")).unwrap();
    let st = Command::new("/usr/bin/gcc")
        .current_dir(work)
        .args(["-c", "unit.c", "-o", "ref.o"])
        .status()
        .expect("gcc");
    assert!(st.success());
    std::fs::read(work.join("ref.o")).unwrap()
}

const RICH_ARGS: [&str; 6] = ["-Wall", "-fdiagnostics-color=always", "-c", "unit.c", "-o", "unit.o"];
const RICH_EPOCH: &str = "1000000000";

/// A unit whose DIRECT compile depends on the caller's environment (SOURCE_DATE_EPOCH through __DATE__/__TIME__: a
/// variable the client does not forward to the server) and on the caller's stdio (forced colour diagnostics): the
/// object and the exact stderr bytes of the direct run are the reference for a client that has to fall back.
fn make_rich_unit(work: &Path, k: u64) -> Vec<u8> {
    std::fs::create_dir_all(work).unwrap();
    std::fs::write(
        work.join("unit.c"),
        format!("const char *built_{k} = __DATE__ \" \" __TIME__;\nint unit_{k}(void) {{ int unused_{k}; return {k}; }}\n"),
    )
    .unwrap();
    let mut args: Vec<&str> = RICH_ARGS.to_vec();
    *args.last_mut().unwrap() = "ref.o";
    let out = Command::new("/usr/bin/gcc")
        .current_dir(work)
        .env_clear() // the very environment the client under test is given (locale, TERM ... shape diagnostics)
        .env("PATH", "/usr/local/bin:/usr/bin:/bin")
        .env("TERM", "dumb")
        .env("SOURCE_DATE_EPOCH", RICH_EPOCH)
        .args(&args)
        .output()
        .expect("gcc");
    assert!(out.status.success());
    std::fs::write(work.join("ref.stderr"), &out.stderr).unwrap();
    std::fs::read(work.join("ref.o")).unwrap()
}

fn response_kind(p: &[u8]) -> (&'static str, bool) {
    match verif_decode_response(p) {
        Some(Response::Compile(CompileResponse::CompileStarted)) => ("compile", true),
        Some(Response::Compile(_)) => ("compile", false),
        Some(Response::ZeroStats) => ("zero_stats", false),
        Some(Response::Stats(_)) => ("stats", false),
        Some(Response::DistStatus(_)) => ("dist_status", false),
        Some(Response::ShuttingDown(_)) => ("shutting_down", false),
        Some(Response::CompileFinished(_)) => ("finished", false),
        None => ("undecodable", false),
    }
}

struct GConn {
    id: u64,
    sock: TcpStream,
    pending: Vec<u8>,
    resps: Vec<Sx>,
    closed: bool,
}

impl GConn {
    /// The server owes us an answer (or a close) for the frame we just completed: read it.
    fn await_answer(&mut self) {
        match read_frame(&mut self.sock) {
            None => self.closed = true,
            Some(p) => {
                let (k, more) = response_kind(&p);
                self.resps.push(Sx::sym(k));
                if more {
                    match read_frame(&mut self.sock) {
                        Some(p2) if response_kind(&p2).0 == "finished" => {}
                        Some(_) => self.resps.push(Sx::sym("bad_second_frame")),
                        None => self.closed = true,
                    }
                }
            }
        }
        self.pending.clear();
    }

    /// Send `chunk`, pausing at every frame boundary for the server's reaction, so that what we observe
    /// does not depend on how the kernel batches our writes.
    fn send(&mut self, chunk: &[u8], cap: u64) {
        let mut i = 0;
        while i < chunk.len() && !self.closed {
            let need = if self.pending.len() < 4 {
                4 - self.pending.len()
            } else {
                let n = u32::from_be_bytes([self.pending[0], self.pending[1], self.pending[2], self.pending[3]]) as usize;
                4 + n - self.pending.len()
            };
            let take = need.min(chunk.len() - i);
            if self.sock.write_all(&chunk[i..i + take]).is_err() {
                self.closed = true;
                break;
            }
            self.pending.extend_from_slice(&chunk[i..i + take]);
            i += take;
            if self.pending.len() >= 4 {
                let n = u32::from_be_bytes([self.pending[0], self.pending[1], self.pending[2], self.pending[3]]) as u64;
                if n > cap || self.pending.len() as u64 == 4 + n {
                    self.await_answer();
                }
            }
        }
    }
}

fn run_server_case(live: &mut Option<Live>, counter: &mut u64, case: &Sx) -> Sx {
    let cap = case.arg(0).u64();
    if live.as_ref().map(|l| l.cap != cap).unwrap_or(false) || live.as_mut().map(|l| l.exited()).unwrap_or(false) {
        if let Some(l) = live.take() {
            l.stop();
        }
    }
    if live.is_none() {
        *live = start_server(cap);
    }
    let srv = match live.as_mut() {
        Some(s) => s,
        None => return Sx::L(vec![Sx::sym("harness_problem"), Sx::sym("server_did_not_start")]),
    };
    *counter += 1;
    let work = srv.dir.path().join(format!("w{}", *counter));
    let reference = make_unit(&work, *counter % 3);
    let evs = case.arg(1).list();
    let mut conns: Vec<GConn> = vec![];
    let mut bystander: Option<Child> = None;
    let mut by_result = (Sx::sym("not_run"), Sx::sym("not_run"));
    let mid = evs.len() / 2;
    let finish_bystander = |b: &mut Option<Child>, res: &mut (Sx, Sx)| {
        if let Some(mut ch) = b.take() {
            let code = wait_child(&mut ch, FAILSAFE);
            let ok = std::fs::read(work.join("unit.o")).map(|o| o == reference).unwrap_or(false);
            *res = (code.map(|c| Sx::N(c as u32 as u128)).unwrap_or(Sx::sym("hung")), Sx::bool(ok));
        }
    };
    for (i, ev) in evs.iter().enumerate() {
        if i == mid {
            bystander = Some(srv.client_cmd(&work).spawn().expect("spawn bystander"));
        }
        if i + 1 == evs.len() {
            finish_bystander(&mut bystander, &mut by_result);
        }
        let id = ev.arg(0).u64();
        if !conns.iter().any(|c| c.id == id) {
            match TcpStream::connect(("127.0.0.1", srv.port)) {
                Ok(s) => {
                    s.set_read_timeout(Some(FAILSAFE)).unwrap();
                    s.set_nodelay(true).unwrap();
                    conns.push(GConn { id, sock: s, pending: vec![], resps: vec![], closed: false });
                }
                Err(_) => return Sx::L(vec![Sx::sym("server_refused_connection")]),
            }
        }
        let c = conns.iter_mut().find(|c| c.id == id).unwrap();
        c.send(ev.arg(1).bytes(), cap);
    }
    if bystander.is_none() && by_result.0.is_sym("not_run") {
        bystander = Some(srv.client_cmd(&work).spawn().expect("spawn bystander"));
    }
    finish_bystander(&mut bystander, &mut by_result);
    // hang up; a connection the server still had open must not produce anything more
    let mut shutdown_seen = false;
    conns.sort_by_key(|c| c.id);
    let mut rows = vec![];
    for c in conns.iter_mut() {
        if !c.closed {
            let _ = c.sock.shutdown(std::net::Shutdown::Write);
            while let Some(p) = read_frame(&mut c.sock) {
                c.resps.push(Sx::sym(response_kind(&p).0));
            }
        }
        if c.resps.iter().any(|r| r.is_sym("shutting_down")) {
            shutdown_seen = true;
        }
        rows.push(Sx::L(vec![
            Sx::n(c.id),
            Sx::L(c.resps.clone()),
            Sx::sym(if c.closed { "closed" } else { "open" }),
        ]));
    }
    drop(conns);
    let alive = if shutdown_seen {
        // a well-formed Shutdown: the server must now go away on its own
        let gone = wait_child(&mut srv.child, Duration::from_secs(30)).is_some();
        if gone {
            *live = None;
        }
        !gone
    } else {
        !srv.exited() && srv.answers_stats()
    };
    Sx::L(vec![Sx::L(rows), Sx::bool(alive), Sx::L(vec![by_result.0, by_result.1])])
}

// ------------------------------------------------------------------ leg kill

fn scan_and_kill_servers(dir: &Path) -> usize {
    scan_and_kill(dir, true)
}

/// Last line of defence against leaks when a case goes wrong: every live process that carries this case's
/// unique cache directory in its environment (servers, wrappers, sleeps) — by pid, never by name.
fn scan_and_kill_everything(dir: &Path) -> usize {
    scan_and_kill(dir, false)
}

fn scan_and_kill(dir: &Path, servers_only: bool) -> usize {
    // daemonised servers started by a client are not our children: find them by the unique cache dir in
    // their environment (never by name), skip zombies, kill by pid
    let needle = format!("SCCACHE_DIR={}", dir.join("cache").display());
    let mut n = 0;
    if let Ok(rd) = std::fs::read_dir("/proc") {
        for e in rd.flatten() {
            let name = e.file_name();
            let pid: i32 = match name.to_string_lossy().parse() {
                Ok(p) => p,
                Err(_) => continue,
            };
            let env = match std::fs::read(e.path().join("environ")) {
                Ok(b) => b,
                Err(_) => continue,
            };
            let has = |k: &str| env.split(|&b| b == 0).any(|kv| kv == k.as_bytes());
            if !(has(&needle) && (!servers_only || has("SCCACHE_START_SERVER=1"))) {
                continue;
            }
            let stat = std::fs::read_to_string(e.path().join("stat")).unwrap_or_default();
            let state = stat.rsplit(')').next().unwrap_or("").trim().chars().next().unwrap_or('?');
            if state == 'Z' {
                continue;
            }
            unsafe {
                libc::kill(pid, libc::SIGKILL);
            }
            n += 1;
        }
    }
    n
}

struct Observed {
    kind: &'static str,
    why: &'static str,
    code: i32,
    ran: usize,
    obj_ok: bool,
}

fn observe_client(mut client: Child, log_path: &Path, work: &Path, reference: &[u8]) -> Option<Observed> {
    let pid = client.id();
    let code = wait_child(&mut client, FAILSAFE)?;
    let mut err = String::new();
    let mut raw_err = vec![];
    if let Some(mut e) = client.stderr.take() {
        let _ = e.read_to_end(&mut raw_err);
        err = String::from_utf8_lossy(&raw_err).into_owned();
    }
    let log = std::fs::read_to_string(log_path).unwrap_or_default();
    let ran = log
        .lines()
        .filter(|l| l.split(' ').nth(1).and_then(|p| p.parse::<u32>().ok()) == Some(pid))
        .count();
    let mut obj_ok = std::fs::read(work.join("unit.o")).map(|o| o == reference).unwrap_or(false);
    // a client that ran the command itself must have produced the direct run's diagnostics, byte for byte
    if let (true, Ok(want)) = (ran > 0, std::fs::read(work.join("ref.stderr"))) {
        if !want.is_empty() && !raw_err.windows(want.len()).any(|w| w == &want[..]) {
            obj_ok = false;
        }
    }
    let why = classify_stderr(&err);
    let kind = if ran > 0 {
        "local"
    } else if err.contains("sccache: error") {
        "error"
    } else {
        "finished"
    };
    let why = if kind == "local" && why == "none" { "unhandled" } else { why };
    Some(Observed { kind, why, code, ran, obj_ok })
}

fn observed_fields(o: &Observed) -> Vec<Sx> {
    vec![
        Sx::sym(o.kind),
        Sx::sym(o.why),
        Sx::N(o.code as u32 as u128 & 0xffff),
        Sx::usize(o.ran.min(1)),
        Sx::sym(if o.ran > 0 { "L" } else { "S" }),
        Sx::sym(if o.code == 0 && !o.obj_ok { "bad_object" } else { "ok" }),
    ]
}

fn run_kill_case(case: &Sx) -> Sx {
    let phase = case.arg(0).str();
    let ignore = case.arg(1).as_bool();
    let mut srv = match start_server(8 * 1024 * 1024) {
        Some(s) => s,
        None => return Sx::L(vec![Sx::sym("harness_problem"), Sx::sym("server_did_not_start")]),
    };
    let d = srv.dir.path().to_path_buf();
    let work = d.join("w");
    let work2 = d.join("w2");
    let armed_phase = phase != "none";
    let reference = if armed_phase { make_rich_unit(&work, 7) } else { make_unit(&work, 7) };
    let reference2 = make_rich_unit(&work2, 8);
    let fifo = d.join("fifo");
    let cfifo = std::ffi::CString::new(fifo.as_os_str().as_bytes()).unwrap();
    unsafe {
        libc::mkfifo(cfifo.as_ptr(), 0o600);
    }
    let armed = phase != "none";
    if armed {
        // the client under test (tag a) loses the server in `phase`; a concurrent client (tag b) is always
        // caught in its compiler run, i.e. after its acknowledgement
        std::fs::write(d.join(format!("arm-{phase}-a")), "").unwrap();
        std::fs::write(d.join("arm-compile-b"), "").unwrap();
    }
    let mut cmd = if armed_phase { srv.rich_client_cmd(&work) } else { srv.client_cmd(&work) };
    cmd.env("C11_TAG", "a");
    if ignore {
        cmd.env("SCCACHE_IGNORE_SERVER_IO_ERROR", "1");
    }
    let mut client = cmd.spawn().expect("spawn client");
    let mut client2: Option<Child> = None;
    if armed {
        use std::os::unix::fs::OpenOptionsExt;
        let mut f = std::fs::OpenOptions::new()
            .read(true)
            .custom_flags(libc::O_NONBLOCK)
            .open(&fifo)
            .expect("open fifo");
        let mut txt = String::new();
        // Event-driven: returns once `want` wrappers have announced themselves; ends early only when the
        // client that should get there has already exited (its phase was never reached).
        let mut wait_lines = |want: usize, txt: &mut String, who: &mut Child| {
            let t0 = Instant::now();
            let mut buf = [0u8; 64];
            while t0.elapsed() < FAILSAFE {
                if txt.lines().count() >= want && txt.ends_with('\n') {
                    return;
                }
                match f.read(&mut buf) {
                    Ok(n) if n > 0 => txt.push_str(&String::from_utf8_lossy(&buf[..n])),
                    _ => {
                        if matches!(who.try_wait(), Ok(Some(_))) {
                            return;
                        }
                        std::thread::sleep(Duration::from_millis(2));
                    }
                }
            }
        };
        // first the client under test reaches its phase and stays there ...
        wait_lines(1, &mut txt, &mut client);
        // ... only then the concurrent client starts; it is caught in its own compiler run
        let mut c2 = srv.rich_client_cmd(&work2);
        c2.env("C11_TAG", "b");
        let mut ch2 = c2.spawn().expect("spawn concurrent client");
        wait_lines(2, &mut txt, &mut ch2);
        client2 = Some(ch2);
        // nothing may be claimed any more (a falling-back client runs the same wrapper)
        for a in [format!("arm-{phase}-a"), "arm-compile-b".to_string()] {
            let _ = std::fs::remove_file(d.join(a));
        }
        let _ = srv.child.kill(); // SIGKILL: the kernel closes the server's sockets
        let _ = srv.child.wait();
        for l in txt.lines() {
            if let Ok(pid) = l.trim().parse::<i32>() {
                unsafe {
                    libc::kill(pid, libc::SIGKILL);
                }
            }
        }
    }
    let log_path = d.join("phases.log");
    let o1 = observe_client(client, &log_path, &work, &reference);
    let o2 = client2.map(|c| observe_client(c, &log_path, &work2, &reference2));
    let o1 = match o1 {
        Some(o) => o,
        None => {
            srv.stop();
            return Sx::L(vec![Sx::sym("client_hung")]);
        }
    };
    // "if no server is running the client starts one and proceeds"
    let mut restart = "not_applicable";
    if armed {
        // (an ordinary unit: what a compile THROUGH the server does with SOURCE_DATE_EPOCH is not C11's business)
        let work_r = d.join("wr");
        let reference_r = make_unit(&work_r, 9);
        let mut c2 = srv.client_cmd(&work_r);
        c2.env("SCCACHE_IDLE_TIMEOUT", "20");
        let mut ch = c2.spawn().expect("spawn second client");
        let code2 = wait_child(&mut ch, FAILSAFE);
        let ok2 = std::fs::read(work_r.join("unit.o")).map(|o| o == reference_r).unwrap_or(false);
        restart = if code2 == Some(0) && ok2 { "restart_ok" } else { "restart_failed" };
        let mut stop = base_cmd(&d);
        server_env(&mut stop, &d, srv.port, srv.cap);
        let _ = stop.arg("--stop-server").stdout(Stdio::null()).stderr(Stdio::null()).status();
        scan_and_kill_servers(&d);
    }
    scan_and_kill_everything(&d);
    srv.stop();
    let mut fields = observed_fields(&o1);
    fields.push(Sx::sym(restart));
    fields.push(match o2 {
        None => Sx::L(vec![]),
        Some(None) => Sx::L(vec![Sx::sym("client_hung")]),
        Some(Some(o)) => Sx::L(observed_fields(&o)),
    });
    Sx::L(fields)
}

// ------------------------------------------------------------------ leg coldstart

fn mkfifo(path: &Path) {
    let c = std::ffi::CString::new(path.as_os_str().as_bytes()).unwrap();
    unsafe {
        libc::mkfifo(c.as_ptr(), 0o600);
    }
}

fn open_rdwr_nonblock(path: &Path) -> std::fs::File {
    use std::os::unix::fs::OpenOptionsExt;
    std::fs::OpenOptions::new()
        .read(true)
        .write(true)
        .custom_flags(libc::O_NONBLOCK)
        .open(path)
        .expect("open fifo")
}

fn start_class(err: &str) -> &'static str {
    // what connect_or_start_server went through, from the client's own trace output
    if err.contains("Listening on address") {
        "wrong_addr"
    } else if err.contains("sccache: error") && err.contains(" at path ") {
        "spawn_err" // run_server_process could not create the start-up rendezvous directory
    } else if err.contains("AddrInUse") || err.contains("Address in use") {
        "addr_in_use"
    } else if err.contains("Timed out waiting for server startup") {
        "timed_out"
    } else if err.contains("Server startup failed") {
        "start_err"
    } else if err.contains("Connection to server timed out") {
        "no_listener"
    } else if err.contains("run_server_process") {
        "started"
    } else {
        "existing"
    }
}

/// The server address of a cold-start case: the TCP port, or a Unix-domain socket (SCCACHE_SERVER_UDS) whose
/// path is spelled in a canonical or a NON-canonical way (through a symlinked directory, with `..`, with `.` and a
/// doubled separator), or an abstract socket.
fn coldstart_uds(kind: &str, d: &Path) -> Option<std::ffi::OsString> {
    let mk = |p: &str| std::fs::create_dir_all(d.join(p)).unwrap();
    match kind {
        "uds_plain" => {
            mk("plain");
            Some(d.join("plain/s").into_os_string())
        }
        "uds_symlink" => {
            mk("real");
            let _ = std::os::unix::fs::symlink(d.join("real"), d.join("link"));
            Some(d.join("link/s").into_os_string())
        }
        "uds_dotdot" => {
            mk("a");
            mk("b");
            Some(format!("{}/a/../b/s", d.display()).into())
        }
        "uds_dot" => {
            mk("c");
            Some(format!("{}/c/.//s", d.display()).into())
        }
        "uds_abstract" => Some(
            format!("\\x00{}", d.file_name().map(|n| n.to_string_lossy().into_owned()).unwrap_or_default()).into(),
        ),
        _ => None,
    }
}

fn run_coldstart_case(case: &Sx) -> Sx {
    let k = case.arg(0).u64() as usize;
    let after_kill = case.arg(1).as_bool();
    let kind = case.arg(2).str();
    let dir = scratch("vh-c11s-");
    let d = dir.path().to_path_buf();
    let port = free_port();
    let uds = coldstart_uds(&kind, &d);
    let cenv = coldstart_env(&case.arg(3).str(), &d);
    if after_kill {
        // a server that was there and is gone (SIGKILL): same address, same cache directory; started the way
        // real use starts it, found through /proc, killed by pid
        let mut start = base_cmd(&d);
        server_env(&mut start, &d, port, DEFAULT_CAP_BYTES);
        if let Some(u) = &uds {
            start.env("SCCACHE_SERVER_UDS", u);
        }
        let _ = start.current_dir(&d).arg("--start-server").stdout(Stdio::null()).stderr(Stdio::null()).status();
        let pids = server_pids(&d);
        if pids.is_empty() {
            scan_and_kill_everything(&d);
            return Sx::L(vec![Sx::sym("harness_problem"), Sx::sym("first_server_did_not_start")]);
        }
        for p in &pids {
            unsafe {
                libc::kill(*p, libc::SIGKILL);
            }
        }
        let t0 = Instant::now();
        while !server_pids(&d).is_empty() && t0.elapsed() < FAILSAFE {
            std::thread::sleep(Duration::from_millis(2));
        }
    }
    coldstart_clients(dir, port, k, uds, cenv)
}

/// The part of the client's environment that a cold start could depend on: (variable, Some(value) | None = unset).
/// The first server of an after-kill case is started from a GOOD environment; only the clients under test carry it.
fn coldstart_env(kind: &str, d: &Path) -> Vec<(&'static str, Option<std::ffi::OsString>)> {
    let sub = |n: &str| {
        let p = d.join(n);
        std::fs::create_dir_all(&p).unwrap();
        p.into_os_string()
    };
    let file = |n: &str| {
        let p = d.join(n);
        std::fs::write(&p, "not a directory").unwrap();
        p.into_os_string()
    };
    match kind {
        "xdg_ok" => vec![("XDG_RUNTIME_DIR", Some(sub("xdg")))],
        "xdg_stale" => vec![("XDG_RUNTIME_DIR", Some(d.join("run/user/4242").into_os_string()))],
        "xdg_notdir" => vec![("XDG_RUNTIME_DIR", Some(file("xdgfile")))],
        "xdg_empty" => vec![("XDG_RUNTIME_DIR", Some("".into()))],
        "home_unset" => vec![("HOME", None)],
        "home_stale" => vec![("HOME", Some(d.join("no/such/home").into_os_string()))],
        "home_notdir" => vec![("HOME", Some(file("homefile")))],
        "tmpdir_ok" => vec![("TMPDIR", Some(sub("tmp")))],
        "tmpdir_stale" => vec![("TMPDIR", Some(d.join("no/such/tmp").into_os_string()))],
        "all_stale" => vec![
            ("XDG_RUNTIME_DIR", Some(d.join("run/user/4242").into_os_string())),
            ("HOME", Some(d.join("no/such/home").into_os_string())),
        ],
        _ => vec![],
    }
}

const DEFAULT_CAP_BYTES: u64 = 8 * 1024 * 1024;

fn coldstart_clients(
    dir: tempfile::TempDir,
    port: u16,
    k: usize,
    uds: Option<std::ffi::OsString>,
    cenv: Vec<(&'static str, Option<std::ffi::OsString>)>,
) -> Sx {
    let d = dir.path().to_path_buf();
    let ready = d.join("ready");
    let go = d.join("go");
    mkfifo(&ready);
    mkfifo(&go);
    let mut ready_f = open_rdwr_nonblock(&ready);
    let mut go_f = open_rdwr_nonblock(&go);
    let mut refs = vec![];
    let mut children = vec![];
    for i in 0..k {
        let work = d.join(format!("w{i}"));
        refs.push(make_unit(&work, 100 + i as u64));
        // sh announces itself, waits for the common release, then BECOMES the client (same pid)
        let mut c = Command::new("/bin/sh");
        c.env_clear()
            .env("PATH", "/usr/local/bin:/usr/bin:/bin")
            .env("HOME", &d)
            .env("SCCACHE_CONF", d.join("no-such-config"))
            .env("SCCACHE_CACHED_CONF", d.join("cached-config"))
            .env("TERM", "dumb")
            .env("SCCACHE_LOG", "sccache::commands=trace")
            .env("SCCACHE_IDLE_TIMEOUT", "60");
        server_env(&mut c, &d, port, DEFAULT_CAP_BYTES);
        if let Some(u) = &uds {
            c.env("SCCACHE_SERVER_UDS", u);
        }
        for (k, v) in &cenv {
            match v {
                Some(v) => c.env(k, v),
                None => c.env_remove(k),
            };
        }
        c.env("SCCACHE_IDLE_TIMEOUT", "60")
            .current_dir(&work)
            .arg("-c")
            .arg("echo r > \"$1\"; read _ < \"$2\"; shift 2; exec \"$@\"")
            .arg("sh")
            .arg(&ready)
            .arg(&go)
            .arg(sccache_bin())
            .args(["/usr/bin/gcc", "-c", "unit.c", "-o", "unit.o"])
            .stdin(Stdio::null())
            .stdout(Stdio::null())
            .stderr(Stdio::from(std::fs::File::create(work.join("stderr.txt")).unwrap()));
        children.push((work, c.spawn().expect("spawn client shell")));
    }
    // barrier: all k are parked on `read`
    let t0 = Instant::now();
    let mut got = 0usize;
    let mut buf = [0u8; 256];
    while got < k && t0.elapsed() < FAILSAFE {
        match ready_f.read(&mut buf) {
            Ok(n) if n > 0 => got += buf[..n].iter().filter(|&&b| b == b'\n').count(),
            _ => std::thread::sleep(Duration::from_millis(1)),
        }
    }
    let _ = go_f.write_all("g\n".repeat(k).as_bytes());
    let mut rows = vec![];
    for (i, (work, mut ch)) in children.into_iter().enumerate() {
        let code = wait_child(&mut ch, Duration::from_secs(120));
        let err = std::fs::read_to_string(work.join("stderr.txt")).unwrap_or_default();
        let ok = std::fs::read(work.join("unit.o")).map(|o| o == refs[i]).unwrap_or(false);
        let kind = if err.contains("compiling locally instead") {
            "local"
        } else if err.contains("sccache: error") {
            "error"
        } else {
            "finished"
        };
        rows.push(Sx::L(vec![
            Sx::sym(start_class(&err)),
            Sx::sym(kind),
            code.map(|c| Sx::N(c as u32 as u128 & 0xffff)).unwrap_or(Sx::sym("hung")),
            Sx::bool(ok),
        ]));
    }
    let mut stop = base_cmd(&d);
    server_env(&mut stop, &d, port, DEFAULT_CAP_BYTES);
    if let Some(u) = &uds {
        stop.env("SCCACHE_SERVER_UDS", u);
    }
    let _ = stop.arg("--stop-server").stdout(Stdio::null()).stderr(Stdio::null()).status();
    scan_and_kill_everything(&d);
    drop(ready_f);
    drop(go_f);
    Sx::L(rows)
}

// ------------------------------------------------------------------ leg poison

fn answer_of_client(o: &Observed) -> String {
    if o.kind == "finished" && o.code == 0 && o.obj_ok {
        "served".into()
    } else if o.kind == "error" && o.why == "unsupported" && o.code == 2 {
        "unsupported".into()
    } else if o.kind == "finished" && o.code != 0 {
        "failed".into()
    } else {
        format!("other_{}_{}_{}_{}", o.kind, o.why, o.code, o.obj_ok)
    }
}

/// One hand-built Request::Compile on its own connection; the answer in the same vocabulary.
fn frame_compile(port: u16, exe: &Path, cwd: &Path, extra_env: &[(&str, &str)], reference: Option<&[u8]>) -> String {
    let mut env: Vec<(std::ffi::OsString, std::ffi::OsString)> =
        vec![("PATH".into(), "/usr/local/bin:/usr/bin:/bin".into())];
    for (k, v) in extra_env {
        env.push((k.into(), v.into()));
    }
    let req = Request::Compile(Compile {
        exe: exe.as_os_str().to_owned(),
        cwd: cwd.as_os_str().to_owned(),
        args: vec!["-c".into(), "unit.c".into(), "-o".into(), "unit.o".into()],
        env_vars: env,
    });
    let mut s = match TcpStream::connect(("127.0.0.1", port)) {
        Ok(s) => s,
        Err(_) => return "other_no_connection".into(),
    };
    s.set_read_timeout(Some(FAILSAFE)).unwrap();
    if s.write_all(&frame(&verif_encode_request(&req))).is_err() {
        return "other_write_failed".into();
    }
    match read_frame(&mut s).and_then(|p| verif_decode_response(&p)) {
        Some(Response::Compile(CompileResponse::UnsupportedCompiler(_))) => "unsupported".into(),
        Some(Response::Compile(CompileResponse::UnhandledCompile)) => "other_unhandled".into(),
        Some(Response::Compile(CompileResponse::CompileStarted)) => {
            match read_frame(&mut s).and_then(|p| verif_decode_response(&p)) {
                Some(Response::CompileFinished(f)) => {
                    let ok = reference
                        .map(|r| std::fs::read(cwd.join("unit.o")).map(|o| o == r).unwrap_or(false))
                        .unwrap_or(false);
                    if f.retcode == Some(0) && ok {
                        "served".into()
                    } else if f.retcode != Some(0) {
                        "failed".into()
                    } else {
                        "other_retcode0_bad_object".into()
                    }
                }
                _ => "other_no_compile_finished".into(),
            }
        }
        Some(_) => "other_response".into(),
        None => "other_closed".into(),
    }
}

fn run_poison_case(case: &Sx) -> Sx {
    let srv = match start_server(DEFAULT_CAP_BYTES) {
        Some(s) => s,
        None => return Sx::L(vec![Sx::sym("harness_problem"), Sx::sym("server_did_not_start")]),
    };
    let d = srv.dir.path().to_path_buf();
    let cc: PathBuf = if case.arg(0).is_sym("real") { "/usr/bin/gcc".into() } else { srv.wrapper.clone() };
    let log_path = d.join("phases.log");
    let mut out = vec![];
    let mut nwork = 0u64;
    for st in case.arg(1).list() {
        let mut answers: Vec<String> = vec![];
        if st.arg(0).is_sym("bad") {
            let how = st.arg(1).str();
            let via_frame = st.arg(2).is_sym("frame");
            nwork += 1;
            let work = d.join(format!("b{nwork}"));
            let reference = make_unit(&work, 200 + nwork);
            let mut exe = cc.clone();
            let mut cwd = work.clone();
            let mut extra: Vec<(&str, &str)> = vec![];
            match how.as_str() {
                "gcc_exec_prefix" => extra.push(("GCC_EXEC_PREFIX", "/nonexistent/")),
                "wrapper_fail" => extra.push(("C11_FAIL", "1")),
                "bad_cwd" => cwd = d.join("no-such-directory"),
                "unsupported_exe" => exe = "/bin/true".into(),
                "nonexistent_exe" => exe = d.join("no-such-compiler"),
                "broken_exe" => write_exec(&cc, "#!/bin/sh\nexit 1\n"),
                _ => {}
            }
            if via_frame {
                answers.push(frame_compile(srv.port, &exe, &cwd, &extra, Some(&reference)));
            } else {
                let mut c = base_cmd(&d);
                server_env(&mut c, &d, srv.port, srv.cap);
                for (k, v) in &extra {
                    c.env(k, v);
                }
                c.current_dir(&work)
                    .arg(&exe)
                    .args(["-c", "unit.c", "-o", "unit.o"])
                    .stdout(Stdio::piped())
                    .stderr(Stdio::piped());
                match c.spawn() {
                    Ok(ch) => match observe_client(ch, &log_path, &work, &reference) {
                        Some(o) => answers.push(answer_of_client(&o)),
                        None => answers.push("other_hung".into()),
                    },
                    Err(_) => answers.push("other_spawn_failed".into()),
                }
            }
            if how == "broken_exe" {
                write_wrapper(&d); // the compiler is repaired (new mtime)
            }
        } else {
            let via_frame = st.arg(1).is_sym("frame");
            let n = st.arg(2).u64();
            let mut works = vec![];
            for _ in 0..n {
                nwork += 1;
                let work = d.join(format!("g{nwork}"));
                let reference = make_unit(&work, 300 + nwork);
                works.push((work, reference));
            }
            if via_frame {
                for (work, reference) in &works {
                    answers.push(frame_compile(srv.port, &cc, work, &[], Some(reference)));
                }
            } else {
                // the ordinary clients run concurrently, each on its own connection
                let mut chs = vec![];
                for (work, _) in &works {
                    let mut c = base_cmd(&d);
                    server_env(&mut c, &d, srv.port, srv.cap);
                    c.current_dir(work)
                        .arg(&cc)
                        .args(["-c", "unit.c", "-o", "unit.o"])
                        .stdout(Stdio::piped())
                        .stderr(Stdio::piped());
                    chs.push(c.spawn().expect("spawn ordinary client"));
                }
                for (ch, (work, reference)) in chs.into_iter().zip(works.iter()) {
                    match observe_client(ch, &log_path, work, reference) {
                        Some(o) => answers.push(answer_of_client(&o)),
                        None => answers.push("other_hung".into()),
                    }
                }
            }
        }
        out.push(Sx::L(answers.iter().map(|a| Sx::sym(a)).collect()));
    }
    srv.stop();
    Sx::L(out)
}

// ------------------------------------------------------------------ leg vanish

fn server_pids(dir: &Path) -> Vec<i32> {
    let needle = format!("SCCACHE_DIR={}", dir.join("cache").display());
    let mut v = vec![];
    if let Ok(rd) = std::fs::read_dir("/proc") {
        for e in rd.flatten() {
            let pid: i32 = match e.file_name().to_string_lossy().parse() {
                Ok(p) => p,
                Err(_) => continue,
            };
            let env = match std::fs::read(e.path().join("environ")) {
                Ok(b) => b,
                Err(_) => continue,
            };
            let has = |k: &str| env.split(|&b| b == 0).any(|kv| kv == k.as_bytes());
            if !(has(&needle) && has("SCCACHE_START_SERVER=1")) {
                continue;
            }
            let comm = std::fs::read_to_string(e.path().join("comm")).unwrap_or_default();
            if comm.trim() != "sccache" {
                continue; // compilers started by the server inherit its environment
            }
            let stat = std::fs::read_to_string(e.path().join("stat")).unwrap_or_default();
            let state = stat.rsplit(')').next().unwrap_or("").trim().chars().next().unwrap_or('?');
            if state != 'Z' {
                v.push(pid);
            }
        }
    }
    v.sort();
    v
}

fn get_compile_requests(port: u16) -> Option<u64> {
    let mut s = TcpStream::connect(("127.0.0.1", port)).ok()?;
    s.set_read_timeout(Some(FAILSAFE)).unwrap();
    s.write_all(&frame(&verif_encode_request(&Request::GetStats))).ok()?;
    match read_frame(&mut s).and_then(|p| verif_decode_response(&p)) {
        Some(Response::Stats(info)) => Some(info.stats.compile_requests),
        _ => None,
    }
}

fn outq(s: &TcpStream) -> i32 {
    let mut n: libc::c_int = 0;
    unsafe {
        libc::ioctl(s.as_raw_fd(), libc::TIOCOUTQ, &mut n);
    }
    n
}

fn run_vanish_case(case: &Sx) -> Sx {
    let behaviour = case.arg(0).str(); // close | reset | half_close
    let after_started = case.arg(1).is_sym("after_started");
    let dir = scratch("vh-c11s-");
    let d = dir.path().to_path_buf();
    let port = free_port();
    let wrapper = write_wrapper(&d);
    mkfifo(&d.join("fifo"));
    mkfifo(&d.join("release-b"));
    mkfifo(&d.join("release-v"));
    let mut fifo = open_rdwr_nonblock(&d.join("fifo"));
    let mut rel_b = open_rdwr_nonblock(&d.join("release-b"));
    let mut rel_v = open_rdwr_nonblock(&d.join("release-v"));
    let cleanup = |d: &Path| {
        let mut stop = base_cmd(d);
        server_env(&mut stop, d, port, DEFAULT_CAP_BYTES);
        let _ = stop.arg("--stop-server").stdout(Stdio::null()).stderr(Stdio::null()).status();
        scan_and_kill_everything(d);
    };
    // the way real use starts it: `sccache --start-server` forks a daemon (daemonize() runs)
    let mut start = base_cmd(&d);
    server_env(&mut start, &d, port, DEFAULT_CAP_BYTES);
    let st = start.current_dir(&d).arg("--start-server").stdout(Stdio::null()).stderr(Stdio::null()).status();
    let pids = server_pids(&d);
    if !matches!(st, Ok(ref x) if x.success()) || pids.len() != 1 {
        cleanup(&d);
        return Sx::L(vec![Sx::sym("harness_problem"), Sx::sym("daemon_did_not_start")]);
    }
    let pid = pids[0];
    let alive = |pid: i32| server_pids(&d).contains(&pid);
    let log_path = d.join("phases.log");
    let client = |tag: &str, work: &Path| {
        let mut c = base_cmd(&d);
        server_env(&mut c, &d, port, DEFAULT_CAP_BYTES);
        c.env("C11_TAG", tag)
            .current_dir(work)
            .arg(&wrapper)
            .args(["-c", "unit.c", "-o", "unit.o"])
            .stdout(Stdio::piped())
            .stderr(Stdio::piped());
        c
    };
    let mut announced = 0usize;
    let mut wait_announce = |want: usize, fifo: &mut std::fs::File| {
        let t0 = Instant::now();
        let mut buf = [0u8; 64];
        while announced < want && t0.elapsed() < Duration::from_secs(30) {
            match fifo.read(&mut buf) {
                Ok(n) if n > 0 => announced += buf[..n].iter().filter(|&&b| b == b'\n').count(),
                _ => {
                    if !alive(pid) {
                        return;
                    }
                    std::thread::sleep(Duration::from_millis(2));
                }
            }
        }
    };
    // warm-up: the compiler is detected, so the acknowledgement of later requests is written at once
    let w0 = d.join("w0");
    let r0 = make_unit(&w0, 400);
    let warm = client("w", &w0).spawn().ok().and_then(|c| observe_client(c, &log_path, &w0, &r0));
    if !matches!(warm, Some(ref o) if o.code == 0 && o.ran == 0) {
        cleanup(&d);
        return Sx::L(vec![Sx::sym("harness_problem"), Sx::sym("warm_up_failed")]);
    }
    // the bystander: its compile is in flight on the server (held in the compiler) during everything below
    let wb = d.join("wb");
    let rb = make_unit(&wb, 401);
    std::fs::write(d.join("hold-compile-b"), "").unwrap();
    let bystander = client("b", &wb).spawn().expect("spawn bystander");
    wait_announce(1, &mut fifo);
    // the peer: a COMPLETE well-formed Compile request, then it goes away
    let wv = d.join("wv");
    let _rv = make_unit(&wv, 402);
    std::fs::write(d.join("hold-compile-v"), "").unwrap();
    let req = Request::Compile(Compile {
        exe: wrapper.as_os_str().to_owned(),
        cwd: wv.as_os_str().to_owned(),
        args: vec!["-c".into(), "unit.c".into(), "-o".into(), "unit.o".into()],
        env_vars: vec![
            ("PATH".into(), "/usr/local/bin:/usr/bin:/bin".into()),
            ("C11_TAG".into(), "v".into()),
            // only so that a compiler left behind by a failing case is found by the final /proc sweep
            ("SCCACHE_DIR".into(), d.join("cache").into_os_string()),
        ],
    });
    let bytes = frame(&verif_encode_request(&req));
    let mut peer_saw = "none";
    let mut kept: Option<TcpStream> = None;
    if let Ok(mut s) = TcpStream::connect(("127.0.0.1", port)) {
        s.set_read_timeout(Some(Duration::from_secs(30))).unwrap();
        let cork = |s: &TcpStream, on: libc::c_int| unsafe {
            libc::setsockopt(
                s.as_raw_fd(),
                libc::IPPROTO_TCP,
                libc::TCP_CORK,
                &on as *const _ as *const libc::c_void,
                std::mem::size_of::<libc::c_int>() as libc::socklen_t,
            );
        };
        if !after_started && behaviour == "close" {
            cork(&s, 1); // request and FIN leave together: the peer is gone before anything is written to it
        } else {
            s.set_nodelay(true).unwrap();
        }
        let _ = s.write_all(&bytes);
        if after_started {
            if let Some(p) = read_frame(&mut s) {
                if response_kind(&p) == ("compile", true) {
                    peer_saw = "started";
                }
            }
        }
        match behaviour.as_str() {
            "close" => drop(s),
            "reset" => {
                let t0 = Instant::now();
                while outq(&s) > 0 && t0.elapsed() < FAILSAFE {
                    std::thread::sleep(Duration::from_millis(1));
                }
                set_linger0(&s);
                drop(s);
            }
            _ => {
                let _ = s.shutdown(std::net::Shutdown::Write);
                kept = Some(s);
            }
        }
    }
    wait_announce(2, &mut fifo);
    // let the peer's compile finish: the server now writes CompileFinished to a peer that is gone
    let _ = rel_v.write_all(b"g\n");
    let t0 = Instant::now();
    while !wv.join("unit.o").exists() && t0.elapsed() < Duration::from_secs(30) && alive(pid) {
        std::thread::sleep(Duration::from_millis(2));
    }
    if let Some(mut s) = kept.take() {
        // a half-closing peer still reads: it must get its answers
        let mut kinds = vec![];
        while let Some(p) = read_frame(&mut s) {
            kinds.push(response_kind(&p).0);
        }
        peer_saw = match (peer_saw, kinds.as_slice()) {
            ("none", ["compile", "finished"]) | ("started", ["finished"]) => "both",
            ("none", ["compile"]) => "started",
            (x, []) => x,
            _ => "unexpected",
        };
    }
    let _ = get_compile_requests(port); // a round trip through the server's event loop
    let _ = rel_b.write_all(b"g\n");
    let ob = observe_client(bystander, &log_path, &wb, &rb);
    // a later ordinary client
    let wf = d.join("wf");
    let rf = make_unit(&wf, 403);
    let of = client("f", &wf).spawn().ok().and_then(|c| observe_client(c, &log_path, &wf, &rf));
    let same_server = alive(pid) && server_pids(&d) == vec![pid];
    let count = if same_server { get_compile_requests(port) } else { None };
    cleanup(&d);
    let served = |o: &Option<Observed>| match o {
        Some(o) if o.kind == "finished" && o.code == 0 && o.obj_ok && o.ran == 0 => Sx::sym("served"),
        Some(o) if o.ran > 0 => Sx::sym("local_fallback"),
        Some(o) => Sx::B(format!("other_{}_{}_{}", o.kind, o.why, o.code).into_bytes()),
        None => Sx::sym("hung"),
    };
    Sx::L(vec![
        Sx::bool(same_server),
        count.map(Sx::n).unwrap_or(Sx::sym("no_answer")),
        served(&ob),
        served(&of),
        Sx::sym(peer_saw),
    ])
}

// ------------------------------------------------------------------ leg bigout

/// case ( cap noise status #last ): a real server whose frame limit is `cap`; the compiler writes `noise` bytes of
/// 'w' and the line `last` to stderr and exits `status` (0: after really compiling).  Whatever the size, the client
/// must return the compiler's status with the COMPLETE output (relayed, or by compiling locally).
fn run_bigout_case(live: &mut Option<Live>, counter: &mut u64, case: &Sx) -> Sx {
    let cap = case.arg(0).u64();
    let noise = case.arg(1).u64() as usize;
    let status = case.arg(2).u64();
    let last = case.arg(3).str();
    if live.as_ref().map(|l| l.cap != cap).unwrap_or(false) || live.as_mut().map(|l| l.exited()).unwrap_or(false) {
        if let Some(l) = live.take() {
            l.stop();
        }
    }
    if live.is_none() {
        *live = start_server(cap);
    }
    let srv = match live.as_mut() {
        Some(s) => s,
        None => return Sx::L(vec![Sx::sym("harness_problem"), Sx::sym("server_did_not_start")]),
    };
    *counter += 1;
    let work = srv.dir.path().join(format!("n{}", *counter));
    let reference = make_unit(&work, 500 + *counter);
    let mut c = srv.client_cmd(&work);
    c.env("C11_NOISE", noise.to_string()).env("C11_LAST", &last).env("C11_TAG", "n");
    if status != 0 {
        c.env("C11_EXIT", status.to_string());
    }
    let mut child = c.spawn().expect("spawn client");
    let pid = child.id();
    // drain both pipes while the client runs (the output is larger than a pipe buffer)
    let mut so = child.stdout.take().unwrap();
    let mut se = child.stderr.take().unwrap();
    let t_out = std::thread::spawn(move || {
        let mut b = vec![];
        let _ = so.read_to_end(&mut b);
        b
    });
    let t_err = std::thread::spawn(move || {
        let mut b = vec![];
        let _ = se.read_to_end(&mut b);
        b
    });
    let code = wait_child(&mut child, FAILSAFE);
    let _out = t_out.join().unwrap_or_default();
    let err = t_err.join().unwrap_or_default();
    let code = match code {
        Some(c) => c,
        None => return Sx::L(vec![Sx::sym("client_hung")]),
    };
    let log = std::fs::read_to_string(srv.dir.path().join("phases.log")).unwrap_or_default();
    let ran = log
        .lines()
        .filter(|l| l.split(' ').nth(1).and_then(|p| p.parse::<u32>().ok()) == Some(pid))
        .count();
    let mut want = vec![b'w'; noise];
    want.push(b'\n');
    want.extend_from_slice(last.as_bytes());
    want.push(b'\n');
    let complete = err.windows(want.len()).any(|w| w == &want[..]);
    let nw = err.iter().filter(|&&b| b == b'w').count();
    let errs = String::from_utf8_lossy(&err);
    let why = classify_stderr(&errs);
    let kind = if ran > 0 {
        "local"
    } else if errs.contains("sccache: error") {
        "error"
    } else {
        "finished"
    };
    let why = if kind == "local" && why == "none" { "unhandled" } else { why };
    let obj_ok = std::fs::read(work.join("unit.o")).map(|o| o == reference).unwrap_or(false);
    Sx::L(vec![
        Sx::sym(kind),
        Sx::sym(why),
        Sx::N(code as u32 as u128 & 0xffff),
        Sx::usize(ran.min(1)),
        if complete { Sx::sym("complete") } else { Sx::L(vec![Sx::sym("partial"), Sx::usize(nw)]) },
        Sx::sym(if status == 0 && !obj_ok { "bad_object" } else { "ok" }),
    ])
}

// ------------------------------------------------------------------ leg takeover

/// case ( how ): Unix-socket server A with a compile in flight is told to stop; while it drains, a NEW server takes
/// the socket path over (how = start_server: `sccache --start-server`; how = client: an ordinary client finds no
/// listener and starts one); then A finishes and exits.  Afterwards the socket must still be there and the next
/// client must be served.  Output ( inflight during socket_present next ).
fn run_takeover_case(case: &Sx) -> Sx {
    let by_client = case.arg(0).is_sym("client");
    let dir = scratch("vh-c11s-");
    let d = dir.path().to_path_buf();
    let port = free_port();
    let sock = d.join("s.sock");
    let wrapper = write_wrapper(&d);
    mkfifo(&d.join("fifo"));
    mkfifo(&d.join("release-b"));
    let mut fifo = open_rdwr_nonblock(&d.join("fifo"));
    let mut rel_b = open_rdwr_nonblock(&d.join("release-b"));
    let log_path = d.join("phases.log");
    let sc = |args: &[&str]| {
        let mut c = base_cmd(&d);
        server_env(&mut c, &d, port, DEFAULT_CAP_BYTES);
        c.env("SCCACHE_SERVER_UDS", &sock).current_dir(&d).args(args).stdout(Stdio::null()).stderr(Stdio::null());
        c
    };
    let client = |tag: &str, work: &Path| {
        let mut c = base_cmd(&d);
        server_env(&mut c, &d, port, DEFAULT_CAP_BYTES);
        c.env("SCCACHE_SERVER_UDS", &sock)
            .env("C11_TAG", tag)
            .current_dir(work)
            .arg(&wrapper)
            .args(["-c", "unit.c", "-o", "unit.o"])
            .stdout(Stdio::piped())
            .stderr(Stdio::piped());
        c
    };
    let served = |o: &Option<Observed>| match o {
        Some(o) if o.code == 0 && o.obj_ok => Sx::sym("served"),
        Some(o) => Sx::B(format!("failed_{}_{}_{}", o.kind, o.why, o.code).into_bytes()),
        None => Sx::sym("hung"),
    };
    let _ = sc(&["--start-server"]).status();
    let a = server_pids(&d);
    if a.len() != 1 {
        scan_and_kill_everything(&d);
        return Sx::L(vec![Sx::sym("harness_problem"), Sx::sym("server_a_did_not_start")]);
    }
    // a compile in flight on A, held in the compiler
    let wb = d.join("wb");
    let rb = make_unit(&wb, 601);
    std::fs::write(d.join("hold-compile-b"), "").unwrap();
    let inflight = client("b", &wb).spawn().expect("spawn in-flight client");
    let t0 = Instant::now();
    let mut buf = [0u8; 64];
    let mut announced = false;
    while !announced && t0.elapsed() < Duration::from_secs(30) {
        match fifo.read(&mut buf) {
            Ok(n) if n > 0 => announced = true,
            _ => std::thread::sleep(Duration::from_millis(2)),
        }
    }
    // A is told to stop: it stops listening and drains (at most 10 s)
    let _ = sc(&["--stop-server"]).status();
    // the take-over inside the grace window
    let mut during = Sx::sym("started");
    if by_client {
        let wc = d.join("wc");
        let rc = make_unit(&wc, 602);
        let o = client("c", &wc).spawn().ok().and_then(|c| observe_client(c, &log_path, &wc, &rc));
        during = served(&o);
    } else {
        let _ = sc(&["--start-server"]).status();
    }
    // A finishes its last request and goes away
    let _ = rel_b.write_all(b"g\n");
    let oi = observe_client(inflight, &log_path, &wb, &rb);
    let t0 = Instant::now();
    while server_pids(&d).contains(&a[0]) && t0.elapsed() < Duration::from_secs(30) {
        std::thread::sleep(Duration::from_millis(5));
    }
    let a_gone = !server_pids(&d).contains(&a[0]);
    let new_server_alive = !server_pids(&d).is_empty();
    let socket_present = sock.exists();
    // "if no server is running the client starts one and proceeds" / a running one is found
    let wn = d.join("wn");
    let rn = make_unit(&wn, 603);
    let on = client("n", &wn).spawn().ok().and_then(|c| observe_client(c, &log_path, &wn, &rn));
    let _ = sc(&["--stop-server"]).status();
    scan_and_kill_everything(&d);
    Sx::L(vec![
        served(&oi),
        during,
        Sx::bool(a_gone),
        // a live server without its socket file is unreachable for everybody
        Sx::bool(socket_present || !new_server_alive),
        served(&on),
    ])
}

fn main() {
    vh::quiet_panics();
    let leg = std::env::args().nth(1).unwrap_or_default();
    let mut live: Option<Live> = None;
    let mut counter = 0u64;
    vh::run_lines(|case| match leg.as_str() {
        "decode_resp" => show_response(verif_decode_response(case.bytes())),
        "decode_req" => show_request(verif_decode_request(case.bytes())),
        "client" => vh::catch(|| run_client_case(case))
            .unwrap_or_else(|e| Sx::L(vec![Sx::sym("harness_panic"), Sx::B(e.into_bytes())])),
        "server" => vh::catch(|| run_server_case(&mut live, &mut counter, case))
            .unwrap_or_else(|e| Sx::L(vec![Sx::sym("harness_panic"), Sx::B(e.into_bytes())])),
        "kill" => vh::catch(|| run_kill_case(case))
            .unwrap_or_else(|e| Sx::L(vec![Sx::sym("harness_panic"), Sx::B(e.into_bytes())])),
        "takeover" => vh::catch(|| run_takeover_case(case))
            .unwrap_or_else(|e| Sx::L(vec![Sx::sym("harness_panic"), Sx::B(e.into_bytes())])),
        "bigout" => vh::catch(|| run_bigout_case(&mut live, &mut counter, case))
            .unwrap_or_else(|e| Sx::L(vec![Sx::sym("harness_panic"), Sx::B(e.into_bytes())])),
        "vanish" => vh::catch(|| run_vanish_case(case))
            .unwrap_or_else(|e| Sx::L(vec![Sx::sym("harness_panic"), Sx::B(e.into_bytes())])),
        "coldstart" => vh::catch(|| run_coldstart_case(case))
            .unwrap_or_else(|e| Sx::L(vec![Sx::sym("harness_panic"), Sx::B(e.into_bytes())])),
        "poison" => vh::catch(|| run_poison_case(case))
            .unwrap_or_else(|e| Sx::L(vec![Sx::sym("harness_panic"), Sx::B(e.into_bytes())])),
        _ => Sx::L(vec![Sx::sym("unknown_leg")]),
    });
    if let Some(l) = live.take() {
        l.stop();
    }
}
