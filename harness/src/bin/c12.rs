//! c12 — in-process leg for C12: a real `SccacheService` (real `compiler_info`, real
//! `get_compiler_info` detection, real `get_cached_or_compile` on a real `DiskCache`)
//! driven through histories of binary swaps / symlink retargets / compile requests over
//! REAL files, with small shell "compilers" that answer the gcc detection probe, echo
//! the source on `-E`, write a stamped object on `-c`, and log every invocation.
//!
//! case   = ( op ... )         op = ( swap d n b m ) | ( rewrite d n b m ) | ( retarget d n d2 n2 ) | ( remove d n )
//!                                  | ( touch d n m ) | ( retargetdir l k ) | ( compile d n src )
//!                                  | ( compile d n src ( envop ... ) )
//!          A compile op with a non-empty envop list is a request DURING WHOSE DETECTION PROBE the
//!          envops are applied: the harness arms the compilers (file `arm`), runs the request on a
//!          second thread, and the compiler that answers the probe stops inside it — it writes to the
//!          fifo `ready` and blocks reading the fifo `go` — until the harness has applied the envops
//!          and released it.  No timing is involved.  If the request needs no probe (memo hit,
//!          nothing at the path, not a compiler) the envops are applied after it has finished.
//! result = ( ev ... )          one per compile op:
//!   ev   = ( outcome producer cur detected ( (id mode) ... ) cur0 )
//!          outcome  unsupported | fail | hit | miss   (panic = compiler_info panicked: never expected)
//!          producer stamp found in the object handed back (0 = none)
//!          cur0     () | ( bytes-id mtime )  what is at the path when the request is issued: bytes-id read back
//!                   from the file AND, for working compilers, confirmed by running the path DIRECTLY
//!          cur      the same when the request is served: = cur0, or, if the probe was held and the
//!                   envops applied, measured again after them
//!          detected 1 iff the detection probe was run for this request (read off the invocation log)
//!          log      what was executed for the request: mode D(etect) E(preprocess) C(ompile) X(not a compiler)
use futures::FutureExt;
use sccache::server::SccacheService;
use sccache::verif_hooks::cache::disk::DiskCache;
use sccache::verif_hooks::cache::{CacheMode, PreprocessorCacheModeConfig, Storage};
use sccache::verif_hooks::compiler::{CacheControl, CompileResult, CompilerArguments};
use sccache::verif_hooks::jobserver::Client;
use sccache::verif_hooks::mock_command::{CommandCreatorSync, ProcessCommandCreator};
use std::ffi::OsString;
use std::io::{Read, Write};
use std::os::unix::ffi::OsStrExt;
use std::os::unix::fs::{OpenOptionsExt, PermissionsExt};
use std::path::{Path, PathBuf};
use std::sync::Arc;
use vh::Sx;

const BASE: i64 = 1_500_000_000;
const NAMES: [&str; 3] = ["gcc", "cc", "mycc"];

fn ft(m: u64) -> filetime::FileTime {
    filetime::FileTime::from_unix_time(BASE + (m / 4) as i64, ((m % 4) * 250_000_000) as u32)
}

fn logical(t: filetime::FileTime) -> u64 {
    let s = t.unix_seconds() - BASE;
    if s < 0 {
        return 999_999;
    }
    (s as u64) * 4 + (t.nanoseconds() as u64) / 250_000_000
}

fn script(id: u64, root: &Path, stamped: bool) -> String {
    let log = root.join("log");
    if id >= 100 {
        // not a compiler: fails whatever it is asked
        return format!(
            "#!/bin/sh\n# compiler {id}\nfor a in \"$@\"; do [ \"$a\" = -vV ] && exit 1; done\necho '{id} X' >> {log}\nexit 1\n",
            id = id,
            log = log.display()
        );
    }
    format!(
        r#"#!/bin/sh
# compiler {id}
mode=C; out=; src=; prev=
for a in "$@"; do
  case "$a" in -E) mode=E;; -vV) mode=V;; *.c) src=$a;; esac
  [ "$prev" = -o ] && out=$a
  prev=$a
done
[ $mode = V ] && {{ echo "unrecognized option -vV" >&2; exit 1; }}
case "$src" in *testfile.c) [ $mode = E ] && mode=D;; esac
echo "{id} $mode" >> {log}
if [ $mode = D ] && [ -e {root}/arm ]; then rm -f {root}/arm; echo r > {root}/ready; read x < {root}/go; fi
case $mode in
  D) echo "compiler_id=gcc"; echo 'compiler_version={version}'; exit 0;;
  E) cat "$src"; exit 0;;
  C) {{ echo OBJ; cat "$src"; echo "WRAPPER_ID={id}"; }} > "$out"; exit 0;;
esac
"#,
        id = id,
        log = log.display(),
        root = root.display(),
        // what a compiler says about itself does not tell two builds apart: within one history all compilers
        // report the same version — a revision-stamped one (as official LLVM builds do) or a plain one
        version = if stamped {
            "\"12.0 (https://git.example.org/toolchain/gcc 6009708b4367171ccdbf4b5905cb6a803753fe18)\""
        } else {
            "\"12.0\""
        }
    )
}

struct World {
    stamped: bool,
    root: PathBuf,
    log: PathBuf,
    cwd: PathBuf,
}

impl World {
    fn path(&self, d: u64, n: u64) -> PathBuf {
        self.root
            .join(format!("d{}", d % 8))
            .join(NAMES[(n as usize) % NAMES.len()])
    }
    fn take_log(&self) -> Vec<Sx> {
        let txt = std::fs::read_to_string(&self.log).unwrap_or_default();
        let _ = std::fs::write(&self.log, b"");
        let mut v = vec![];
        for l in txt.lines() {
            let mut it = l.split_whitespace();
            if let (Some(id), Some(mode)) = (it.next(), it.next()) {
                v.push(Sx::L(vec![Sx::n(id.parse::<u64>().unwrap_or(0)), Sx::sym(mode)]));
            }
        }
        v
    }
    /// swap / retarget / remove / touch; true if it was one of them
    fn fs_op(&self, op: &Sx) -> bool {
        match op.tag().as_str() {
            "swap" => {
                let p = self.path(op.arg(1).u64(), op.arg(2).u64());
                // like `cp new tmp; touch -d; mv tmp path`: the path becomes a fresh regular file
                let tmp = p.with_extension("tmp");
                std::fs::write(&tmp, script(op.arg(3).u64(), &self.root, self.stamped)).unwrap();
                std::fs::set_permissions(&tmp, std::fs::Permissions::from_mode(0o755)).unwrap();
                filetime::set_file_mtime(&tmp, ft(op.arg(4).u64())).unwrap();
                std::fs::rename(&tmp, &p).unwrap();
                true
            }
            "rewrite" => {
                // the same change made IN PLACE: the regular file at the path keeps its inode (cp over it,
                // `cat new > path`, an editor); anything else at the path is replaced as by `swap`
                let p = self.path(op.arg(1).u64(), op.arg(2).u64());
                let is_reg = std::fs::symlink_metadata(&p).map(|m| m.file_type().is_file()).unwrap_or(false);
                if !is_reg {
                    let _ = std::fs::remove_file(&p);
                }
                std::fs::write(&p, script(op.arg(3).u64(), &self.root, self.stamped)).unwrap();
                std::fs::set_permissions(&p, std::fs::Permissions::from_mode(0o755)).unwrap();
                filetime::set_file_mtime(&p, ft(op.arg(4).u64())).unwrap();
                true
            }
            "retarget" => {
                let l = self.path(op.arg(1).u64(), op.arg(2).u64());
                let tgt = self.path(op.arg(3).u64(), op.arg(4).u64());
                let _ = std::fs::remove_file(&l);
                std::os::unix::fs::symlink(&tgt, &l).unwrap();
                true
            }
            "retargetdir" => {
                // `ln -sfn d<k> d<l>`: a DIRECTORY component of compiler paths becomes a link to another directory
                let l = self.root.join(format!("d{}", op.arg(1).u64() % 8));
                let tgt = self.root.join(format!("d{}", op.arg(2).u64() % 8));
                match std::fs::symlink_metadata(&l) {
                    Ok(m) if m.file_type().is_symlink() => {
                        let _ = std::fs::remove_file(&l);
                    }
                    Ok(_) => {
                        let _ = std::fs::remove_dir_all(&l);
                    }
                    Err(_) => {}
                }
                std::os::unix::fs::symlink(&tgt, &l).unwrap();
                true
            }
            "remove" => {
                let _ = std::fs::remove_file(self.path(op.arg(1).u64(), op.arg(2).u64()));
                true
            }
            "touch" => {
                // follows links; a dangling path is left alone
                let _ = filetime::set_file_mtime(self.path(op.arg(1).u64(), op.arg(2).u64()), ft(op.arg(3).u64()));
                true
            }
            _ => false,
        }
    }
    /// ground truth about what is at the path now: () or (bytes-id mtime)
    fn measure(&self, p: &Path, src: &str) -> Sx {
        match std::fs::metadata(p) {
            Ok(md) => {
                let m = logical(filetime::FileTime::from_last_modification_time(&md));
                let id = id_in_file(p).unwrap_or(0);
                let mut b = id;
                if id < 100 {
                    // run the path DIRECTLY: this is what an uncached build would produce
                    let dobj = self.cwd.join("direct.o");
                    let _ = std::fs::remove_file(&dobj);
                    let st = std::process::Command::new(p)
                        .current_dir(&self.cwd)
                        .args(["-c", src, "-o", "direct.o"])
                        .status();
                    let ds = stamp(&dobj);
                    if st.map(|s| !s.success()).unwrap_or(true) || ds != id {
                        b = 777_000 + ds; // the direct run disagrees with the label: never expected
                    }
                    let _ = self.take_log();
                }
                Sx::L(vec![Sx::n(b), Sx::n(m)])
            }
            Err(_) => Sx::L(vec![]),
        }
    }
}

fn stamp(obj: &Path) -> u64 {
    let data = std::fs::read(obj).unwrap_or_default();
    let s = String::from_utf8_lossy(&data);
    match s.rfind("WRAPPER_ID=") {
        Some(i) => s[i + 11..].trim().parse().unwrap_or(0),
        None => 0,
    }
}

fn id_in_file(p: &Path) -> Option<u64> {
    let s = std::fs::read_to_string(p).ok()?;
    let l = s.lines().nth(1)?;
    l.strip_prefix("# compiler ")?.trim().parse().ok()
}

fn mkfifo(p: &Path) {
    let c = std::ffi::CString::new(p.as_os_str().as_bytes()).unwrap();
    let rc = unsafe { libc::mkfifo(c.as_ptr(), 0o600) };
    assert_eq!(rc, 0, "mkfifo");
}

fn run_case(rt: &tokio::runtime::Runtime, case: &Sx, seq: u64) -> Sx {
    let root = PathBuf::from(format!("/dev/shm/c12-{}-{}", std::process::id(), seq));
    let _ = std::fs::remove_dir_all(&root);
    std::fs::create_dir_all(&root).unwrap();
    let w = World { log: root.join("log"), cwd: root.join("w"), root: root.clone(), stamped: case.list().len() % 2 == 1 };
    for d in 0..8 {
        std::fs::create_dir_all(root.join(format!("d{}", d))).unwrap();
    }
    let cwd = w.cwd.clone();
    std::fs::create_dir_all(&cwd).unwrap();
    for s in 0..4 {
        std::fs::write(cwd.join(format!("s{}.c", s)), format!("int f{}(void){{return {};}}\n", s, s)).unwrap();
    }
    std::fs::write(&w.log, b"").unwrap();
    mkfifo(&root.join("ready"));
    mkfifo(&root.join("go"));
    // a reader that stays open: the held compiler's `echo r > ready` never blocks
    let mut ready = std::fs::OpenOptions::new()
        .read(true)
        .custom_flags(libc::O_NONBLOCK)
        .open(root.join("ready"))
        .unwrap();
    let pool = rt.handle().clone();
    let storage: Arc<dyn Storage> = Arc::new(DiskCache::new(
        root.join("cache"),
        1 << 30,
        &pool,
        PreprocessorCacheModeConfig { use_preprocessor_cache_mode: false, ..Default::default() },
        CacheMode::ReadWrite,
    ));
    let service: SccacheService<ProcessCommandCreator> =
        SccacheService::mock_with_storage(storage.clone(), pool.clone());
    let creator = ProcessCommandCreator::new(&Client::new_num(4));
    let mut out = vec![];
    for op in case.list() {
        if w.fs_op(op) {
            continue;
        }
        if op.tag() != "compile" {
            out.push(Sx::L(vec![Sx::sym("bad_op")]));
            continue;
        }
        let p = w.path(op.arg(1).u64(), op.arg(2).u64());
        let src = format!("s{}.c", op.arg(3).u64() % 4);
        let env_ops: Vec<Sx> = op.arg(4).list().to_vec();
        let obj = cwd.join("o.o");
        let _ = std::fs::remove_file(&obj);
        let cur0 = w.measure(&p, &src);
        let args: Vec<OsString> = vec!["-c".into(), src.clone().into(), "-o".into(), "o.o".into()];
        let env: Vec<(OsString, OsString)> = vec![];
        // the request: the real compiler_info, then what check_compiler / start_compile_task do with its answer
        let request = || -> &'static str {
            let svc = service.clone();
            let info = rt.block_on(
                std::panic::AssertUnwindSafe(svc.compiler_info(p.clone(), cwd.clone(), &args, &env)).catch_unwind(),
            );
            match info {
                Err(_) => "panic",
                Ok(Err(_)) => "unsupported",
                Ok(Ok(c)) => match c.parse_arguments(&args, &cwd, &env) {
                    CompilerArguments::Ok(hasher) => rt.block_on(async {
                        let r = hasher
                            .get_cached_or_compile(
                                &service,
                                None,
                                creator.clone(),
                                storage.clone(),
                                args.clone(),
                                cwd.clone(),
                                env.clone(),
                                CacheControl::Default,
                                pool.clone(),
                            )
                            .await;
                        match r {
                            Ok((CompileResult::CacheMiss(_, _, _, fut), o)) => {
                                let _ = fut.await;
                                if o.status.success() { "miss" } else { "fail" }
                            }
                            Ok((CompileResult::CacheHit(_), o)) => {
                                if o.status.success() { "hit" } else { "fail" }
                            }
                            Ok((CompileResult::CompileFailed(..), _)) => "fail",
                            // the preprocessor run failed
                            Ok((CompileResult::Error, _)) => "fail",
                            Ok(_) => "other",
                            Err(_) => "fail",
                        }
                    }),
                    _ => "notcacheable",
                },
            }
        };
        let mut held = false;
        let outcome: &str = if env_ops.is_empty() {
            request()
        } else {
            std::fs::write(root.join("arm"), b"").unwrap();
            let o = std::thread::scope(|s| {
                let h = s.spawn(request);
                let mut buf = [0u8; 8];
                loop {
                    if h.is_finished() {
                        break;
                    }
                    if matches!(ready.read(&mut buf), Ok(n) if n > 0) {
                        held = true;
                        break;
                    }
                    std::thread::sleep(std::time::Duration::from_millis(1));
                }
                if held {
                    // the probe is running and stopped: now the environment acts
                    for e in &env_ops {
                        w.fs_op(e);
                    }
                    let mut go = std::fs::OpenOptions::new().write(true).open(root.join("go")).unwrap();
                    go.write_all(b"g\n").unwrap();
                }
                h.join().unwrap_or("panic")
            });
            if !held {
                let _ = std::fs::remove_file(root.join("arm"));
                for e in &env_ops {
                    w.fs_op(e);
                }
            }
            o
        };
        let log = w.take_log();
        let mut detected = 0u64;
        // the probe ran iff a compiler logged a D, or (detection being the only thing that runs
        // before an "unsupported" answer) a non-compiler logged anything
        if log.iter().any(|e| e.arg(1).is_sym("D")) || (outcome == "unsupported" && !log.is_empty()) {
            detected = 1;
        }
        let prod = if outcome == "hit" || outcome == "miss" { stamp(&obj) } else { 0 };
        let cur = if held { w.measure(&p, &src) } else { cur0.clone() };
        out.push(Sx::L(vec![Sx::sym(outcome), Sx::n(prod), cur, Sx::n(detected), Sx::L(log), cur0]));
    }
    drop(service);
    drop(storage);
    drop(ready);
    let _ = std::fs::remove_dir_all(&root);
    Sx::L(out)
}

fn main() {
    let leg = std::env::args().nth(1).unwrap_or_default();
    let rt = tokio::runtime::Builder::new_multi_thread().worker_threads(2).enable_all().build().unwrap();
    vh::quiet_panics();
    let mut seq = 0u64;
    vh::run_lines(|case| {
        seq += 1;
        match leg.as_str() {
            "inproc" => run_case(&rt, case, seq),
            _ => Sx::L(vec![Sx::sym("unknown_leg")]),
        }
    });
}
