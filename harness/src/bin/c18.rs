//! c18 — implementation side of the C18 correspondence: the REAL scheduler, driven through the
//! `__verif_sched` hook compiled into the `sccache-dist` binary (src/bin/sccache-dist/verif_sched.rs).
//! The scheduler lives in the binary crate, so this harness binary only locates that binary
//! ($VERIF_BUILD/target-e2e/debug/sccache-dist, built by lib/props/c18.py `prebuild`) and becomes it:
//! stdin (one case per line) and stdout (one observation line per case) go straight through.
use std::os::unix::process::CommandExt;
use std::path::PathBuf;

fn main() {
    let build = std::env::var("VERIF_BUILD").unwrap_or_else(|_| "/verif/.build".to_string());
    let exe = std::env::var("VERIF_SCCACHE_DIST")
        .map(PathBuf::from)
        .unwrap_or_else(|_| PathBuf::from(build).join("target-e2e/debug/sccache-dist"));
    // argv[1] is the leg name; there is only one way to drive the real code
    let err = std::process::Command::new(&exe)
        .arg("__verif_sched")
        .env_remove("SCCACHE_LOG")
        .exec();
    eprintln!("c18: cannot exec {}: {}", exe.display(), err);
    std::process::exit(3);
}
