//! vh — shared pieces of the correspondence harness: the Sx case/result format
//! (same grammar as coq/theories/Base/Sx.v and lib/sx.py) and the line loop.
pub mod sx;
pub use sx::Sx;

use std::io::{BufRead, Write};

/// Read one Sx per stdin line, apply `f`, print one Sx per line.
/// Lines starting with `;` and empty lines are echoed as empty lists.
pub fn run_lines<F: FnMut(&Sx) -> Sx>(mut f: F) {
    let stdin = std::io::stdin();
    let stdout = std::io::stdout();
    let mut out = std::io::BufWriter::new(stdout.lock());
    for line in stdin.lock().lines() {
        let line = line.expect("stdin");
        let t = line.trim();
        if t.is_empty() || t.starts_with(';') {
            writeln!(out, "()").unwrap();
            continue;
        }
        let r = match Sx::parse(t) {
            Ok(x) => f(&x),
            Err(e) => Sx::L(vec![Sx::sym("harness_parse_error"), Sx::B(e.into_bytes())]),
        };
        writeln!(out, "{}", r).unwrap();
    }
    out.flush().unwrap();
}

/// Run `f`, turning a panic into `Err(message)`.
pub fn catch<T, F: FnOnce() -> T>(f: F) -> Result<T, String> {
    match std::panic::catch_unwind(std::panic::AssertUnwindSafe(f)) {
        Ok(v) => Ok(v),
        Err(e) => Err(if let Some(s) = e.downcast_ref::<&str>() {
            s.to_string()
        } else if let Some(s) = e.downcast_ref::<String>() {
            s.clone()
        } else {
            "panic".to_string()
        }),
    }
}

/// Silence the default panic hook (panics are expected observations).
pub fn quiet_panics() {
    if std::env::var_os("VH_LOUD_PANICS").is_some() {
        return; // debugging aid: keep the default hook so that the panic message is printed to stderr
    }
    std::panic::set_hook(Box::new(|_| {}));
}
