use std::fmt;

#[derive(Clone, Debug, PartialEq, Eq)]
pub enum Sx {
    N(u128),
    B(Vec<u8>),
    L(Vec<Sx>),
}

fn is_ident(b: &[u8]) -> bool {
    if b.is_empty() {
        return false;
    }
    let c0 = b[0];
    if !(c0.is_ascii_alphabetic() || c0 == b'_') {
        return false;
    }
    b.iter().all(|&c| c.is_ascii_alphanumeric() || matches!(c, b'_' | b'.' | b'/' | b'+' | b'-'))
}

impl fmt::Display for Sx {
    fn fmt(&self, f: &mut fmt::Formatter<'_>) -> fmt::Result {
        match self {
            Sx::N(n) => write!(f, "{}", n),
            Sx::B(b) => {
                if is_ident(b) {
                    write!(f, "{}", std::str::from_utf8(b).unwrap())
                } else {
                    write!(f, "#")?;
                    for c in b {
                        write!(f, "{:02x}", c)?;
                    }
                    Ok(())
                }
            }
            Sx::L(l) => {
                write!(f, "(")?;
                for (i, x) in l.iter().enumerate() {
                    if i > 0 {
                        write!(f, " ")?;
                    }
                    write!(f, "{}", x)?;
                }
                write!(f, ")")
            }
        }
    }
}

impl Sx {
    pub fn sym(s: &str) -> Sx {
        Sx::B(s.as_bytes().to_vec())
    }
    pub fn bool(b: bool) -> Sx {
        Sx::N(if b { 1 } else { 0 })
    }
    pub fn n<T: Into<u128>>(n: T) -> Sx {
        Sx::N(n.into())
    }
    pub fn usize(n: usize) -> Sx {
        Sx::N(n as u128)
    }
    pub fn opt(o: Option<Sx>) -> Sx {
        match o {
            None => Sx::L(vec![]),
            Some(x) => Sx::L(vec![x]),
        }
    }
    pub fn list(&self) -> &[Sx] {
        match self {
            Sx::L(l) => l,
            _ => &[],
        }
    }
    pub fn bytes(&self) -> &[u8] {
        match self {
            Sx::B(b) => b,
            _ => &[],
        }
    }
    pub fn num(&self) -> u128 {
        match self {
            Sx::N(n) => *n,
            _ => 0,
        }
    }
    pub fn u64(&self) -> u64 {
        self.num() as u64
    }
    pub fn as_bool(&self) -> bool {
        self.num() != 0
    }
    pub fn is_sym(&self, s: &str) -> bool {
        matches!(self, Sx::B(b) if b == s.as_bytes())
    }
    pub fn str(&self) -> String {
        String::from_utf8_lossy(self.bytes()).into_owned()
    }
    /// head symbol of a list `(tag ...)`
    pub fn tag(&self) -> String {
        self.list().first().map(|x| x.str()).unwrap_or_default()
    }
    pub fn arg(&self, i: usize) -> &Sx {
        static NIL: Sx = Sx::L(Vec::new());
        self.list().get(i).unwrap_or(&NIL)
    }

    pub fn parse(s: &str) -> Result<Sx, String> {
        let b = s.as_bytes();
        let mut pos = 0;
        let v = parse_at(b, &mut pos)?;
        skip_ws(b, &mut pos);
        if pos != b.len() {
            return Err(format!("trailing input at {}", pos));
        }
        Ok(v)
    }
}

fn skip_ws(b: &[u8], pos: &mut usize) {
    while *pos < b.len() && b[*pos].is_ascii_whitespace() {
        *pos += 1;
    }
}

fn hexval(c: u8) -> Option<u8> {
    match c {
        b'0'..=b'9' => Some(c - b'0'),
        b'a'..=b'f' => Some(c - b'a' + 10),
        b'A'..=b'F' => Some(c - b'A' + 10),
        _ => None,
    }
}

fn parse_at(b: &[u8], pos: &mut usize) -> Result<Sx, String> {
    skip_ws(b, pos);
    if *pos >= b.len() {
        return Err("unexpected end".into());
    }
    let c = b[*pos];
    if c == b'(' {
        *pos += 1;
        let mut items = vec![];
        loop {
            skip_ws(b, pos);
            if *pos >= b.len() {
                return Err("unclosed (".into());
            }
            if b[*pos] == b')' {
                *pos += 1;
                return Ok(Sx::L(items));
            }
            items.push(parse_at(b, pos)?);
        }
    } else if c == b'#' {
        *pos += 1;
        let mut out = vec![];
        while *pos < b.len() && hexval(b[*pos]).is_some() {
            let h = hexval(b[*pos]).unwrap();
            let l = match b.get(*pos + 1).and_then(|&c| hexval(c)) {
                Some(l) => l,
                None => return Err("odd hex".into()),
            };
            out.push(h * 16 + l);
            *pos += 2;
        }
        Ok(Sx::B(out))
    } else if c.is_ascii_digit() {
        let st = *pos;
        while *pos < b.len() && b[*pos].is_ascii_digit() {
            *pos += 1;
        }
        let s = std::str::from_utf8(&b[st..*pos]).unwrap();
        s.parse::<u128>().map(Sx::N).map_err(|e| e.to_string())
    } else if c.is_ascii_alphabetic() || c == b'_' {
        let st = *pos;
        while *pos < b.len()
            && (b[*pos].is_ascii_alphanumeric() || matches!(b[*pos], b'_' | b'.' | b'/' | b'+' | b'-'))
        {
            *pos += 1;
        }
        Ok(Sx::B(b[st..*pos].to_vec()))
    } else {
        Err(format!("unexpected char {:?} at {}", c as char, *pos))
    }
}
