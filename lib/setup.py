"""./check --setup : build everything from files on disk (offline): Coq development (clean, full .vo),
extracted model runners, harness binaries, hooked sccache binaries."""
import glob
import importlib
import os
import sys

from . import pipeline as P


def prop_modules():
    mods = []
    for p in sorted(glob.glob(os.path.join(P.VERIF, 'lib', 'props', 'c[0-9][0-9].py'))):
        mods.append(importlib.import_module('lib.props.' + os.path.basename(p)[:-3]))
    return mods


def main():
    rc = 0
    mods = prop_modules()
    for m in mods:
        if hasattr(m, 'translate'):
            try:
                m.translate(P.Report(m.ID, 'quick', 1))
            except Exception as e:
                P.log('translate %s failed: %r' % (m.ID, e))
    P.coq_clean()
    ok, out = P.coq_make([], timeout=3000)
    if not ok:
        print(out[-5000:])
        rc = 1
    for m in mods:
        rm = getattr(m, 'RUN_MODULE', None)
        if rm:
            ok, out = P.build_modelrun(m.ID, rm)
            if not ok:
                print(out[-3000:])
                rc = 1
    bins = sorted(set(b for m in mods for b in ([getattr(m, 'HARNESS_BIN', None)] + list(getattr(m, 'EXTRA_BINS', []))) if b))
    if bins:
        ok, out = P.build_harness(bins)
        if not ok:
            print(out[-5000:])
            rc = 1
    e2e = sorted(set(b for m in mods for b in getattr(m, 'REPO_BINS', [])))
    if e2e:
        plain = [b for b in e2e if b != 'sccache-dist']
        if plain:
            ok, out = P.build_repo_bins(plain)
            if not ok:
                print(out[-5000:])
                rc = 1
        if 'sccache-dist' in e2e:
            ok, out = P.build_repo_bins(['sccache-dist'], features='dist-server')
            if not ok:
                print(out[-5000:])
                rc = 1
    print('setup', 'ok' if rc == 0 else 'FAILED')
    return rc
