"""./check --setup : build everything from files on disk (offline): Coq development (clean, full .vo),
extracted model runners, harness binaries, hooked sccache binaries."""
import glob
import importlib
import os
import sys

from . import pipeline as P


def prop_modules():
    """Modules of the properties claimed in MANIFEST.json (work in progress for others is not built)."""
    import json
    claimed = [c['property_id'] for c in json.load(open(os.path.join(P.VERIF, 'MANIFEST.json')))['checks']]
    mods = []
    for pid in claimed:
        mods.append(importlib.import_module('lib.props.' + pid.lower()))
    return mods


def main():
    rc = 0
    mods = prop_modules()
    for m in mods:
        if hasattr(m, 'translate'):
            try:
                m.translate(P.Report(m.ID, 'quick', 1))
            except Exception as e:
                P.log('translate %s failed: %r' % (m.ID, e))
        if hasattr(m, 'setup'):
            m.setup()
    P.coq_clean()
    targets = []
    for m in mods:
        targets.append('theories/Properties/%s.vo' % m.ID)
        for x in list(getattr(m, 'COQ_EXTRA', [])) + ([m.RUN_MODULE] if getattr(m, 'RUN_MODULE', None) else []):
            targets.append('theories/%s.vo' % x.replace('.', '/'))
    ok, out = P.coq_make(sorted(set(targets)) + ['-k'], timeout=3000)
    if not ok:
        # keep going: one property whose proofs do not build must not take the others down;
        # its own check reports the broken obligation
        print(out[-5000:])
        rc = 1
    for m in mods:
        rm = getattr(m, 'RUN_MODULE', None)
        if rm:
            ok, out = P.build_modelrun(m.ID, rm)
            if not ok:
                print(out[-3000:])
                rc = 1
    bins = sorted(set(b for m in mods for b in ([getattr(m, 'HARNESS_BIN', None)] + list(getattr(m, 'EXTRA_BINS', []))) if b))
    if bins:
        ok, out = P.build_harness(bins)
        if not ok:
            print(out[-5000:])
            rc = 1
    e2e = sorted(set(b for m in mods for b in getattr(m, 'REPO_BINS', [])))
    if e2e:
        plain = [b for b in e2e if b != 'sccache-dist']
        if plain:
            ok, out = P.build_repo_bins(plain)
            if not ok:
                print(out[-5000:])
                rc = 1
        if 'sccache-dist' in e2e:
            ok, out = P.build_repo_bins(['sccache-dist'], features='dist-server')
            if not ok:
                print(out[-5000:])
                rc = 1
    print('setup', 'ok' if rc == 0 else 'finished WITH FAILURES (see above); the affected checks will report them')
    return 0
