"""Sx — the case/result format shared with coq/theories/Base/Sx.v, the OCaml driver and the Rust harness.
Python values: int -> number, bytes -> byte string, list/tuple -> list.  str is accepted as ASCII bytes."""
import re

_IDENT = re.compile(rb'\A[A-Za-z_][A-Za-z0-9_./+-]*\Z')


def dumps(x):
    if isinstance(x, bool):
        return '1' if x else '0'
    if isinstance(x, int):
        return str(x)
    if isinstance(x, str):
        x = x.encode('latin-1')
    if isinstance(x, (bytes, bytearray)):
        x = bytes(x)
        if _IDENT.match(x):
            return x.decode('ascii')
        return '#' + x.hex()
    if isinstance(x, (list, tuple)):
        return '(' + ' '.join(dumps(y) for y in x) + ')'
    raise TypeError(repr(x))


_TOK = re.compile(r'\s*(\(|\)|#[0-9a-fA-F]*|[0-9]+|[A-Za-z_][A-Za-z0-9_./+-]*)')


def loads(s):
    pos = 0
    stack = [[]]
    n = len(s)
    while True:
        m = _TOK.match(s, pos)
        if not m:
            if s[pos:].strip() == '':
                break
            raise ValueError('bad sx at %d: %r' % (pos, s[pos:pos + 20]))
        pos = m.end()
        t = m.group(1)
        if t == '(':
            stack.append([])
        elif t == ')':
            l = stack.pop()
            stack[-1].append(l)
        elif t[0] == '#':
            stack[-1].append(bytes.fromhex(t[1:]))
        elif t[0].isdigit():
            stack[-1].append(int(t))
        else:
            stack[-1].append(t.encode('ascii'))
    if len(stack) != 1 or len(stack[0]) != 1:
        raise ValueError('unbalanced sx')
    return stack[0][0]


def pretty(x):
    """JSON-friendly rendering for evidence samples / replays."""
    return dumps(x)
