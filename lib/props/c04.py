"""C04 — preprocessor-cache (direct) mode never returns a result for changed inputs."""
import os

from .. import pipeline, sx
from ..pipeline import Leg

ID = 'C04'
HARNESS_BIN = 'c04'
RUN_MODULE = 'Run.C04'
COQ_EXTRA = []
THEOREMS = ['C04_lookup_sound', 'C04_input_digest_sound', 'C04_pp_key_parts_sound', 'C04_add_result_all_or_nothing', 'C04_lookup_sound_window', 'C04_no_stat_for_new_files', 'C04_timestamp_injective', 'C04_marker_recorded', 'C04_cwd_in_pp_key', 'C04_record_sound', 'C04_record_instant_sound', 'C04_scan_exact', 'C04_scan_no_false_negative',
            'C04_scan_chunk_independent', 'C04_digest_chunk_independent', 'C04_mode_equivalence', 'C04_markers_complete']
ASSUMPTIONS = [
    'BLAKE3 is modelled as an injective function H on file contents and an injective function HT on the '
    '(date, SOURCE_DATE_EPOCH, mtime) fields (section hypotheses H_inj / HT_inj of the theorems); hex digests have '
    'no "-", so a plain and a salted include digest never compare equal (the two constructors of idigest)',
    'file_stat_matches: "equal (size, mtime, ctime) implies equal bytes" is an explicit hypothesis (stat_trust) of '
    'C04_lookup_sound, used only for includes accepted by the stat shortcut (that option\'s documented trade)',
    'ignore_time_macros: documented as able to give false positives; with it the theorems claim unchanged bytes only, '
    'not unchanged __DATE__/__TIMESTAMP__ expansions',
    'a newly created header that shadows a recorded one (documented caveat) is excluded by hypothesis '
    'no_new_shadowing_file of C04_mode_equivalence; the preprocessor is an abstract function with the stated frame '
    '(pp_frame); skip_system_headers: unchanged system headers are part of that frame hypothesis',
    'C04_mode_equivalence needs env_main ⊆ env_pp (S16, repaired by the C02 worker) as the named hypothesis '
    'env_main_subset_env_pp, and the named hypothesis pp_key_injective: the manifest (pp-level) key is injective in '
    '(hashed arguments / request, allow-listed environment, input digest).  For the real encoding that is property '
    'C02\'s theorem Properties/C02.v C02_pp_encode_injective (each argument / variable carries its own length prefix) '
    'together with collision-freeness of BLAKE3; it is not imported (C02\'s generated Gen/C02HashSpec.v would become a '
    'build dependency of C04) but checked here on the real function by the ppkey leg and end to end',
    'file system: no symlinks (symlink_metadata = metadata; `..` resolved lexically: Model/PpPaths.v canon_path); '
    'PathBuf order on the recorded includes is modelled as byte order of the rendered components',
    'the date used when recording is the date at the instant of recording (a compile that runs across midnight can '
    'record the next day; same window as in ccache) and SOURCE_DATE_EPOCH is read from the SERVER environment '
    '(the client strips it from the forwarded environment, src/cmdline.rs)',
    'C04_record_instant_sound: environment writes set the ctime of the file to the (non-decreasing) clock value of the '
    'write and cannot backdate it; the clock that stamps files is the clock start_of_compilation is read from',
    'C04_cwd_in_pp_key is about the argument list built by generate_hash_key (Model/PpCache.v prelude_pp_args); that the '
    'working directory is pushed under hash_working_directory and no other condition is the translated side condition '
    'prelude_cwd_guard_ok; C04_lookup_sound_window allows files to be REMOVED between the include recorder and '
    'add_result, or REWRITTEN provided the new file carries mtime or ctime >= the start instant (win_ok; why that holds is '
    'C04_record_instant_sound); C04_no_stat_for_new_files is the should_cache_time rule of add_result',
    'the DATE of a snapshot is the LOCAL calendar day of the server (what the compiler expands __DATE__ from) plus '
    'SOURCE_DATE_EPOCH; it is an opaque value in the model, and the ppcache leg varies it through SOURCE_DATE_EPOCH and '
    'through the time zone (TZ = UTC-12 / UTC+14, whose local days always differ)',
    'C04_markers_complete covers outputs made of `# N "path" flags` and body lines (wf_line); the `#line` / '
    '`#pragma GCC pch_preprocess` syntaxes, the GCC-6 # 31/# 32 lines, .incbin and distcc-pump chatter are modelled '
    '(Model/LineMarker.v) and checked differentially only',
]
TRUSTED = [
    'translator/c04_consts.py also transcribes the SOURCE ORDER of the three prelude steps of generate_hash_key (take '
    'start_of_compilation / compiler.preprocess / process_preprocessed_file+add_result with that variable) into '
    'Gen prelude_order; that the order is [take; preprocess; record] is the proof obligation prelude_order_ok; source '
    'order is taken for execution order (straight-line code, checked end to end by the compiler-shim scenarios)',
    'translator/c04_consts.py (HASH_BUFFER_SIZE, MAX_HAYSTACK_LEN, the three time-macro patterns, the two manifest limits)',
    'hooks: compiler::c::verif_remember_include_file / verif_include_is_too_new / verif_process_preprocessed_file, '
    'PreprocessorCacheEntry::verif_view (read-only)',
]

BUF = 131072
PATS = {'date': b'__DATE__', 'time': b'__TIME__', 'timestamp': b'__TIMESTAMP__'}


# cross-property composition theorems (C04 <- C02 etc.), re-checked with this property's check
EXTRA_PROPERTY_FILES = ['theories/Properties/Composition.v']
EXTRA_THEOREMS = {'theories/Properties/Composition.v': ['Compose_C04_translations_agree', 'Compose_C04_lookup_sound_on', 'Compose_C04_manifest_key_is_C02_pp_key', 'Compose_C04_hreq_view_faithful', 'Compose_C04_pp_key_injective_at', 'Compose_C04_mode_equivalence_closed', 'Compose_C09_consistent_from_C02', 'Compose_C09_faults_transparent_closed', 'Compose_C09_internal_fault_reported_closed', 'Compose_C09_history_transparent_closed', 'Compose_C09_repopulates_closed', 'Compose_C03_allowlist_is_C02', 'Compose_C03_key_of_is_C02_key', 'Compose_C03_hit_after_store_C02_key', 'Compose_store_invariants', 'Compose_C20_late_client_gets_result', 'Compose_C20_not_serving_client_gets_result', 'Compose_C09_put_fault_classes', 'Compose_C09_repopulates_after_any_store_history', 'Compose_C09_store_fault_transparent_and_recovers', 'Compose_C10_hit_installs_compiled_bytes', 'Compose_C01_hit_end_to_end', 'Compose_C15_ro_open_serves_rw_history', 'Compose_C15_ro_open_serves_concurrent_store_partial']}


def translate(rep):
    from translator import c04_consts
    info = c04_consts.generate(pipeline.REPO, os.path.join(pipeline.COQ, 'theories/Gen/C04Consts.v'))
    rep.oblige('translate:c04_consts', True, str(info))
    # Composition.v also depends on C02's generated hash spec: regenerate it from the same tree
    try:
        from translator import c02_hashspec
        from . import c02 as _c02
        c02_hashspec.main(pipeline.REPO, _c02.GEN_DIR, None)
    except Exception as e:  # C02's own check reports details; here only the composition build would break
        rep.notes.append('C02 hash-spec translator (needed by Composition.v) raised: %r' % (e,))
    global BUF
    BUF = info['hash_buffer_size']


# ------------------------------------------------------------------ timemacro

def tm_text(rng, n):
    """text over a small alphabet with planted patterns, near-patterns and NULs"""
    out = bytearray()
    while len(out) < n:
        k = rng.weighted([('pat', 5), ('near', 4), ('junk', 6), ('zero', 1), ('us', 3)])
        if k == 'pat':
            out += rng.choice(list(PATS.values()))
        elif k == 'near':
            p = rng.choice(list(PATS.values()))
            i = rng.below(len(p))
            out += p[:i] + rng.choice([b'x', b'', b'_', b'\0', p[i:i + 1] * 2]) + p[i + 1:]
        elif k == 'junk':
            out += bytes(rng.choice(b'xTIMEDASP_ \n') for _ in range(rng.range(1, 20)))
        elif k == 'zero':
            out += b'\0' * rng.range(1, 3)
        else:
            out += b'_' * rng.range(1, 3)
    return bytes(out)


def tm_split(rng, text, sizes):
    chunks = []
    i = 0
    while i < len(text):
        n = rng.weighted(sizes)
        if callable(n):
            n = n()
        n = max(1, n)
        chunks.append(text[i:i + n])
        i += n
    return chunks


def gen_timemacro(rng, tier):
    n = 15000 if tier == 'quick' else 150000
    small = [(1, 3), (2, 2), (3, 2), (4, 2), (5, 1), (7, 1), (8, 1), (11, 1), (12, 3), (13, 4), (14, 4), (15, 1), (20, 2), (26, 1), (27, 1), (40, 1)]
    out = []
    for i in range(n):
        text = tm_text(rng, rng.range(0, 60))
        mode = rng.below(4)
        if mode == 0:      # anything
            sizes = small
        elif mode == 1:    # mostly full-ish chunks with a few short reads
            sizes = [(14, 5), (16, 3), (13, 2), (1, 1), (4, 1), (30, 2)]
        elif mode == 2:    # all short
            sizes = [(1, 3), (2, 2), (3, 2), (5, 1), (12, 1), (13, 1)]
        else:              # one long first read then short ones (the S17 shape)
            k = rng.range(14, 30)
            out.append([text[:k]] + tm_split(rng, text[k:], [(1, 3), (2, 2), (4, 3), (12, 1)]) if len(text) > k else [text] if text else [])
            continue
        out.append(tm_split(rng, text, sizes))
    # regular-file chunkings: full HASH_BUFFER_SIZE reads, then the rest, patterns planted around the boundaries
    nbig = 6 if tier == 'quick' else 60
    for i in range(nbig):
        nfull = rng.range(1, 2)
        tail = rng.choice([0, 1, 5, 12, 13, 14, 40])
        body = bytearray(rng.choice(b'ab\0') for _ in range(1)) * (BUF * nfull + tail)
        for b in range(1, nfull + 1):
            p = rng.choice(list(PATS.values()))
            pos = b * BUF - rng.range(0, len(p))
            if pos + len(p) <= len(body):
                body[pos:pos + len(p)] = p
        if rng.chance(1, 2):   # ghost pattern: start of a chunk + end of the same chunk
            body[BUF - 4:BUF] = b'ME__'
            body[0:4] = b'__TI'
        body = bytes(body)
        out.append([body[j:j + BUF] for j in range(0, len(body), BUF)])
    return [c for c in out]


def tm_regular(case):
    return all(len(c) == BUF for c in case[:-1]) and all(0 < len(c) <= BUF for c in case)


def mon_timemacro(case, out):
    if not isinstance(out, list) or len(out) != 4:
        return ['malformed implementation output %r' % (out,)]
    whole = b''.join(case)
    vs = []
    for i, name in enumerate(['date', 'time', 'timestamp']):
        present = PATS[name] in whole
        if present and not out[i]:
            vs.append('time macro %s occurs in the file but the scan over reads of sizes %s missed it (false negative: '
                      'the result would be cached although it depends on the clock)' % (PATS[name].decode(), [len(c) for c in case]))
        if out[i] and not present:
            vs.append('scan reports %s over reads of sizes %s although the file does not contain it (the outcome depends '
                      'on how the bytes were split into reads)' % (PATS[name].decode(), [len(c) for c in case]))
    if not out[3]:
        vs.append('digest depends on how the bytes were split into reads')
    return vs


def stats_timemacro(case, out):
    whole = b''.join(case)
    ks = ['chunks=%d' % min(len(case), 12), 'regular' if tm_regular(case) else 'irregular']
    for name, p in PATS.items():
        if p in whole:
            ks.append('has_' + name)
    if isinstance(out, list) and len(out) == 4:
        for i, name in enumerate(['date', 'time', 'timestamp']):
            if out[i]:
                ks.append('flag_' + name)
    if any(len(c) < 13 for c in case):
        ks.append('short_read')
    return ks


def shrink_timemacro(case):
    for i in range(len(case)):
        yield case[:i] + case[i + 1:]
    for i in range(len(case) - 1):
        yield case[:i] + [case[i] + case[i + 1]] + case[i + 2:]
    for i, c in enumerate(case):
        if len(c) > 1:
            yield case[:i] + [c[1:]] + case[i + 1:]
            yield case[:i] + [c[:-1]] + case[i + 1:]


def neigh_timemacro(case):
    whole = b''.join(case)
    for p in PATS.values():
        for cut in range(1, len(p)):
            for pre in (b'', b'x' * 14, b'y' * 13):
                yield [c for c in [pre + p[:cut], p[cut:]] if c]
                yield [c for c in [pre + p[:cut], p[cut:cut + 1], p[cut + 1:]] if c]
    for i in range(1, len(whole)):
        yield [whole[:i], whole[i:]]


# ------------------------------------------------------------------ toonew

def gen_toonew(rng, tier):
    s = 1000
    opts = [[], [s - 1], [s], [s + 1]]
    return [[m, c, s] for m in opts for c in opts]


def mon_toonew(case, out):
    m, c, s = case
    want = (bool(m) and m[0] >= s) or (bool(c) and c[0] >= s)
    if bool(out) != want:
        return ['include_is_too_new(mtime=%s, ctime=%s, start=%d) = %s: a header written at/after the compile start would be recorded' % (m, c, s, out)]
    return []


# ------------------------------------------------------------------ ppkey
# The clause "... and the include-path-affecting arguments and environment are unchanged": the manifest a request is
# looked up in is chosen by preprocessor_cache_entry_hash_key, so two requests that differ in their hashed arguments,
# allow-listed variables, extra hashes, ++ flag or input file must never get the same key.  Variants of one case are
# derived from a common request by edits that keep the CONCATENATION of neighbouring items (split / merge / boundary
# shift, an item moving between the argument list, the extra hashes and the environment, name/value shifts between
# variables): if the separators of the encoding are weakened anywhere, such pairs collide.

ARG_TOKENS = [b'-Ifoo', b'-Ibar', b'-I', b'foo', b'bar', b'-include', b'cfg.h', b'-DA=1', b'-DB=2', b'-D', b'A=1',
              b'-isystem', b'/usr/x', b'-iquote', b'q', b'-U', b'X', b'-nostdinc', b'-std=c99', b'-m32', b'-Ifoo-Ibar',
              b'-I.', b'-I..', b'-imacros', b'm.h', b'-idirafter', b'd', b'-DA', b'=1', b'']
EXTRA_HASHES = [bytes('%064x' % (0xabc0 + i), 'ascii') for i in range(3)]
OTHER_ENV = [b'PATH', b'HOME', b'LANG', b'CPATHX', b'XCPATH', b'cpath', b'SCCACHE_DIRECT', b'TERM']
_ENV_PP = None


def env_pp_names():
    global _ENV_PP
    if _ENV_PP is None:
        from translator import c04_consts
        import tempfile
        with tempfile.TemporaryDirectory() as d:
            _ENV_PP = [n.encode() for n in c04_consts.generate(pipeline.REPO, os.path.join(d, 'x.v'))['env_pp']]
    return _ENV_PP


def ppkey_base(rng):
    names = env_pp_names()
    args = [rng.choice(ARG_TOKENS) for _ in range(rng.range(0, 5))]
    env = []
    for _ in range(rng.range(0, 4)):
        n = rng.choice(names) if rng.chance(2, 3) else rng.choice(OTHER_ENV)
        env.append([n, rng.choice([b'/a', b'/b', b'/a:/b', b'', b'1', b'/aC_INCLUDE_PATH=/b', b'x=y'])])
    extra = [rng.choice(EXTRA_HASHES) for _ in range(rng.weighted([(0, 4), (1, 2), (2, 1)]))]
    return dict(b=rng.choice(CONTENTS[:5] + CONTENTS[7:9]), d=b'', m=5, args=args, env=env, extra=extra, pp=0)


def ppkey_mutate(rng, v):
    """one edit of a request; most of them keep the concatenation of what is hashed"""
    names = env_pp_names()
    v = dict(v, args=list(v['args']), env=[list(e) for e in v['env']], extra=list(v['extra']))
    a, e, x = v['args'], v['env'], v['extra']
    allowed_idx = [i for i, kv in enumerate(e) if kv[0] in names]
    k = rng.weighted([('merge', 6), ('split', 6), ('shift', 6), ('empty_arg', 2), ('arg_to_env', 3), ('env_to_arg', 3),
                      ('env_merge', 5), ('env_shift', 3), ('arg_to_extra', 2), ('extra_to_arg', 2), ('env_other', 3),
                      ('swap', 2), ('drop', 2), ('add', 2), ('chg_val', 2), ('plusplus', 1), ('input', 1), ('env_swap', 1)])
    if k == 'merge' and len(a) >= 2:
        i = rng.below(len(a) - 1)
        a[i:i + 2] = [a[i] + a[i + 1]]
    elif k == 'split' and a:
        i = rng.below(len(a))
        if len(a[i]) >= 1:
            c = rng.range(0, len(a[i]))
            a[i:i + 1] = [a[i][:c], a[i][c:]]
    elif k == 'shift' and len(a) >= 2:
        i = rng.below(len(a) - 1)
        s = a[i] + a[i + 1]
        c = rng.range(0, len(s))
        a[i:i + 2] = [s[:c], s[c:]]
    elif k == 'empty_arg':
        a.insert(rng.range(0, len(a)), b'')
    elif k == 'arg_to_env' and a and b'=' in a[-1] and a[-1].split(b'=', 1)[0] in names and not x:
        n, val = a.pop().split(b'=', 1)      # last argument "CPATH=/a" becomes the first variable
        e.insert(0, [n, val])
    elif k == 'env_to_arg' and allowed_idx and allowed_idx[0] == 0 and not x:
        n, val = e.pop(0)
        a.append(n + b'=' + val)
    elif k == 'env_merge' and len(allowed_idx) >= 2:
        # (N1=V1)(N2=V2) -> N1 = V1 N2 "=" V2 : same bytes without separators
        i = rng.below(len(allowed_idx) - 1)
        i1, i2 = allowed_idx[i], allowed_idx[i + 1]
        if all(kv[0] not in names for kv in e[i1 + 1:i2]):
            e[i1][1] = e[i1][1] + e[i2][0] + b'=' + e[i2][1]
            del e[i2]
    elif k == 'env_shift' and allowed_idx:
        i = rng.choice(allowed_idx)
        val = e[i][1]
        for n in names:                      # N = V'N2=V2  ->  (N=V')(N2=V2)
            pos = val.find(n + b'=')
            if pos >= 0:
                e[i:i + 1] = [[e[i][0], val[:pos]], [n, val[pos + len(n) + 1:]]]
                break
    elif k == 'arg_to_extra' and a and len(a[-1]) >= 64 and a[-1][-64:] in EXTRA_HASHES:
        x.insert(0, a[-1][-64:])
        a[-1] = a[-1][:-64]
    elif k == 'extra_to_arg' and x:
        a.append((a.pop() if a else b'') + x.pop(0))
    elif k == 'env_other':
        e.insert(rng.range(0, len(e)), [rng.choice(OTHER_ENV), rng.choice([b'1', b'/a'])])   # must NOT change the key
    elif k == 'swap' and len(a) >= 2:
        i = rng.below(len(a) - 1)
        a[i], a[i + 1] = a[i + 1], a[i]
    elif k == 'drop' and a:
        del a[rng.below(len(a))]
    elif k == 'add':
        a.insert(rng.range(0, len(a)), rng.choice(ARG_TOKENS))
    elif k == 'chg_val' and allowed_idx:
        e[rng.choice(allowed_idx)][1] += rng.choice([b'x', b':/c'])
    elif k == 'plusplus':
        v['pp'] = 1 - v['pp']
    elif k == 'input':
        same = [c for c in BY_LEN[len(v['b'])] if c != v['b']]
        v['b'] = rng.choice(same) if same else rng.choice(CONTENTS)
    elif k == 'env_swap' and len(e) >= 2:
        i = rng.below(len(e) - 1)
        e[i], e[i + 1] = e[i + 1], e[i]
    return v


def ppkey_variant(v):
    return [v['b'], v['d'], v['m'], v['args'], v['env'], v['extra'], v['pp']]


def gen_ppkey(rng, tier):
    n = 300 if tier == 'quick' else 5000
    out = []
    # (a) input-file variants (contents / date / mtime), fixed request
    for _ in range(n):
        vs = []
        base = rng.choice(CONTENTS)
        for _ in range(rng.range(2, 6)):
            b = base if rng.chance(1, 2) else rng.choice(BY_LEN[len(base)] if rng.chance(1, 2) else CONTENTS)
            vs.append([b, rng.choice([b'', b'', b'1', b'2']), rng.choice([5, 5, 7]), [b'-Ifoo'], [], [], 0])
        out.append([1 if rng.chance(1, 3) else 0, vs])
    # (b) fixed witnesses of the class: same concatenation, different requests
    names = env_pp_names()
    w = lambda args, env=(), extra=(): [b'int a;\n', b'', 5, list(args), [list(kv) for kv in env], list(extra), 0]
    out.append([0, [w([b'-Ifoo', b'-Ibar']), w([b'-Ifoo-Ibar']), w([b'-Ifoo-', b'Ibar']), w([b'-Ifoo', b'', b'-Ibar'])]])
    out.append([0, [w([b'-I', b'foo', b'-include', b'cfg.h']), w([b'-I', b'foo-include', b'cfg.h']), w([b'-Ifoo-includecfg.h'])]])
    out.append([0, [w([b'-DA=1', b'-DB=2']), w([b'-DA=1-DB=2']), w([b'-DA', b'=1-DB=2'])]])
    if b'CPATH' in names and b'C_INCLUDE_PATH' in names:
        out.append([0, [w([], [[b'CPATH', b'/a'], [b'C_INCLUDE_PATH', b'/b']]), w([], [[b'CPATH', b'/aC_INCLUDE_PATH=/b']]),
                        w([b'CPATH=/a'], [[b'C_INCLUDE_PATH', b'/b']]), w([b'CPATH=/aC_INCLUDE_PATH=/b'])]])
    out.append([0, [w([b'-Ifoo' + EXTRA_HASHES[0]]), w([b'-Ifoo'], [], [EXTRA_HASHES[0]]), w([b'-Ifoo'], [], [])]])
    # (c) PRNG: 2-6 requests derived from a common one by concatenation-preserving and ordinary edits
    for _ in range(4 * n):
        base = ppkey_base(rng)
        vs = [base]
        for _ in range(rng.range(1, 5)):
            src = rng.choice(vs)
            v = ppkey_mutate(rng, src)
            if rng.chance(1, 3):
                v = ppkey_mutate(rng, v)
            vs.append(v)
        out.append([1 if rng.chance(1, 5) else 0, [ppkey_variant(v) for v in vs]])
    return out


def ppkey_relevant(itm, v, names):
    b, d, m, args, env, extra, pp = v
    if itm:
        inp = (b,)
    else:
        inp = (b, d if PATS['date'] in b else None, m if PATS['timestamp'] in b else None)
    return (inp, tuple(args), tuple((n, val) for n, val in env if n in names), tuple(extra), int(bool(pp)))


def mon_ppkey(case, out):
    """two requests get the same manifest key only if their hashed argument LISTS, allow-listed variables, extra
    hashes, ++ flag and input file (with its date-dependent expansions) are the same - and then they do"""
    itm, vs = case
    if not isinstance(out, list) or len(out) != len(vs):
        return ['malformed implementation output %r' % (out,)]
    names = env_pp_names()
    res = []
    rel = [ppkey_relevant(itm, v, names) for v in vs]
    for i, (v, c) in enumerate(zip(vs, out)):
        disabled = (not itm) and PATS['time'] in v[0]
        if disabled != (c == 0):
            res.append('variant %d: input %r: direct mode %s' % (i, v[0], 'not disabled although it mentions __TIME__' if disabled else 'disabled without __TIME__'))
            continue
        if c == 0:
            continue
        for j in range(i):
            if out[j] == 0:
                continue
            same_key = out[j] == c
            if same_key and rel[j] != rel[i]:
                what = [n for n, x, y in zip(('input file', 'arguments', 'allow-listed environment', 'extra hashes', '++'), rel[j], rel[i]) if x != y]
                res.append('requests %d and %d share a preprocessor-cache (manifest) key although their %s differ: a request with '
                           'changed include-path-affecting inputs would be answered from the other one\'s manifest: args %r env %r extra %d '
                           'vs args %r env %r extra %d' % (j, i, ' / '.join(what), vs[j][3], vs[j][4], len(vs[j][5]), v[3], v[4], len(v[5])))
            if not same_key and rel[j] == rel[i]:
                res.append('requests %d and %d have different manifest keys although nothing that is hashed differs (%r)' % (j, i, v))
    return res[:4]


def stats_ppkey(case, out):
    itm, vs = case
    names = env_pp_names()
    ks = ['variants=%d' % len(vs)]
    rel = [ppkey_relevant(itm, v, names) for v in vs]
    cat = lambda v: b''.join(v[3]) + b''.join(v[5]) + b''.join(n + b'=' + val for n, val in v[4] if n in names)
    for i in range(len(vs)):
        for j in range(i):
            if rel[i] != rel[j] and cat(vs[i]) == cat(vs[j]) and rel[i][0] == rel[j][0] and rel[i][4] == rel[j][4]:
                ks.append('pair=same_concatenation_different_request')
            elif rel[i] != rel[j]:
                ks.append('pair=different')
            else:
                ks.append('pair=equal_request')
    return ks


def shrink_ppkey(case):
    itm, vs = case
    for i in range(len(vs)):
        if len(vs) > 2:
            yield [itm, vs[:i] + vs[i + 1:]]
    for i, v in enumerate(vs):
        for f in (3, 4, 5):
            for k in range(len(v[f])):
                v2 = list(v)
                v2[f] = v[f][:k] + v[f][k + 1:]
                yield [itm, vs[:i] + [v2] + vs[i + 1:]]


def neigh_ppkey(case):
    """around a disagreement: every neighbouring pair of arguments merged / every argument split"""
    itm, vs = case
    for v in vs:
        a = v[3]
        for i in range(len(a) - 1):
            v2 = list(v)
            v2[3] = a[:i] + [a[i] + a[i + 1]] + a[i + 2:]
            yield [itm, [v, v2]]
        for i in range(len(a)):
            for c in range(1, len(a[i])):
                v2 = list(v)
                v2[3] = a[:i] + [a[i][:c], a[i][c:]] + a[i + 1:]
                yield [itm, [v, v2]]
        names = env_pp_names()
        al = [i for i, kv in enumerate(v[4]) if kv[0] in names]
        for x, y in zip(al, al[1:]):
            e = [list(kv) for kv in v[4]]
            e[x][1] = e[x][1] + e[y][0] + b'=' + e[y][1]
            del e[y]
            v2 = list(v)
            v2[4] = e
            yield [itm, [v, v2]]


# ------------------------------------------------------------------ ppcache

CONTENTS = [
    # (bytes, tag) — groups of equal length allow same-size edits, also across "mentions a time macro or not"
    b'int a;\n', b'int b;\n', b'int c;\n',
    b'int abc;\n', b'int xyz;\n',
    b'', b'\n',
    b'__DATE__', b'__DATA__', b'__TIME__', b'__TIMA__',
    b'// __DATE__\nint a;\n', b'// __DATE__\nint b;\n', b'// __DATA__\nint a;\n', b'// __TIME__\nint a;\n',
    b'// __TIMESTAMP__ a\n', b'// __TIMESTAMP__ b\n', b'// __TIMESTAMQ__ a\n',
    b'__DATE__ __TIMESTAMP__ 1', b'__DATE__ __TIMESTAMP__ 2', b'__DATA__ __TIMESTAMP__ 1',
    b'#define LONG_HEADER_OF_FORTY_BYTES___ 1\n', b'#define LONG_HEADER_OF_FORTY_BYTES___ 2\n',   # 40 = empty tmpfs directory
    b'#define HEADER_WITH_EXACTLY_SIXTY_BYTES_IN_IT__ __DATE__ 1\n\n',                               # 60 = directory with one entry
]
assert len(CONTENTS[-3]) == 40 and len(CONTENTS[-1]) == 60, (len(CONTENTS[-3]), len(CONTENTS[-1]))
BY_LEN = {}
for _c in CONTENTS:
    BY_LEN.setdefault(len(_c), []).append(_c)
HEADERS = [b'a.h', b'b.h', b'c.h', b'd.h']
DATES = [b'', b'', b'', b'1', b'86400']


def mt(off100, j):
    return (500 + off100) * 1000 + 10 * j


def start_of(j):
    return 500000 + 10 * j


class FsSim:
    """python-side replica of the snapshot semantics of Run/C04.v (for generation, stats and the monitor)"""

    def __init__(self):
        self.files = {}

    def apply(self, j, files, is_rec):
        for name, kind, b, m, cnew in files:
            ct = start_of(j) + 3 if (is_rec and cnew) else start_of(j) - 3
            if kind == 2:
                self.files.pop(name, None)
            else:
                self.files[name] = dict(kind=kind, bytes=b if kind == 0 else b'', mtime=m, ctime=ct,
                                        size=len(b) if kind == 0 else (40 + 20 * len(b) if kind == 1 else 0))

    def regular(self, name):
        f = self.files.get(name)
        return f if f and f['kind'] == 0 else None


def gen_edit(rng, sim, j, name):
    """one edit of header `name` in step j -> (file entry, tag)"""
    f = sim.files.get(name)
    new_m = mt(rng.choice([-5, -3, -1]), j)
    if f is None or f['kind'] != 0:
        return [name, 0, rng.choice(CONTENTS), new_m, 0], 'create'
    b, m = f['bytes'], f['mtime']
    same = [c for c in BY_LEN.get(len(b), []) if c != b]
    kind = rng.weighted([('same_size', 8), ('same_size_backdate', 6), ('size_change', 4), ('touch', 3), ('touch_same', 4),
                         ('delete', 2), ('to_dir', 2), ('to_fifo_sized', 0), ('rewrite_same', 2)])
    if kind in ('same_size', 'same_size_backdate') and not same:
        kind = 'size_change'
    if kind == 'same_size':
        return [name, 0, rng.choice(same), new_m, 0], kind
    if kind == 'same_size_backdate':
        return [name, 0, rng.choice(same), m, 0], kind
    if kind == 'size_change':
        return [name, 0, rng.choice([c for c in CONTENTS if len(c) != len(b)]), rng.choice([m, new_m]), 0], kind
    if kind == 'touch':
        return [name, 0, b, new_m, 0], kind
    if kind in ('touch_same', 'rewrite_same'):
        return [name, 0, b, m, 0], 'touch_same'
    if kind == 'delete':
        return [name, 2, b'', 0, 0], kind
    # directory of the same st_size when possible
    if len(b) >= 40 and (len(b) - 40) % 20 == 0:
        return [name, 1, b'x' * ((len(b) - 40) // 20), m, 0], 'to_dir_same_size'
    return [name, 1, b'', m, 0], 'to_dir'


def gen_ppcache_case(rng, dates=None, contents=None):
    dates = dates or DATES
    sim = FsSim()
    steps = []
    nrec = rng.weighted([(1, 7), (2, 3), (3, 1)])
    nlook = rng.weighted([(1, 6), (2, 2)])
    hdrs = rng.shuffle(HEADERS)[:rng.range(1, 4)]
    j = 0
    for r in range(nrec):
        files = []
        if r == 0:
            for h in hdrs:
                off = rng.weighted([(-10, 10), (-1, 4), (0, 1), (1, 1)])
                cnew = 1 if rng.chance(1, 14) else 0
                files.append([h, 0, rng.choice(CONTENTS), mt(off, j), cnew])
            if rng.chance(1, 3):
                files.append([b'sys.h', 0, rng.choice(CONTENTS[:5]), mt(-10, j), 0])
            if rng.chance(1, 4):
                files.append([b'input.c', 0, b'int main;\n', mt(-10, j), 0])
            if rng.chance(1, 6):
                files.append([b'dir', 1, b'', mt(-10, j), 0])
            if rng.chance(1, 25):
                files.append([b'fifo', 3, b'', mt(-10, j), 0])
        else:
            for _ in range(rng.range(0, 2)):
                e, _tag = gen_edit(rng, sim, j, rng.choice(hdrs))
                if rng.chance(1, 10):
                    e[4] = 1
                if rng.chance(1, 10) and e[1] == 0:
                    e[3] = mt(rng.choice([0, 1]), j)
                files = [f for f in files if f[0] != e[0]] + [e]
        sim.apply(j, files, True)
        incs = [[h, 0] for h in hdrs if rng.chance(9, 10)]
        if b'sys.h' in sim.files:
            incs.append([b'sys.h', 1])
        if rng.chance(1, 4):
            incs.append([b'input.c', 0])
        if b'dir' in sim.files and rng.chance(1, 2):
            incs.append([b'dir', 0])
        if b'fifo' in sim.files and rng.chance(1, 2):
            incs.append([b'fifo', 0])
        if rng.chance(1, 5):
            incs.append([b'<built-in>', 0])
        if rng.chance(1, 30):
            incs.append([b'missing.h', 0])
        if incs and rng.chance(1, 3):
            incs.append(list(rng.choice(incs)))
        incs = rng.shuffle(incs)
        fresh = 1 if (r == 0 or rng.chance(1, 2)) else 0
        key = rng.choice([b'k0', b'k1', b'k2']) if r else b'k1'
        step = [b'rec', fresh, rng.choice(dates), key, incs, files]
        if rng.chance(1, 7):
            # the window of generate_hash_key: a recorded header is removed after the recorder hashed it and before
            # add_result stats it; it comes back later (gen_edit: 'create')
            present = [h for h in hdrs if sim.regular(h)]
            if present:
                gone = [rng.choice(present)]
                if rng.chance(1, 4) and b'sys.h' in sim.files:
                    gone.append(b'sys.h')
                step.append(gone)
                for g in gone:
                    sim.files.pop(g, None)
        elif rng.chance(1, 6):
            # ... or REWRITTEN in that window (after the start instant), typically at the same size and possibly with
            # the old mtime restored: add_result must not store its new stat data next to the old digest
            present = [h for h in hdrs if sim.regular(h)]
            if present:
                h = rng.choice(present)
                f = sim.regular(h)
                same = [c for c in BY_LEN.get(len(f['bytes']), []) if c != f['bytes']]
                nb = rng.choice(same) if same and rng.chance(4, 5) else rng.choice(CONTENTS)
                ent = [h, 0, nb, f['mtime'] if rng.chance(1, 2) else mt(rng.choice([-5, 0, 1]), j), 1]
                step.append([ent])
                sim.apply(j, [ent], True)
        steps.append(step)
        j += 1
    for l in range(nlook):
        files = []
        for _ in range(rng.weighted([(0, 3), (1, 8), (2, 3)])):
            e, _tag = gen_edit(rng, sim, j, rng.choice(hdrs + ([b'sys.h'] if b'sys.h' in sim.files else [])))
            files = [f for f in files if f[0] != e[0]] + [e]
        sim.apply(j, files, False)
        steps.append([b'look', rng.choice(dates), files])
        j += 1
    return steps


def gen_limits_case(n, nhdr):
    """more than MAX_PREPROCESSOR_CACHE_ENTRIES results / MAX_..._FILE_INFO_ENTRIES includes in one entry"""
    files = [[b'h%03d.h' % i, 0, b'int h%d;\n' % i, mt(-10, 0), 0] for i in range(nhdr)]
    incs = [[f[0], 0] for f in files]
    steps = [[b'rec', 1, b'', b'r000', incs, files]]
    for i in range(1, n):
        steps.append([b'rec', 0, b'', b'r%03d' % i, incs, []])
    steps.append([b'look', b'', []])
    steps.append([b'look', b'', [[files[-1][0], 0, b'int hX;\n'[:len(files[-1][2])].ljust(len(files[-1][2]), b' '), mt(-10, 0), 0]]])
    return steps


DATES_TZ = [b'@A', b'@A', b'@B']      # the server's time zone: UTC-12 / UTC+14, i.e. two different LOCAL calendar days


def gen_ppcache(rng, tier):
    n = 2500 if tier == 'quick' else 30000
    # the calendar day behind __DATE__ is the LOCAL one: a few cases run the server in two time zones (each switch costs
    # the harness 1.25 s, chrono caches TZ for a second); generated from their own PRNG stream, placed first
    rtz = rng.fork('tz')
    ntz = 24 if tier == 'quick' else 160
    out = []
    for _ in range(ntz):
        c = gen_ppcache_case(rtz, dates=DATES_TZ)
        # make a recorded header mention __DATE__ (otherwise the day does not matter)
        for f in c[0][5]:
            if f[1] == 0 and f[0] in HEADERS:
                f[2] = rtz.choice([b'// __DATE__\nint a;\n', b'__DATE__', b'__DATE__ __TIMESTAMP__ 1', b'int a;\n'])
                break
        out.append(c)
    out += [gen_ppcache_case(rng) for _ in range(n)]
    out.append(gen_limits_case(104, 2))
    if tier != 'quick':
        out.append(gen_limits_case(103, 101))
    return out


def pp_walk(case):
    """yield (j, step, sim_before, sim_after) with python-side snapshots; for a rec step `after` is the file system
    the include recorder saw (files that vanish before add_result are still there)"""
    sim = FsSim()
    for j, st in enumerate(case):
        before = {k: dict(v) for k, v in sim.files.items()}
        if st[0] == b'rec':
            sim.apply(j, st[5], True)
        else:
            sim.apply(j, st[2], False)
        yield j, st, before, {k: dict(v) for k, v in sim.files.items()}
        if st[0] == b'rec' and len(st) > 6:
            for v in st[6]:
                if isinstance(v, list):
                    sim.apply(j, [v], True)      # rewritten in the window (cnew = 1: after the start instant)
                else:
                    sim.files.pop(v, None)


def mon_ppcache(case, out):
    """The property itself on the real implementation's answers: an accepted lookup implies that every include
    recorded for the returned result still has its recorded bytes (and, unless ignore_time_macros, that the
    __DATE__/__TIMESTAMP__ expansions it mentions are unchanged)."""
    if not isinstance(out, list) or len(out) != 32 or out[0] in (b'panic', b'harness_error'):
        return ['malformed implementation output %s' % sx.dumps(out)[:300]]
    vs = []
    walk = list(pp_walk(case))
    for ci, per in enumerate(out):
        itm = bool(ci & 4)
        ssh = bool(ci & 2)
        if len(per) != len(case):
            vs.append('config %d: %d step results for %d steps' % (ci, len(per), len(case)))
            continue
        recorded = {}   # key -> (expected names -> (bytes, mtime), date) from the python-side snapshot
        prev_view = []
        for (j, st, before, after), o in zip(walk, per):
            if st[0] == b'rec':
                view = [tuple(kv) for kv in o[3]]
                if o[1] == b'unstored':
                    if st[1]:
                        recorded = {}
                    # all or nothing: a result must not be stored with an include list that lacks a header that was read
                    extra = [kv for kv in view if kv not in prev_view]
                    if extra:
                        vs.append('config %d step %d: %s could not be stat\'ed any more when the result was added, but a result '
                                  'was stored anyway: %s (before: %s) - the missing header will never be checked by a lookup'
                                  % (ci, j, [n.decode() if isinstance(n, bytes) else n[0].decode() for n in st[6]] if len(st) > 6 else '?',
                                     [(k.decode(), n) for k, n in extra], [(k.decode(), n) for k, n in prev_view]))
                prev_view = view
                if o[1] == b'ok':
                    names = {}
                    for name, sysflag in st[4]:
                        f = after.get(name)
                        if f and f['kind'] == 0 and name != b'input.c' and not (sysflag and ssh) and not name.startswith(b'<'):
                            names[name] = (f['bytes'], f['mtime'])
                    if st[1]:
                        recorded = {}
                    recorded[st[3]] = (names, st[2])
                    for name, (b, m) in names.items():
                        f = after[name]
                        if f['mtime'] >= start_of(j) or f['ctime'] >= start_of(j):
                            vs.append('config %d step %d: result recorded although %s was written at/after the compile start' % (ci, j, name.decode()))
                        if not itm and PATS['time'] in b:
                            vs.append('config %d step %d: result recorded although %s mentions __TIME__' % (ci, j, name.decode()))
                continue
            if o[1] != b'hit':
                continue
            key, incs, date_changed = o[3], o[4], o[5]
            for name, changed, has_date, has_ts, mchanged in incs:
                if changed:
                    vs.append('config %d step %d: lookup accepted result %s although include %s no longer has its recorded bytes'
                              % (ci, j, key.decode(), name.decode()))
                if not itm and has_date and date_changed:
                    vs.append('config %d step %d: lookup accepted result %s although %s mentions __DATE__ and the date changed'
                              % (ci, j, key.decode(), name.decode()))
                if not itm and has_ts and mchanged:
                    vs.append('config %d step %d: lookup accepted result %s although %s mentions __TIMESTAMP__ and its mtime changed'
                              % (ci, j, key.decode(), name.decode()))
            # independent ground truth from the case itself
            if key not in recorded:
                vs.append('config %d step %d: lookup returned %s which was never recorded' % (ci, j, key.decode()))
                continue
            names, date0 = recorded[key]
            got = set(i[0] for i in incs)
            for name, (b, m) in names.items():
                f = after.get(name)
                if name not in got:
                    vs.append('config %d step %d: include %s was read when %s was recorded but is not in the manifest' % (ci, j, name.decode(), key.decode()))
                if not f or f['kind'] != 0 or f['bytes'] != b:
                    vs.append('config %d step %d: lookup accepted %s although %s changed (case-derived ground truth)' % (ci, j, key.decode(), name.decode()))
                elif not itm:
                    if PATS['date'] in b and date0 != st[1]:
                        vs.append('config %d step %d: lookup accepted %s, %s mentions __DATE__, date changed (case-derived)' % (ci, j, key.decode(), name.decode()))
                    if PATS['timestamp'] in b and f['mtime'] != m:
                        vs.append('config %d step %d: lookup accepted %s, %s mentions __TIMESTAMP__, mtime changed (case-derived)' % (ci, j, key.decode(), name.decode()))
    return vs[:6]


def edit_tags(case):
    tags = []
    for st in case:
        if st[0] == b'rec' and len(st) > 6:
            for v in st[6]:
                tags.append('rewritten_before_add_result' if isinstance(v, list) else 'vanish_before_add_result')
    if any(st[0 if False else 2 if st[0] == b'rec' else 1][:1] == b'@' for st in case):
        tags.append('time_zone_dates')
    for j, st, before, after in pp_walk(case):
        files = st[5] if st[0] == b'rec' else st[2]
        if j == 0:
            continue
        for name, kind, b, m, cnew in files:
            old = before.get(name)
            if old is None:
                tags.append('create')
            elif kind == 2:
                tags.append('delete')
            elif kind == 1:
                tags.append('to_dir_same_size' if old['size'] == 40 + 20 * len(b) else 'to_dir')
            elif old['kind'] != 0:
                tags.append('recreate')
            elif old['bytes'] == b:
                tags.append('touch_same_mtime' if old['mtime'] == m else 'touch')
            elif len(old['bytes']) == len(b):
                tags.append('same_size_backdated' if old['mtime'] == m else 'same_size')
            else:
                tags.append('size_change')
            if kind == 0 and old is not None and old['kind'] == 0:
                for pn, p in PATS.items():
                    if (p in b) != (p in old['bytes']):
                        tags.append('toggles_' + pn)
    return tags


def stats_ppcache(case, out):
    ks = ['steps=%d' % min(len(case), 6)]
    ks += ['edit=' + t for t in edit_tags(case)]
    try:
        for ci, per in enumerate(out):
            for o in per:
                if o[0] == b'r':
                    ks.append('rec=' + o[1].decode())
                else:
                    ks.append('look=' + o[1].decode())
    except Exception:
        ks.append('malformed')
    return ks


def nontrivial_ppcache(case, out):
    try:
        return any(o[0] == b'r' and o[1] == b'ok' for per in out for o in per)
    except Exception:
        return True


def shrink_ppcache(case):
    for i in range(len(case) - 1):
        yield case[:i] + case[i + 1:]
    for i, st in enumerate(case):
        fi = 5 if st[0] == b'rec' else 2
        for k in range(len(st[fi])):
            s2 = list(st)
            s2[fi] = st[fi][:k] + st[fi][k + 1:]
            yield case[:i] + [s2] + case[i + 1:]
        if st[0] == b'rec':
            for k in range(len(st[4])):
                s2 = list(st)
                s2[4] = st[4][:k] + st[4][k + 1:]
                yield case[:i] + [s2] + case[i + 1:]
            if len(st) > 6:
                yield case[:i] + [list(st[:6])] + case[i + 1:]


def neigh_ppcache(case):
    """model-guided family around a disagreement: every recorded header gets every same-size replacement (with
    and without backdating) in the last lookup step, and the date is changed"""
    walk = list(pp_walk(case))
    if not walk or case[-1][0] != b'look':
        return
    j, st, before, after = walk[-1]
    for name, f in before.items():
        if f['kind'] != 0:
            continue
        for c in BY_LEN.get(len(f['bytes']), []):
            if c == f['bytes']:
                continue
            for m in (f['mtime'], mt(-5, j)):
                yield case[:-1] + [[b'look', st[1], [[name, 0, c, m, 0]]]]
    for d in (b'', b'1', b'7'):
        yield case[:-1] + [[b'look', d, st[2]]]


# ------------------------------------------------------------------ linemarker

R0 = b'/dev/shm/vh-c04l-AAAAAA'
LM_START = 5000


def lm_tree(rng):
    """a small source tree below R0; returns (cwd, input, files)"""
    cwd = R0 + b'/w'
    old = LM_START - 10
    files = [
        [cwd + b'/input.c', 0, b'int main;\n', old, 0],
        [cwd + b'/a.h', 0, rng.choice(CONTENTS), old, 0],
        [cwd + b'/sub/b.h', 0, rng.choice(CONTENTS), old, 0],
        [R0 + b'/inc/c.h', 0, rng.choice(CONTENTS), old, 0],
        [cwd + b'/inc/c.h', 0, b'int shadow;\n', old, 0],
        [cwd + b'/sub', 1, b'', old, 0],
        [cwd, 1, b'', old, 0],
        [R0 + b'/inc/sys.h', 0, b'int sys;\n', old, 0],
    ]
    if rng.chance(1, 8):
        files[rng.range(1, 3)][3] = LM_START + rng.choice([0, 1])   # too new
    if rng.chance(1, 20):
        files.append([cwd + b'/fifo', 3, b'', old, 0])
    return cwd, cwd + b'/input.c', files


LM_PATHS = [b'a.h', b'./a.h', b'sub/b.h', b'sub/../a.h', b'sub/./b.h', b'sub//b.h', b'../inc/c.h', b'inc/c.h',
            R0 + b'/inc/c.h', R0 + b'/inc/../inc/c.h', R0 + b'/inc/sys.h', b'<built-in>', b'<command-line>',
            R0 + b'/w', b'.', b'sub', b'nope.h', b'input.c', R0 + b'/w/input.c', b'./input.c', b'fifo', b'a.h']


def lm_line(rng):
    k = rng.weighted([('marker', 12), ('body', 8), ('hashbody', 3), ('line', 2), ('pragma', 1), ('gcc6', 2),
                      ('incbin', 1), ('distcc', 1), ('bad', 2), ('empty', 1)])
    p = rng.choice(LM_PATHS)
    if k == 'marker':
        fl = rng.choice([b'', b'', b' 1', b' 2', b' 3', b' 1 3', b' 1 3 4', b' 2 3'])
        return b'# %d "%s"%s' % (rng.range(1, 40), p, fl)
    if k == 'line':
        return b'#line %d "%s"' % (rng.range(1, 40), p)
    if k == 'pragma':
        return b'#pragma GCC pch_preprocess "%s"' % p
    if k == 'gcc6':
        return rng.choice([b'# 31 "<command-line>"', b'# 32 "<command-line>" 2', b'# 3 "a.h"', b'# 31 "a.h"'])
    if k == 'body':
        return rng.choice([b'int x = 1;', b'', b'typedef int t; # 1 "nope.h"', b'char *s = "# 1 \\"x\\"";', b'  # 3 "nope.h"',
                           b'extern int f(void);', b'x'])
    if k == 'hashbody':
        return rng.choice([b'#pragma once', b'#  pragma pack(1)', b'#pragma GCC diagnostic push', b'#', b'# ', b'#line', b'# x "nope.h"',
                           b'#ident "v"'])
    if k == 'incbin':
        return rng.choice([b'asm(".incbin \\"blob\\"");', b' .incbin "blob"', b'.incbin"blob"', b'.incbinx', b'.incbin  "blob"'])
    if k == 'distcc':
        return rng.choice([b'__________Using distcc-pump from /usr/bin', b'___________', b'__________', b' ___________x'])
    if k == 'bad':
        return rng.choice([b'# 1 "a.h', b'# 1 a.h', b'# 1 ""', b'# 1 "', b'# 12', b'#line 3', b'# 1 "a.h" "b"'])
    return b''


def gen_lm_suffix(rng, n):
    """the wrapper idiom: the input is sub/x.c (relative to the working directory) and includes "../x.c" - a file whose
    path relative to the working directory is a component-wise SUFFIX of the input path but which is not the input"""
    out = []
    old = LM_START - 10
    for _ in range(n):
        cwd = R0 + b'/w'
        depth = rng.choice([[b'sub'], [b'arch', b'sub'], [b'gen']])
        inp = cwd + b'/' + b'/'.join(depth) + b'/x.c'
        files = [[inp, 0, b'#include "../x.c"\n', old, 0],
                 [cwd + b'/x.c', 0, rng.choice(CONTENTS[:5]), old, 0],
                 [cwd + b'/' + depth[-1] + b'/x.c', 0, rng.choice(CONTENTS[:5]), old, 0],
                 [cwd + b'/' + b'/'.join(depth) + b'/tune.h', 0, b'#define TUNE 10\n', old, 0],
                 [cwd, 1, b'', old, 0]]
        files = [f for i, f in enumerate(files) if f[0] not in [g[0] for g in files[:i]]]
        rel = b'/'.join(depth) + b'/x.c'
        paths = [rel, b'x.c', depth[-1] + b'/x.c', b'/'.join(depth) + b'/../x.c', b'./x.c', b'./' + rel,
                 b'/'.join(depth) + b'/tune.h', inp, cwd + b'/x.c', b'<built-in>']
        lines = [b'# 1 "%s"' % rel]
        for _ in range(rng.range(1, 6)):
            lines.append(b'# %d "%s"%s' % (rng.range(1, 30), rng.choice(paths), rng.choice([b'', b' 1', b' 2'])))
            if rng.chance(1, 2):
                lines.append(rng.choice([b'int value = TUNE + 1;', b'', b'extern int f(void);']))
        out.append([rng.choice([9, 8, 11, 13]), LM_START, b'', cwd, inp, b'\n'.join(lines) + b'\n', files])
    return out


def gen_lm_random(rng, n):
    out = []
    for _ in range(n):
        cwd, inp, files = lm_tree(rng)
        lines = [lm_line(rng) for _ in range(rng.range(1, 9))]
        text = b'\n'.join(lines)
        if rng.chance(5, 6):
            text += b'\n'
        if rng.chance(1, 6):
            text += rng.choice([b'x', b'int y;', b'# 1 "a.h"', b'# 1 "a.', b'___________', b'12345678'])
        out.append([rng.below(32), LM_START, rng.choice(DATES), cwd, inp, text, files])
    return out


def gen_lm_real(rng, tier):
    """real `gcc -E` / `clang -E` output for a small translation unit in the scratch tree layout"""
    import shutil
    import subprocess
    import tempfile
    out = []
    for cc in ('gcc', 'clang'):
        if not shutil.which(cc):
            continue
        d = tempfile.mkdtemp(prefix='vh-c04l-', dir='/dev/shm')
        try:
            w = os.path.join(d, 'w')
            os.makedirs(os.path.join(w, 'sub'))
            os.makedirs(os.path.join(d, 'inc'))
            srcs = {
                'w/input.c': b'#include <stddef.h>\n#include "a.h"\n#include "sub/b.h"\n#include "c.h"\nint main(void) { return A + B + C; }\n',
                'w/a.h': b'#pragma once\n#define A 1\n', 'w/sub/b.h': b'#include "../a.h"\n#define B 2\n', 'inc/c.h': b'#define C 3\n'}
            for n, b in srcs.items():
                open(os.path.join(d, n), 'wb').write(b)
            for args in (['-E', 'input.c', '-I../inc'], ['-E', 'input.c', '-I', os.path.join(d, 'inc')], ['-E', './input.c', '-I../inc', '-P']):
                r = subprocess.run([cc] + args, cwd=w, stdout=subprocess.PIPE, stderr=subprocess.DEVNULL, timeout=60)
                if r.returncode != 0:
                    continue
                text = r.stdout.replace(d.encode(), R0)
                files = [[R0 + b'/' + n.encode(), 0, b, LM_START - 10, 0] for n, b in srcs.items()]
                files += [[R0 + b'/w', 1, b'', LM_START - 10, 0], [R0 + b'/w/sub', 1, b'', LM_START - 10, 0]]
                import re as _re
                for m in set(_re.findall(rb'^# \d+ "(/[^"]+)"', text, _re.M)):
                    if m.startswith(R0):
                        continue
                    if os.path.isfile(m):
                        files.append([m, 0, open(m, 'rb').read(), LM_START - 10, 1])
                    elif os.path.isdir(m):
                        files.append([m, 1, b'', LM_START - 10, 1])
                for ci in (9, 11):
                    out.append([ci, LM_START, b'', R0 + b'/w', R0 + b'/w/input.c', text, files])
        finally:
            shutil.rmtree(d, ignore_errors=True)
    return out


def gen_linemarker(rng, tier):
    return (gen_lm_real(rng, tier) + gen_lm_random(rng, 3000 if tier == 'quick' else 40000)
            + gen_lm_suffix(rng.fork('suffix'), 400 if tier == 'quick' else 4000))


def lm_markers(text):
    """independent reading of the line markers: (path, system) for every line `# N "path" flags` / `#line N "path"`"""
    import re as _re
    res = []
    for line in text.split(b'\n'):
        m = _re.match(rb'^(?:# (?=\d)|#line |#pragma GCC pch_preprocess)[^"]*"([^"]+)"(.*)$', line)
        if m:
            res.append((m.group(1), b'3' in m.group(2)))
    return res


def lm_canon(cwd, p):
    """lexical canonical absolute path (what the OS would open, no symlinks)"""
    if not p.startswith(b'/'):
        p = cwd + b'/' + p
    out = []
    for seg in p.split(b'/'):
        if seg in (b'', b'.'):
            continue
        if seg == b'..':
            if out:
                out.pop()
            continue
        out.append(seg)
    return b'/' + b'/'.join(out)


def mon_linemarker(case, out):
    """completeness of the recorder: when it accepts the text, every regular file announced by a well-formed line
    marker (other than the input file and skipped system headers) is among the recorded paths"""
    ci, start, date, cwd, inp, text, files = case
    if not isinstance(out, list) or not out:
        return ['malformed implementation output']
    if out[0] == b'panic':
        return ['process_preprocessed_file panicked on this preprocessor output']
    if out[0] != b'ok':
        return []
    # the scanner stops 7 bytes before the end and reads paths up to the next quote: only judge lines that are
    # complete and lie before that point; the GCC-6 workaround lines are special
    body = text[:max(0, len(text) - 8)]
    body = body[:body.rfind(b'\n') + 1] if b'\n' in body else b''
    if b'"<command-line>"' in text and (b'# 31 ' in text or b'# 32 ' in text):
        return []
    fsd = {f[0]: f for f in files}
    ssh = bool(ci & 2)
    rec = set(lm_canon(b'/', r) for r in out[1])     # recorded PathBufs keep `..`; the OS resolves it
    vs = []
    for p, system in lm_markers(body):
        if p.startswith(b'<') and p.endswith(b'>'):
            continue
        if system and ssh:
            continue
        c = lm_canon(cwd, p)
        f = fsd.get(c)
        if c == inp or f is None or f[1] != 0:
            continue
        if c not in rec:
            vs.append('line marker announces %s (regular file %s) but the recorder accepted the text without recording it (recorded: %s)'
                      % (p.decode('latin-1'), c.decode('latin-1'), [r.decode('latin-1') for r in sorted(rec)]))
    return vs[:3]


def stats_linemarker(case, out):
    ks = ['res=' + (out[0].decode() if isinstance(out, list) and out else 'malformed')]
    ks.append('markers=%d' % min(len(lm_markers(case[5])), 8))
    if case[6] and any(f[4] for f in case[6]):
        ks.append('real_compiler_output')
    return ks


def shrink_linemarker(case):
    ci, start, date, cwd, inp, text, files = case
    lines = text.split(b'\n')
    for i in range(len(lines)):
        yield [ci, start, date, cwd, inp, b'\n'.join(lines[:i] + lines[i + 1:]), files]
    for i in range(len(files)):
        yield [ci, start, date, cwd, inp, text, files[:i] + files[i + 1:]]


# ------------------------------------------------------------------ timestamp (Timestamp::from(SystemTime), also before 1970)

TS_BASE = 1000000 * 10**9      # instants are given in ns after 1_000_000 s BEFORE the Unix epoch


def gen_timestamp(rng, tier):
    n = 200 if tier == 'quick' else 3000
    out = [[TS_BASE - 4300000000, TS_BASE - 4000000000, TS_BASE - 5000000000, TS_BASE - 4700000000, TS_BASE - 1, TS_BASE,
            TS_BASE + 1, TS_BASE - 10**9, TS_BASE - 10**9 - 1, 0, 1, TS_BASE + 4300000000]]
    for _ in range(n):
        xs = []
        for _ in range(rng.range(2, 8)):
            k = rng.weighted([('pre', 5), ('pre_whole', 3), ('post', 3), ('near', 3), ('dup', 2)])
            if k == 'pre':
                xs.append(rng.below(TS_BASE))
            elif k == 'pre_whole':
                xs.append(rng.below(1000000) * 10**9)
            elif k == 'post':
                xs.append(TS_BASE + rng.below(10**15))
            elif k == 'near':
                xs.append(TS_BASE - 3 * 10**9 + rng.below(6 * 10**9))
            elif xs:
                xs.append(rng.choice(xs))
        out.append(xs or [0])
    return out


def mon_timestamp(case, out):
    """distinct instants (also pre-1970, with and without nanoseconds) have distinct time stamps and distinct
    __TIMESTAMP__ digests; the time stamp is floor seconds + nanoseconds"""
    if not isinstance(out, list) or len(out) != len(case):
        return ['malformed implementation output %r' % (out,)]
    vs = []
    for i, (x, row) in enumerate(zip(case, out)):
        neg, secs, nanos, cls = row
        t = x - TS_BASE
        got = (-secs if neg else secs) * 10**9 + nanos
        if got != t or not (0 <= nanos < 10**9):
            vs.append('instant %d ns from the epoch is converted to Timestamp(%s%d s, %d ns) = %d ns' % (t, '-' if neg else '', secs, nanos, got))
        for j in range(i):
            same = out[j][3] == cls or (out[j][3] == j and cls == j)
            if (out[j][3] if out[j][3] != j else j) == cls and case[j] != x:
                vs.append('a header mentioning __TIMESTAMP__ gets the same digest for mtime %d ns and %d ns from the epoch: a '
                          'touch between them is answered with the stale result' % (case[j] - TS_BASE, t))
                break
    return vs[:3]


# ------------------------------------------------------------------ manyinc (the number of includes of ONE result)

def gen_manyinc(rng, tier):
    ns = [9999, 10000, 10001, 10050] if tier == 'quick' else [1, 9999, 10000, 10001, 10002, 10050, 12000, 20001]
    out = []
    for n in ns:
        out.append([n, n - 1])
        if n > 10000:
            out.append([n, 10000])
    out.append([10001, 0])
    return out


def mon_manyinc(case, out):
    n, edit = case
    if not isinstance(out, list) or len(out) != 3:
        return ['malformed implementation output %r' % (out,)]
    stored, hit0, hit1 = out
    vs = []
    if stored not in (0, n):
        vs.append('a result with %d include files was stored with %d of them: the others are never checked by a lookup' % (n, stored))
    if hit1:
        vs.append('%d include files recorded (%d stored); header number %d (in path order) was edited at the same size and the '
                  'lookup still accepted the result' % (n, stored, edit))
    return vs


# ------------------------------------------------------------------ end to end (real server + gcc)

E2E_CONFIGS = [9, 13, 25, 17, 29, 11]


def prebuild(rep):
    ok, out = pipeline.build_repo_bins(('sccache',))
    rep.oblige('build:sccache(e2e)', ok, out[-2000:] if not ok else 'cargo build --bin sccache, --cfg sccache_verif')
    rep.e2e_ok = ok


def extra(rep, known):
    import shutil
    from concurrent.futures import ThreadPoolExecutor
    from e2e import c04_e2e
    if not getattr(rep, 'e2e_ok', False) or not shutil.which('gcc'):
        rep.notes.append('e2e leg not run (sccache binary or gcc missing)')
        return
    import time
    t0 = time.time()
    sccache = pipeline.repo_bin('sccache')
    cfgs = E2E_CONFIGS if rep.tier == 'quick' else list(range(32))
    scen = [(ci, e) for ci in cfgs for e in c04_e2e.EDITS]
    with ThreadPoolExecutor(max_workers=8) as ex:
        results = list(ex.map(lambda s: c04_e2e.run_scenario(sccache, s[0], s[1]), scen))
    cases = [c04_e2e.model_case(ci, e) for ci, e in scen]
    mout = pipeline.run_sharded([os.path.join(pipeline.BUILD, 'modelrun-C04'), 'ppcache'], [sx.dumps(c) for c in cases])
    bad = 0
    for (ci, e), r, m in zip(scen, results, mout):
        rep.evaluations += 1
        rep.traces += 1
        rep.count('e2e.edit=' + e)
        rep.count('e2e.decisions=' + ','.join(r['decisions']))
        per = pipeline.parse_out(m)[ci]
        want = [o[1].decode() for o in per[1:]]
        if any(r['rcs']):
            rep.violation('correspondence', 'e2e', sx.dumps([ci, e.encode()]), 'a compile failed: %r %s' % (r['rcs'], r['out']))
            bad += 1
            continue
        if not r['obj_equal']:
            rep.violation('property', 'e2e', sx.dumps([ci, e.encode()]),
                          'config %d, header edit %s between two compiles: the object handed out by sccache differs from a '
                          'direct gcc compile (direct-mode decisions: %s)' % (ci, e, r['decisions']))
            bad += 1
        elif r['decisions'] != want:
            rep.violation('correspondence', 'e2e', sx.dumps([ci, e.encode()]),
                          'direct-mode decisions of the real server %s differ from the model %s' % (r['decisions'], want))
            bad += 1
        else:
            rep.distinct.add('e2e:%d:%s' % (ci, e))
    # the header that is really read lives in ../inc, a decoy with the same name below the working directory
    r = c04_e2e.run_dotdot(sccache)
    rep.evaluations += 1
    rep.traces += 1
    rep.count('e2e.dotdot.decisions=' + ','.join(r['decisions']))
    if any(r['rcs']):
        rep.violation('correspondence', 'e2e', 'dotdot', 'a compile failed: %r' % (r['rcs'],))
        bad += 1
    elif not r['obj_equal']:
        rep.violation('property', 'e2e', 'dotdot',
                      'gcc -I../inc, header ../inc/c.h edited between two compiles (a decoy inc/c.h exists below the working '
                      'directory): the object handed out by sccache differs from a direct compile (decisions %s)' % r['decisions'])
        bad += 1
    elif r['decisions'] != ['hit', 'miss']:
        rep.violation('correspondence', 'e2e', 'dotdot', 'direct-mode decisions %s, expected hit then miss' % r['decisions'])
        bad += 1
    # only include-path-affecting arguments / allow-listed variables change between two compiles (headers untouched),
    # incl. pairs with the same concatenation: the second object must be what gcc alone produces for the second request
    ascen = [(n, sw) for n in c04_e2e.ARG_SCENARIOS for sw in ((False, True) if rep.tier != 'quick' or n.endswith('shift') or n == 'I_split' else (False,))]
    with ThreadPoolExecutor(max_workers=8) as ex:
        ares = list(ex.map(lambda a: c04_e2e.run_arg_scenario(sccache, a[0], swap=a[1]), ascen))
    for (n, sw), r in zip(ascen, ares):
        rep.evaluations += 1
        rep.traces += 1
        rep.count('e2e.args=' + n)
        tag = sx.dumps([b'args', n.encode(), 1 if sw else 0])
        if any(r['rcs']) or not r['refs_differ'] or not r['first_ok']:
            rep.violation('correspondence', 'e2e', tag, 'scenario did not run as intended: %r' % (r,))
            bad += 1
        elif not r['second_ok']:
            rep.violation('property', 'e2e', tag,
                          'only the include-path-affecting arguments / environment changed between two compiles (scenario %s%s, '
                          'headers untouched): the object handed out by sccache for the second request differs from a direct gcc '
                          'compile of it (direct-mode hits in the server log: %d, expected 1)' % (n, ' swapped' if sw else '', r['direct_hits']))
            bad += 1
        elif r['direct_hits'] != 1:
            rep.violation('correspondence', 'e2e', tag, 'expected exactly one direct-mode hit (the repeated first request), saw %d' % r['direct_hits'])
            bad += 1
        else:
            rep.distinct.add('e2e:args:%s:%d' % (n, sw))
    # the same source compiled from two working directories with a relative include path (hash_working_directory on)
    with ThreadPoolExecutor(max_workers=4) as ex:
        cres = list(ex.map(lambda v: c04_e2e.run_cwd_scenario(sccache, v), c04_e2e.CWD_VARIANTS))
    for r in cres:
        rep.evaluations += 1
        rep.traces += 1
        rep.count('e2e.cwd=' + r['variant'])
        tag = sx.dumps([b'cwd', r['variant'].encode()])
        if any(r['rcs']) or not r['refs_differ'] or not r['first_ok']:
            rep.violation('correspondence', 'e2e', tag, 'scenario did not run as intended: %r' % (r,))
            bad += 1
        elif not r['second_ok']:
            rep.violation('property', 'e2e', tag,
                          'the same source file was compiled with a relative include path from two working directories (scenario %s, '
                          'hash_working_directory = true, headers untouched): the object handed out by sccache for the second '
                          'directory differs from a direct gcc compile there (direct-mode hits in the server log: %d, expected 1) - '
                          'the request was answered from the other directory\'s manifest' % (r['variant'], r['direct_hits']))
            bad += 1
        elif r['direct_hits'] != 1:
            rep.violation('correspondence', 'e2e', tag, 'expected exactly one direct-mode hit (the repeated first request), saw %d' % r['direct_hits'])
            bad += 1
        else:
            rep.distinct.add('e2e:cwd:' + r['variant'])
    # a header is saved while a compile that includes it is in flight (compiler shim; deterministic)
    with ThreadPoolExecutor(max_workers=4) as ex:
        rres = list(ex.map(lambda v: c04_e2e.run_race(sccache, v), c04_e2e.RACE_VARIANTS))
    for r in rres:
        rep.evaluations += 1
        rep.traces += 1
        rep.count('e2e.race=' + r['variant'])
        tag = sx.dumps([b'race', r['variant'].encode()])
        broken = [(w, hdr) for w, ok, hdr in r['judged'] if not ok]
        if not r['fired'] or any(not ok for w, ok, hdr in r['judged'][:2]):
            rep.violation('correspondence', 'e2e', tag, 'scenario did not run as intended: %r' % (r,))
            bad += 1
        elif broken:
            rep.violation('property', 'e2e', tag,
                          'cfg.h was saved %s the preprocessor run of an earlier request (compiler shim); a LATER request, made '
                          'when nothing was being edited any more, got an object that differs from a direct gcc compile of the '
                          'current files: %s (the racy request %s)'
                          % ({'after': 'right after', 'slow_after': '0.3 s after', 'during': 'during', 'before': 'just before'}[r['variant']],
                             '; '.join('%s [%s]' % b for b in broken),
                             'recorded a manifest entry' if r['racy_recorded'] else 'recorded nothing'))
            bad += 1
        elif not r['racy_gave_up'] or r['racy_recorded']:
            rep.violation('correspondence', 'e2e', tag,
                          'the model (C04_record_instant_sound: the start instant is taken before the preprocessor starts) says the '
                          'racy request must find cfg.h too new and record nothing; the server log says gave_up=%s recorded=%s'
                          % (r['racy_gave_up'], r['racy_recorded']))
            bad += 1
        else:
            rep.distinct.add('e2e:race:' + r['variant'])
    rep.legs['e2e'] = dict(cases=len(scen) + 1 + len(ascen) + len(cres) + len(rres), disagreements=bad, wall_s=round(time.time() - t0, 1))
    rep.oblige('correspondence:e2e', bad == 0, '%d scenarios (real sccache server + gcc), %d bad' % (len(scen) + 1 + len(ascen) + len(cres) + len(rres), bad))
    rep.rule.append('e2e: %d configurations x %d header edits; object of the second compile == direct gcc compile, '
                    'and the server log\'s direct-mode hit/miss == model; -I../inc with a decoy; %d scenarios where only '
                    '-I/-D/-include/-isystem/CPATH/C_INCLUDE_PATH change (incl. boundary-shift pairs with equal concatenation); '
                    '%d compiler-shim scenarios where a header is saved before / during / after the preprocessor run of an '
                    'in-flight request and three later requests are judged'
                    % (len(cfgs), len(c04_e2e.EDITS), len(ascen), len(rres)))
    pipeline.log('leg e2e: %d scenarios, %d bad, %.1fs' % (len(scen) + 1 + len(ascen) + len(cres) + len(rres), bad, time.time() - t0))


def legs(tier):
    return [
        Leg('toonew', gen_toonew, monitor=mon_toonew,
            rule='exhaustive over {absent, start-1, start, start+1}^2 for (mtime, ctime)'),
        Leg('timemacro', gen_timemacro, monitor=mon_timemacro, stats=stats_timemacro,
            shrink=shrink_timemacro, neighbours=neigh_timemacro,
            nontrivial=lambda case, out: len(case) >= 2 and any(p in b''.join(case) for p in PATS.values()),
            rule='PRNG texts over a 12-letter alphabet with planted patterns / near-patterns / NULs, split into reads '
                 'of 1..40 bytes in four size profiles (incl. the shape of the repaired S17 defect), plus regular-file chunkings with full '
                 '128 KiB reads and patterns on the boundaries; non-trivial = >=2 reads and a pattern present'),
        Leg('timestamp', gen_timestamp, monitor=mon_timestamp,
            rule='Timestamp::from(SystemTime) and include_file_digest of a __TIMESTAMP__ header on instants before and after '
                 '1970 (whole seconds and with nanoseconds, around the epoch, duplicates): exact value vs the model '
                 '(floor seconds, nanoseconds) and injectivity of the digest'),
        Leg('manyinc', gen_manyinc, monitor=mon_manyinc, shards=6,
            rule='ONE result with 9999 / 10000 / 10001 / 10050 distinct real header files through the real add_result and '
                 'lookup_result_digest (around MAX_PREPROCESSOR_CACHE_FILE_INFO_ENTRIES): all of them are stored, and a '
                 'same-size edit of the last / the 10001st / the first one is noticed'),
        Leg('ppkey', gen_ppkey, monitor=mon_ppkey, stats=stats_ppkey, shrink=shrink_ppkey, neighbours=neigh_ppkey,
            nontrivial=lambda case, out: len(case[1]) >= 2,
            rule='requests for one input path run through the real preprocessor_cache_entry_hash_key; the equality '
                 'pattern of the keys is compared with the model (key = function of the argument LIST, the allow-listed '
                 'variables, the extra hashes, the ++ flag and the input digest) and with the property. (a) 2-5 variants '
                 'of the input file (time-macro text, same-size variants, SOURCE_DATE_EPOCH, mtime), ignore_time_macros '
                 'on/off; (b) fixed witnesses with equal concatenation (-Ifoo -Ibar / -Ifoo-Ibar, -DA=1 -DB=2 / '
                 '-DA=1-DB=2, CPATH=/a C_INCLUDE_PATH=/b / CPATH=/aC_INCLUDE_PATH=/b, argument/extra-hash boundary); '
                 '(c) PRNG: 2-6 requests derived from a common one by split / merge / boundary shift of neighbouring '
                 'arguments, empty arguments, items moving between arguments, extra hashes and environment, name/value '
                 'shifts between allow-listed variables, plus ordinary edits and edits of non-listed variables'),
        Leg('linemarker', gen_linemarker, monitor=mon_linemarker, stats=stats_linemarker,
            shrink=shrink_linemarker,
            nontrivial=lambda case, out: isinstance(out, list) and out and out[0] == b'ok' and len(out[1]) > 0,
            rule='real gcc -E / clang -E outputs of a small include tree (3 argument variants x 2 configurations) + PRNG '
                 'texts of 1-9 lines: line markers in the three syntaxes with 22 path spellings (relative, ./, .., //, '
                 'absolute, <built-in>, directory, missing, input, fifo) and flag sets, body lines, #pragma lines, GCC-6 '
                 '# 31/# 32 lines, .incbin, distcc-pump chatter, malformed markers, with and without final newline; '
                 'process_preprocessed_file runs on real files; non-trivial = accepted with >= 1 recorded include'),
        Leg('ppcache', gen_ppcache, monitor=mon_ppcache, stats=stats_ppcache, nontrivial=nontrivial_ppcache,
            shrink=shrink_ppcache, neighbours=neigh_ppcache,
            rule='PRNG histories on real header files under /dev/shm: 1-3 recordings (fresh entry or accumulated, keys '
                 'k0..k2), 1-2 lookups, edits between them (same-size, same-size with restored mtime, size change, '
                 'touch, rewrite, delete, replace by a directory of equal st_size, time-macro text toggled), header '
                 'mtimes/ctimes on both sides of the compile start, SOURCE_DATE_EPOCH changes; every case is run under '
                 'all 32 option combinations; plus a >100-results case; non-trivial = some recording succeeded'),
    ]
