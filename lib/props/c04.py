"""C04 — preprocessor-cache (direct) mode never returns a result for changed inputs."""
import os

from .. import pipeline, sx
from ..pipeline import Leg

ID = 'C04'
HARNESS_BIN = 'c04'
RUN_MODULE = 'Run.C04'
COQ_EXTRA = []
THEOREMS_PLANNED = ['C04_lookup_sound', 'C04_record_sound', 'C04_scan_no_false_negative', 'C04_digest_chunk_independent',
            'C04_scan_exact_refuted', 'C04_scan_exact_regular', 'C04_mode_equivalence']
ASSUMPTIONS = [
    'BLAKE3 is modelled as an injective function H on file contents and an injective function HT on the '
    '(date, SOURCE_DATE_EPOCH, mtime) fields (section hypotheses H_inj / HT_inj of the theorems); hex digests have '
    'no "-", so a plain and a salted include digest never compare equal (the two constructors of idigest)',
    'file_stat_matches: "equal (size, mtime, ctime) implies equal bytes" is an explicit hypothesis (stat_trust) of '
    'C04_lookup_sound, used only for includes accepted by the stat shortcut (that option\'s documented trade)',
    'ignore_time_macros: documented as able to give false positives; with it the theorem claims unchanged bytes only, '
    'not unchanged __DATE__/__TIMESTAMP__ expansions',
    'a newly created header that shadows a recorded one (documented caveat) is excluded by hypothesis '
    'no_new_shadowing_file of C04_mode_equivalence; the preprocessor is an abstract function with the stated frame',
    'C04_mode_equivalence needs env_main ⊆ env_pp (S16, repaired by the C02 worker) as a named hypothesis',
    'paths: the file-system snapshot has no symlinks (symlink_metadata and metadata coincide); PathBuf order on the '
    'recorded includes is modelled as byte order (single-directory names in the differential leg)',
    'the date used when recording is the date at the instant of recording (a compile that runs across midnight can '
    'record the next day; same window as in ccache) and SOURCE_DATE_EPOCH is read from the server environment',
    'process_preprocessed_file / process_preprocessor_line (line-marker parsing) are NOT modelled in this round: '
    'C04_markers_complete is missing, the claim is partial there (the recorder is driven per include path)',
]
TRUSTED = [
    'translator/c04_consts.py (HASH_BUFFER_SIZE, MAX_HAYSTACK_LEN, the three time-macro patterns, the two manifest limits)',
    'hooks: compiler::c::verif_remember_include_file / verif_include_is_too_new / verif_process_preprocessed_file, '
    'PreprocessorCacheEntry::verif_view (read-only)',
]

BUF = 131072
PATS = {'date': b'__DATE__', 'time': b'__TIME__', 'timestamp': b'__TIMESTAMP__'}


def translate(rep):
    from translator import c04_consts
    info = c04_consts.generate(pipeline.REPO, os.path.join(pipeline.COQ, 'theories/Gen/C04Consts.v'))
    rep.oblige('translate:c04_consts', True, str(info))
    global BUF
    BUF = info['hash_buffer_size']


# ------------------------------------------------------------------ timemacro

def tm_text(rng, n):
    """text over a small alphabet with planted patterns, near-patterns and NULs"""
    out = bytearray()
    while len(out) < n:
        k = rng.weighted([('pat', 5), ('near', 4), ('junk', 6), ('zero', 1), ('us', 3)])
        if k == 'pat':
            out += rng.choice(list(PATS.values()))
        elif k == 'near':
            p = rng.choice(list(PATS.values()))
            i = rng.below(len(p))
            out += p[:i] + rng.choice([b'x', b'', b'_', b'\0', p[i:i + 1] * 2]) + p[i + 1:]
        elif k == 'junk':
            out += bytes(rng.choice(b'xTIMEDASP_ \n') for _ in range(rng.range(1, 20)))
        elif k == 'zero':
            out += b'\0' * rng.range(1, 3)
        else:
            out += b'_' * rng.range(1, 3)
    return bytes(out)


def tm_split(rng, text, sizes):
    chunks = []
    i = 0
    while i < len(text):
        n = rng.weighted(sizes)
        if callable(n):
            n = n()
        n = max(1, n)
        chunks.append(text[i:i + n])
        i += n
    return chunks


def gen_timemacro(rng, tier):
    n = 5000 if tier == 'quick' else 100000
    small = [(1, 3), (2, 2), (3, 2), (4, 2), (5, 1), (7, 1), (8, 1), (11, 1), (12, 3), (13, 4), (14, 4), (15, 1), (20, 2), (26, 1), (27, 1), (40, 1)]
    out = []
    for i in range(n):
        text = tm_text(rng, rng.range(0, 60))
        mode = rng.below(4)
        if mode == 0:      # anything
            sizes = small
        elif mode == 1:    # mostly full-ish chunks with a few short reads
            sizes = [(14, 5), (16, 3), (13, 2), (1, 1), (4, 1), (30, 2)]
        elif mode == 2:    # all short
            sizes = [(1, 3), (2, 2), (3, 2), (5, 1), (12, 1), (13, 1)]
        else:              # one long first read then short ones (the S17 shape)
            k = rng.range(14, 30)
            out.append([text[:k]] + tm_split(rng, text[k:], [(1, 3), (2, 2), (4, 3), (12, 1)]) if len(text) > k else [text] if text else [])
            continue
        out.append(tm_split(rng, text, sizes))
    # regular-file chunkings: full HASH_BUFFER_SIZE reads, then the rest, patterns planted around the boundaries
    nbig = 6 if tier == 'quick' else 60
    for i in range(nbig):
        nfull = rng.range(1, 2)
        tail = rng.choice([0, 1, 5, 12, 13, 14, 40])
        body = bytearray(rng.choice(b'ab\0') for _ in range(1)) * (BUF * nfull + tail)
        for b in range(1, nfull + 1):
            p = rng.choice(list(PATS.values()))
            pos = b * BUF - rng.range(0, len(p))
            if pos + len(p) <= len(body):
                body[pos:pos + len(p)] = p
        if rng.chance(1, 2):   # ghost pattern: start of a chunk + end of the same chunk
            body[BUF - 4:BUF] = b'ME__'
            body[0:4] = b'__TI'
        body = bytes(body)
        out.append([body[j:j + BUF] for j in range(0, len(body), BUF)])
    return [c for c in out]


def tm_regular(case):
    return all(len(c) == BUF for c in case[:-1]) and all(0 < len(c) <= BUF for c in case)


def mon_timemacro(case, out):
    if not isinstance(out, list) or len(out) != 4:
        return ['malformed implementation output %r' % (out,)]
    whole = b''.join(case)
    vs = []
    for i, name in enumerate(['date', 'time', 'timestamp']):
        present = PATS[name] in whole
        if present and not out[i]:
            vs.append('time macro %s occurs in the file but the scan over reads of sizes %s missed it (false negative: '
                      'the result would be cached although it depends on the clock)' % (PATS[name].decode(), [len(c) for c in case]))
        if out[i] and not present:
            if tm_regular(case):
                vs.append('scan reports %s for a regular-file chunking although the file does not contain it' % PATS[name].decode())
            else:
                vs.append('S17: scan reports %s across short reads %s although the file does not contain it (false positive, '
                          'harmless direction)' % (PATS[name].decode(), [len(c) for c in case]))
    if not out[3]:
        vs.append('digest depends on how the bytes were split into reads')
    return vs


def classify_timemacro(case, out, v):
    return 'C04-S17' if v.startswith('S17:') else None


def stats_timemacro(case, out):
    whole = b''.join(case)
    ks = ['chunks=%d' % min(len(case), 12), 'regular' if tm_regular(case) else 'irregular']
    for name, p in PATS.items():
        if p in whole:
            ks.append('has_' + name)
    if isinstance(out, list) and len(out) == 4:
        for i, name in enumerate(['date', 'time', 'timestamp']):
            if out[i]:
                ks.append('flag_' + name)
    if any(len(c) < 13 for c in case):
        ks.append('short_read')
    return ks


def shrink_timemacro(case):
    for i in range(len(case)):
        yield case[:i] + case[i + 1:]
    for i in range(len(case) - 1):
        yield case[:i] + [case[i] + case[i + 1]] + case[i + 2:]
    for i, c in enumerate(case):
        if len(c) > 1:
            yield case[:i] + [c[1:]] + case[i + 1:]
            yield case[:i] + [c[:-1]] + case[i + 1:]


def neigh_timemacro(case):
    whole = b''.join(case)
    for p in PATS.values():
        for cut in range(1, len(p)):
            for pre in (b'', b'x' * 14, b'y' * 13):
                yield [c for c in [pre + p[:cut], p[cut:]] if c]
                yield [c for c in [pre + p[:cut], p[cut:cut + 1], p[cut + 1:]] if c]
    for i in range(1, len(whole)):
        yield [whole[:i], whole[i:]]


# ------------------------------------------------------------------ toonew

def gen_toonew(rng, tier):
    s = 1000
    opts = [[], [s - 1], [s], [s + 1]]
    return [[m, c, s] for m in opts for c in opts]


def mon_toonew(case, out):
    m, c, s = case
    want = (bool(m) and m[0] >= s) or (bool(c) and c[0] >= s)
    if bool(out) != want:
        return ['include_is_too_new(mtime=%s, ctime=%s, start=%d) = %s: a header written at/after the compile start would be recorded' % (m, c, s, out)]
    return []


# ------------------------------------------------------------------ ppcache

CONTENTS = [
    # (bytes, tag) — groups of equal length allow same-size edits, also across "mentions a time macro or not"
    b'int a;\n', b'int b;\n', b'int c;\n',
    b'int abc;\n', b'int xyz;\n',
    b'', b'\n',
    b'__DATE__', b'__DATA__', b'__TIME__', b'__TIMA__',
    b'// __DATE__\nint a;\n', b'// __DATE__\nint b;\n', b'// __DATA__\nint a;\n', b'// __TIME__\nint a;\n',
    b'// __TIMESTAMP__ a\n', b'// __TIMESTAMP__ b\n', b'// __TIMESTAMQ__ a\n',
    b'__DATE__ __TIMESTAMP__ 1', b'__DATE__ __TIMESTAMP__ 2', b'__DATA__ __TIMESTAMP__ 1',
    b'#define LONG_HEADER_OF_FORTY_BYTES___ 1\n', b'#define LONG_HEADER_OF_FORTY_BYTES___ 2\n',   # 40 = empty tmpfs directory
    b'#define HEADER_WITH_EXACTLY_SIXTY_BYTES_IN_IT__ __DATE__ 1\n\n',                               # 60 = directory with one entry
]
assert len(CONTENTS[-3]) == 40 and len(CONTENTS[-1]) == 60, (len(CONTENTS[-3]), len(CONTENTS[-1]))
BY_LEN = {}
for _c in CONTENTS:
    BY_LEN.setdefault(len(_c), []).append(_c)
HEADERS = [b'a.h', b'b.h', b'c.h', b'd.h']
DATES = [b'', b'', b'', b'1', b'86400']


def mt(off100, j):
    return (500 + off100) * 1000 + 10 * j


def start_of(j):
    return 500000 + 10 * j


class FsSim:
    """python-side replica of the snapshot semantics of Run/C04.v (for generation, stats and the monitor)"""

    def __init__(self):
        self.files = {}

    def apply(self, j, files, is_rec):
        for name, kind, b, m, cnew in files:
            ct = start_of(j) + 3 if (is_rec and cnew) else start_of(j) - 3
            if kind == 2:
                self.files.pop(name, None)
            else:
                self.files[name] = dict(kind=kind, bytes=b if kind == 0 else b'', mtime=m, ctime=ct,
                                        size=len(b) if kind == 0 else (40 + 20 * len(b) if kind == 1 else 0))

    def regular(self, name):
        f = self.files.get(name)
        return f if f and f['kind'] == 0 else None


def gen_edit(rng, sim, j, name):
    """one edit of header `name` in step j -> (file entry, tag)"""
    f = sim.files.get(name)
    new_m = mt(rng.choice([-5, -3, -1]), j)
    if f is None or f['kind'] != 0:
        return [name, 0, rng.choice(CONTENTS), new_m, 0], 'create'
    b, m = f['bytes'], f['mtime']
    same = [c for c in BY_LEN.get(len(b), []) if c != b]
    kind = rng.weighted([('same_size', 8), ('same_size_backdate', 6), ('size_change', 4), ('touch', 3), ('touch_same', 4),
                         ('delete', 2), ('to_dir', 2), ('to_fifo_sized', 0), ('rewrite_same', 2)])
    if kind in ('same_size', 'same_size_backdate') and not same:
        kind = 'size_change'
    if kind == 'same_size':
        return [name, 0, rng.choice(same), new_m, 0], kind
    if kind == 'same_size_backdate':
        return [name, 0, rng.choice(same), m, 0], kind
    if kind == 'size_change':
        return [name, 0, rng.choice([c for c in CONTENTS if len(c) != len(b)]), rng.choice([m, new_m]), 0], kind
    if kind == 'touch':
        return [name, 0, b, new_m, 0], kind
    if kind in ('touch_same', 'rewrite_same'):
        return [name, 0, b, m, 0], 'touch_same'
    if kind == 'delete':
        return [name, 2, b'', 0, 0], kind
    # directory of the same st_size when possible
    if len(b) >= 40 and (len(b) - 40) % 20 == 0:
        return [name, 1, b'x' * ((len(b) - 40) // 20), m, 0], 'to_dir_same_size'
    return [name, 1, b'', m, 0], 'to_dir'


def gen_ppcache_case(rng):
    sim = FsSim()
    steps = []
    nrec = rng.weighted([(1, 7), (2, 3), (3, 1)])
    nlook = rng.weighted([(1, 6), (2, 2)])
    hdrs = rng.shuffle(HEADERS)[:rng.range(1, 4)]
    j = 0
    for r in range(nrec):
        files = []
        if r == 0:
            for h in hdrs:
                off = rng.weighted([(-10, 10), (-1, 4), (0, 1), (1, 1)])
                cnew = 1 if rng.chance(1, 14) else 0
                files.append([h, 0, rng.choice(CONTENTS), mt(off, j), cnew])
            if rng.chance(1, 3):
                files.append([b'sys.h', 0, rng.choice(CONTENTS[:5]), mt(-10, j), 0])
            if rng.chance(1, 4):
                files.append([b'input.c', 0, b'int main;\n', mt(-10, j), 0])
            if rng.chance(1, 6):
                files.append([b'dir', 1, b'', mt(-10, j), 0])
            if rng.chance(1, 25):
                files.append([b'fifo', 3, b'', mt(-10, j), 0])
        else:
            for _ in range(rng.range(0, 2)):
                e, _tag = gen_edit(rng, sim, j, rng.choice(hdrs))
                if rng.chance(1, 10):
                    e[4] = 1
                if rng.chance(1, 10) and e[1] == 0:
                    e[3] = mt(rng.choice([0, 1]), j)
                files = [f for f in files if f[0] != e[0]] + [e]
        sim.apply(j, files, True)
        incs = [[h, 0] for h in hdrs if rng.chance(9, 10)]
        if b'sys.h' in sim.files:
            incs.append([b'sys.h', 1])
        if rng.chance(1, 4):
            incs.append([b'input.c', 0])
        if b'dir' in sim.files and rng.chance(1, 2):
            incs.append([b'dir', 0])
        if b'fifo' in sim.files and rng.chance(1, 2):
            incs.append([b'fifo', 0])
        if rng.chance(1, 5):
            incs.append([b'<built-in>', 0])
        if rng.chance(1, 30):
            incs.append([b'missing.h', 0])
        if incs and rng.chance(1, 3):
            incs.append(list(rng.choice(incs)))
        incs = rng.shuffle(incs)
        fresh = 1 if (r == 0 or rng.chance(1, 2)) else 0
        key = rng.choice([b'k0', b'k1', b'k2']) if r else b'k1'
        steps.append([b'rec', fresh, rng.choice(DATES), key, incs, files])
        j += 1
    for l in range(nlook):
        files = []
        for _ in range(rng.weighted([(0, 3), (1, 8), (2, 3)])):
            e, _tag = gen_edit(rng, sim, j, rng.choice(hdrs + ([b'sys.h'] if b'sys.h' in sim.files else [])))
            files = [f for f in files if f[0] != e[0]] + [e]
        sim.apply(j, files, False)
        steps.append([b'look', rng.choice(DATES), files])
        j += 1
    return steps


def gen_limits_case(n, nhdr):
    """more than MAX_PREPROCESSOR_CACHE_ENTRIES results / MAX_..._FILE_INFO_ENTRIES includes in one entry"""
    files = [[b'h%03d.h' % i, 0, b'int h%d;\n' % i, mt(-10, 0), 0] for i in range(nhdr)]
    incs = [[f[0], 0] for f in files]
    steps = [[b'rec', 1, b'', b'r000', incs, files]]
    for i in range(1, n):
        steps.append([b'rec', 0, b'', b'r%03d' % i, incs, []])
    steps.append([b'look', b'', []])
    steps.append([b'look', b'', [[files[-1][0], 0, b'int hX;\n'[:len(files[-1][2])].ljust(len(files[-1][2]), b' '), mt(-10, 0), 0]]])
    return steps


def gen_ppcache(rng, tier):
    n = 1500 if tier == 'quick' else 30000
    out = [gen_ppcache_case(rng) for _ in range(n)]
    out.append(gen_limits_case(104, 2))
    if tier != 'quick':
        out.append(gen_limits_case(103, 101))
    return out


def pp_walk(case):
    """yield (j, step, sim_before, sim_after) with python-side snapshots"""
    sim = FsSim()
    for j, st in enumerate(case):
        before = {k: dict(v) for k, v in sim.files.items()}
        if st[0] == b'rec':
            sim.apply(j, st[5], True)
        else:
            sim.apply(j, st[2], False)
        yield j, st, before, {k: dict(v) for k, v in sim.files.items()}


def mon_ppcache(case, out):
    """The property itself on the real implementation's answers: an accepted lookup implies that every include
    recorded for the returned result still has its recorded bytes (and, unless ignore_time_macros, that the
    __DATE__/__TIMESTAMP__ expansions it mentions are unchanged)."""
    if not isinstance(out, list) or len(out) != 32 or out[0] in (b'panic', b'harness_error'):
        return ['malformed implementation output %s' % sx.dumps(out)[:300]]
    vs = []
    walk = list(pp_walk(case))
    for ci, per in enumerate(out):
        itm = bool(ci & 4)
        ssh = bool(ci & 2)
        if len(per) != len(case):
            vs.append('config %d: %d step results for %d steps' % (ci, len(per), len(case)))
            continue
        recorded = {}   # key -> (expected names -> (bytes, mtime), date) from the python-side snapshot
        for (j, st, before, after), o in zip(walk, per):
            if st[0] == b'rec':
                if o[1] == b'ok':
                    names = {}
                    for name, sysflag in st[4]:
                        f = after.get(name)
                        if f and f['kind'] == 0 and name != b'input.c' and not (sysflag and ssh) and not name.startswith(b'<'):
                            names[name] = (f['bytes'], f['mtime'])
                    if st[1]:
                        recorded = {}
                    recorded[st[3]] = (names, st[2])
                    for name, (b, m) in names.items():
                        f = after[name]
                        if f['mtime'] >= start_of(j) or f['ctime'] >= start_of(j):
                            vs.append('config %d step %d: result recorded although %s was written at/after the compile start' % (ci, j, name.decode()))
                        if not itm and PATS['time'] in b:
                            vs.append('config %d step %d: result recorded although %s mentions __TIME__' % (ci, j, name.decode()))
                continue
            if o[1] != b'hit':
                continue
            key, incs, date_changed = o[3], o[4], o[5]
            for name, changed, has_date, has_ts, mchanged in incs:
                if changed:
                    vs.append('config %d step %d: lookup accepted result %s although include %s no longer has its recorded bytes'
                              % (ci, j, key.decode(), name.decode()))
                if not itm and has_date and date_changed:
                    vs.append('config %d step %d: lookup accepted result %s although %s mentions __DATE__ and the date changed'
                              % (ci, j, key.decode(), name.decode()))
                if not itm and has_ts and mchanged:
                    vs.append('config %d step %d: lookup accepted result %s although %s mentions __TIMESTAMP__ and its mtime changed'
                              % (ci, j, key.decode(), name.decode()))
            # independent ground truth from the case itself
            if key not in recorded:
                vs.append('config %d step %d: lookup returned %s which was never recorded' % (ci, j, key.decode()))
                continue
            names, date0 = recorded[key]
            got = set(i[0] for i in incs)
            for name, (b, m) in names.items():
                f = after.get(name)
                if name not in got:
                    vs.append('config %d step %d: include %s was read when %s was recorded but is not in the manifest' % (ci, j, name.decode(), key.decode()))
                if not f or f['kind'] != 0 or f['bytes'] != b:
                    vs.append('config %d step %d: lookup accepted %s although %s changed (case-derived ground truth)' % (ci, j, key.decode(), name.decode()))
                elif not itm:
                    if PATS['date'] in b and date0 != st[1]:
                        vs.append('config %d step %d: lookup accepted %s, %s mentions __DATE__, date changed (case-derived)' % (ci, j, key.decode(), name.decode()))
                    if PATS['timestamp'] in b and f['mtime'] != m:
                        vs.append('config %d step %d: lookup accepted %s, %s mentions __TIMESTAMP__, mtime changed (case-derived)' % (ci, j, key.decode(), name.decode()))
    return vs[:6]


def edit_tags(case):
    tags = []
    for j, st, before, after in pp_walk(case):
        files = st[5] if st[0] == b'rec' else st[2]
        if j == 0:
            continue
        for name, kind, b, m, cnew in files:
            old = before.get(name)
            if old is None:
                tags.append('create')
            elif kind == 2:
                tags.append('delete')
            elif kind == 1:
                tags.append('to_dir_same_size' if old['size'] == 40 + 20 * len(b) else 'to_dir')
            elif old['kind'] != 0:
                tags.append('recreate')
            elif old['bytes'] == b:
                tags.append('touch_same_mtime' if old['mtime'] == m else 'touch')
            elif len(old['bytes']) == len(b):
                tags.append('same_size_backdated' if old['mtime'] == m else 'same_size')
            else:
                tags.append('size_change')
            if kind == 0 and old is not None and old['kind'] == 0:
                for pn, p in PATS.items():
                    if (p in b) != (p in old['bytes']):
                        tags.append('toggles_' + pn)
    return tags


def stats_ppcache(case, out):
    ks = ['steps=%d' % min(len(case), 6)]
    ks += ['edit=' + t for t in edit_tags(case)]
    try:
        for ci, per in enumerate(out):
            for o in per:
                if o[0] == b'r':
                    ks.append('rec=' + o[1].decode())
                else:
                    ks.append('look=' + o[1].decode())
    except Exception:
        ks.append('malformed')
    return ks


def nontrivial_ppcache(case, out):
    try:
        return any(o[0] == b'r' and o[1] == b'ok' for per in out for o in per)
    except Exception:
        return True


def shrink_ppcache(case):
    for i in range(len(case) - 1):
        yield case[:i] + case[i + 1:]
    for i, st in enumerate(case):
        fi = 5 if st[0] == b'rec' else 2
        for k in range(len(st[fi])):
            s2 = list(st)
            s2[fi] = st[fi][:k] + st[fi][k + 1:]
            yield case[:i] + [s2] + case[i + 1:]
        if st[0] == b'rec':
            for k in range(len(st[4])):
                s2 = list(st)
                s2[4] = st[4][:k] + st[4][k + 1:]
                yield case[:i] + [s2] + case[i + 1:]


def neigh_ppcache(case):
    """model-guided family around a disagreement: every recorded header gets every same-size replacement (with
    and without backdating) in the last lookup step, and the date is changed"""
    walk = list(pp_walk(case))
    if not walk or case[-1][0] != b'look':
        return
    j, st, before, after = walk[-1]
    for name, f in before.items():
        if f['kind'] != 0:
            continue
        for c in BY_LEN.get(len(f['bytes']), []):
            if c == f['bytes']:
                continue
            for m in (f['mtime'], mt(-5, j)):
                yield case[:-1] + [[b'look', st[1], [[name, 0, c, m, 0]]]]
    for d in (b'', b'1', b'7'):
        yield case[:-1] + [[b'look', d, st[2]]]


def legs(tier):
    return [
        Leg('toonew', gen_toonew, monitor=mon_toonew,
            rule='exhaustive over {absent, start-1, start, start+1}^2 for (mtime, ctime)'),
        Leg('timemacro', gen_timemacro, monitor=mon_timemacro, classify=classify_timemacro, stats=stats_timemacro,
            shrink=shrink_timemacro, neighbours=neigh_timemacro,
            nontrivial=lambda case, out: len(case) >= 2 and any(p in b''.join(case) for p in PATS.values()),
            rule='PRNG texts over a 12-letter alphabet with planted patterns / near-patterns / NULs, split into reads '
                 'of 1..40 bytes in four size profiles (incl. the S17 shape), plus regular-file chunkings with full '
                 '128 KiB reads and patterns on the boundaries; non-trivial = >=2 reads and a pattern present'),
        Leg('ppcache', gen_ppcache, monitor=mon_ppcache, stats=stats_ppcache, nontrivial=nontrivial_ppcache,
            shrink=shrink_ppcache, neighbours=neigh_ppcache,
            rule='PRNG histories on real header files under /dev/shm: 1-3 recordings (fresh entry or accumulated, keys '
                 'k0..k2), 1-2 lookups, edits between them (same-size, same-size with restored mtime, size change, '
                 'touch, rewrite, delete, replace by a directory of equal st_size, time-macro text toggled), header '
                 'mtimes/ctimes on both sides of the compile start, SOURCE_DATE_EPOCH changes; every case is run under '
                 'all 32 option combinations; plus a >100-results case; non-trivial = some recording succeeded'),
    ]
