"""C13 — distributed compiles match local ones in artefacts and status, or fall back (PARTIAL)."""
import os
import subprocess
import tempfile

from ..pipeline import Leg

ID = 'C13'
HARNESS_BIN = 'c13'
RUN_MODULE = 'Run.C13'
THEOREMS = [
    'C13_exit_status_preserved', 'C13_exit_status_mod256', 'C13_status_roundtrip', 'C13_signal_not_forwarded',
    'C13_exit_status_refuted_before_fix',
    'C13_fallback_total', 'C13_error_classes', 'C13_documented_errors_only', 'C13_local_or_documented',
    'C13_never_false_success', 'C13_never_false_success_refuted_before_fix',
    'C13_cleanup', 'C13_no_remote_leftovers', 'C13_cleanup_refuted_before_fix',
    'C13_same_files_as_local', 'C13_cached_like_local',
    'C13_effect_independent_of_preexisting', 'C13_job_input_complete', 'C13_hit_restores_exact', 'C13_miss_is_stored',
    'C13_toolchain_too_large_every_request', 'C13_toolchain_fits_every_request',
    'C13_rlibs_complete_when_object_code_needed', 'C13_rlib_never_missing', 'C13_rlib_missing_refuted_before_fix',
    'C13_simplify_same_file', 'C13_rlib_deps_current',
    'C13_lib_prefix_once', 'C13_lib_prefix_trim_all_refuted',
    'C13_route_handler_faults_fall_back', 'C13_alias_toolchains_match', 'C13_alias_canonical_key_refuted',
    'C13_dist_args', 'C13_dist_args_ignore_pp_dep', 'C13_dist_lang_known',
    'C13_dist_args_refuted_before_fix', 'C13_dist_lang_refuted_before_fix',
]
ASSUMPTIONS = [
    'PARTIAL: no build server can run in this sandbox (no bubblewrap/overlayfs/docker). The remote compile itself, the '
    'packaging of toolchain and inputs (dist/pkg.rs, CToolchainPackager, CInputsPackager), dist/http.rs and the scheduler '
    'are NOT validated: the remote exit code and the fetched outputs are inputs of the fault script',
    'that a remote compiler run with the synthesised arguments on the preprocessed input produces the same object as the '
    'local one is assumed (it is the premise of sccache-dist), only the argument synthesis is modelled and proved',
    'unix only: ExitStatus::from_raw / wait-status decoders as in std for unix; the unix PathTransformer (identity; '
    'to_local cannot fail); the Windows conversions are not modelled',
    'the remote exit code is in 0..255 for the status theorems (proved to be what ProcessOutput::try_from produces; a '
    'hand-crafted answer with another i32 is reduced mod 256, also proved)',
    'File::create failures are injected only on paths that do not pre-exist (a dangling symlink); cleanup errors other '
    'than NotFound are only logged by the code and not modelled',
    'histories: one compiler, one source file with three edit variants, one declared output; the main cache never evicts; '
    'the client toolchain cache holds a single toolchain (eviction of one toolchain by another, which can also leave a '
    'dangling weak-map entry, is property C17\'s territory); the toolchain packager is replaced by one that writes SIZE bytes',
    'the Rust OutputsRewriter is a scripted stage (ok / error of each class); its dep-info rewriting is not modelled',
    'known -x language names (Model/DistArgs.known_x_langs) are taken from the gcc manual / clang Types.def and checked '
    'against the installed gcc and clang in the extra leg',
]
TRUSTED = [
    'hooks: ProcessOutput::verif_new/verif_code, OutputData::verif_try_from_reader/verif_raw/verif_compressed, '
    'pkg::VerifNullToolchainPackager, compiler::verif_dist_or_local_compile (thin wrapper of the private function)',
    'harness-defined dist::Client, Compilation, OutputsRewriter and MockCommandCreator scripts stand for scheduler, '
    'build server and local compiler',
]

CLASSES = [b'http', b'toolarge', b'other', b'lruother']
LANGS = [b'C', b'Cxx', b'GenericHeader', b'CHeader', b'CxxHeader', b'ObjectiveC', b'ObjectiveCxx',
         b'ObjectiveCxxHeader', b'Cuda', b'CudaFE', b'Ptx', b'Cubin', b'Rust', b'Hip']
KNOWN_X = [b'c', b'c-header', b'cpp-output', b'c++', b'c++-header', b'c++-cpp-output', b'objective-c',
           b'objective-c-header', b'objective-c-cpp-output', b'objective-c++', b'objective-c++-header',
           b'objective-c++-cpp-output', b'cu', b'cuda', b'cuda-cpp-output', b'hip', b'hip-cpp-output']


def i32(v):
    return [1 if v < 0 else 0, abs(v)]


def un_i32(s, m):
    return -m if s else m


# ------------------------------------------------------------------ leg status

def gen_status(rng, tier):
    out = []
    for c in list(range(0, 256)) + [-1, -2, -128, -256, 256, 257, 511, 512, 65535, 65536, 1 << 24, (1 << 24) + 3,
                                    (1 << 31) - 1, -(1 << 31)]:
        out.append([b'to_local'] + i32(c))
    raws = set(c << 8 for c in range(256))
    raws |= set(range(0, 65536 if tier == 'thorough' else 1024))
    for s in range(0, 128):
        raws |= {s, s | 0x80, s | (3 << 8), 0x7f | (s << 8)}
    raws |= {-1, -256, -(1 << 31), (1 << 31) - 1, 1 << 16, (1 << 16) + 256, 0xffff}
    for _ in range(2000 if tier == 'thorough' else 300):
        raws.add(rng.below(1 << 32) - (1 << 31))
    for r in sorted(raws):
        out.append([b'roundtrip'] + i32(r))
    return out


def st_code(st):
    return st[0][0] if st[0] else None


def st_sig(st):
    return st[1][0] if st[1] else None


def mon_status(case, out):
    vs = []
    try:
        if case[0] == b'to_local':
            c = un_i32(case[1], case[2])
            if 0 <= c < 256:
                if st_code(out) != c:
                    vs.append('remote exit code %d arrives as code()=%s signal()=%s' % (c, st_code(out), st_sig(out)))
                if bool(out[2]) != (c == 0):
                    vs.append('remote exit code %d: success()=%s' % (c, bool(out[2])))
                if st_sig(out) is not None:
                    vs.append('remote exit code %d is reported as signal %s' % (c, st_sig(out)))
        else:
            orig, srv, back = out
            if st_code(orig) is not None:
                if not srv or un_i32(srv[0], srv[1]) != st_code(orig):
                    vs.append('server side: exit code %s packed as %s' % (st_code(orig), srv))
                elif st_code(back) != st_code(orig) or st_sig(back) is not None:
                    vs.append('exit code %s comes back as code()=%s signal()=%s' % (st_code(orig), st_code(back), st_sig(back)))
                elif bool(back[2]) != (st_code(orig) == 0):
                    vs.append('exit code %s comes back with success()=%s' % (st_code(orig), bool(back[2])))
            else:
                if srv:
                    vs.append('a status without exit code was packed as %s instead of being refused' % srv)
    except Exception as e:  # malformed output
        vs.append('malformed status observation %r (%s)' % (out, e))
    return vs


# ------------------------------------------------------------------ leg fallback / request

def base_script(code=0, outs=None, local=None, pre=None, need=1):
    return [1, 1, b'ok', b'ok', [b'ok', need], b'ok',
            [b'complete'] + i32(code) + [outs if outs is not None else [[0, b'ok']]], b'ok',
            local if local is not None else [b'exit', 0, 0, [0]], pre or []]


GEN, DIST, PREP, PUT, ALLOC, SUBMIT, RUN, REWRITE, LOCAL, PRE = range(10)


def fault_variants(raw):
    """every single-fault script: stage x class (x output position x write failure kind)."""
    out = [('none', lambda s: s)]

    def setf(i, v):
        def f(s):
            s = list(s)
            s[i] = v
            return s
        return f
    for c in CLASSES:
        if raw:
            out.append(('prep:' + c.decode(), setf(PREP, c)))
        out.append(('put:' + c.decode(), setf(PUT, c)))
        out.append(('alloc:' + c.decode(), setf(ALLOC, [b'err', c])))
        out.append(('submit:' + c.decode(), setf(SUBMIT, [b'err', c])))
        out.append(('run:' + c.decode(), setf(RUN, [b'err', c])))
        if raw:
            out.append(('rewrite:' + c.decode(), setf(REWRITE, c)))
    out.append(('alloc:fail', setf(ALLOC, b'fail')))
    out.append(('submit:job_not_found', setf(SUBMIT, b'job_not_found')))
    out.append(('submit:cannot_cache', setf(SUBMIT, b'cannot_cache')))
    out.append(('run:job_not_found', setf(RUN, b'job_not_found')))
    out.append(('nodist', setf(DIST, 0)))
    if raw:
        out.append(('gen', setf(GEN, 0)))
    return out


def write_patterns(raw):
    pats = []
    paths = [0, 1, 2]
    for n in ([1, 2, 3] if raw else [1]):
        for k in range(n):
            for w in (b'create', b'copy', b'len'):
                outs = []
                for j in range(n):
                    if j == k:
                        outs.append([5 if (w == b'create' and raw) else paths[j], w])
                    else:
                        outs.append([paths[j], b'ok'])
                pats.append(outs)
    pats.append([])
    if raw:
        pats.append([[0, b'ok'], [1, b'ok']])
        pats.append([[1, b'ok'], [1, b'ok']])   # the same path twice
    return pats


def locals_(raw):
    ls = [b'spawn_err', [b'exit', 0, 0, [0]], [b'exit', 0, 256, []], [b'exit', 0, 9, []], [b'exit', 0, 0, []]]
    if raw:
        ls += [[b'exit', 0, 0, [0, 1]], [b'exit', 0, 256, [0]], [b'exit', 0, 139, [0]], [b'exit', 0, 128 << 8, []]]
    return ls


def gen_fallback_like(raw):
    def gen(rng, tier):
        out = []
        # pre-existing files: ( P KIND ), KIND 0 shorter / 1 as long as / 2 longer than what is written over them
        pres = [[], [[0, 2]], [[0, 0], [1, 1], [2, 2]], [[0, 1], [1, 2], [2, 2]]] if raw else [[], [[0, 2]]]
        codes = [0, 1, 128, 255] if raw else [0, 1, 128]
        for name, f in fault_variants(raw):
            for local in locals_(raw):
                for pre in pres:
                    for need in (1, 0):
                        cs = codes if name in ('none',) else [0]
                        for code in cs:
                            out.append(f(base_script(code, None, local, pre, need)))
        for outs in write_patterns(raw):
            for local in locals_(raw):
                for pre in pres:
                    if any(o[1] == b'create' and o[0] in [q[0] for q in pre] for o in outs):
                        continue
                    for code in ([0, 1] if raw else [0]):
                        out.append(base_script(code, outs, local, pre, 0))
                        if raw:
                            s = base_script(code, outs, local, pre, 0)
                            s[REWRITE] = b'other'
                            out.append(s)
        # multi-fault scripts
        n = (30000 if tier == 'thorough' else 4000) if raw else (3000 if tier == 'thorough' else 500)
        for _ in range(n):
            outs = []
            used = set()
            for _ in range(rng.below(4) if raw else rng.below(2)):
                w = rng.weighted([(b'ok', 6), (b'create', 1), (b'copy', 1), (b'len', 1)])
                p = rng.below(3) if raw else 0
                if w == b'create':
                    p = 5 + len(outs) if raw else 0
                if p in used and (w == b'create' or not raw):
                    continue
                used.add(p)
                outs.append([p, w])
            pre = [[p, rng.below(3)] for p in (0, 1, 2) if rng.chance(1, 3)] if raw else ([[0, rng.below(3)]] if rng.chance(1, 3) else [])
            if not raw and any(o[1] == b'create' for o in outs):
                pre = []

            def oc():
                return rng.weighted([(b'ok', 8), (b'http', 1), (b'toolarge', 1), (b'other', 1), (b'lruother', 1)])
            s = [1 if (not raw or rng.chance(15, 16)) else 0, 1 if rng.chance(9, 10) else 0,
                 oc() if raw else b'ok', oc(),
                 rng.weighted([([b'ok', 1], 5), ([b'ok', 0], 5), (b'fail', 1), ([b'err', rng.choice(CLASSES)], 1)]),
                 rng.weighted([(b'ok', 6), (b'job_not_found', 1), (b'cannot_cache', 1), ([b'err', rng.choice(CLASSES)], 1)]),
                 rng.weighted([([b'complete'] + i32(rng.choice([0, 0, 0, 1, 2, 127, 128, 129, 255])) + [outs], 8),
                               (b'job_not_found', 1), ([b'err', rng.choice(CLASSES)], 1)]),
                 oc() if raw else b'ok',
                 rng.choice(locals_(raw)), pre]
            out.append(s)
        return out
    return gen


def script_faults(case):
    """classes of injected errors that the code can reach before anything else stops it."""
    cls = set()
    for i in (PREP, PUT, REWRITE):
        if case[i] != b'ok':
            cls.add(case[i])
    for i in (ALLOC, SUBMIT, RUN):
        if isinstance(case[i], list) and case[i][0] == b'err':
            cls.add(case[i][1])
    return cls


def local_oracle(case):
    """what a purely local build answers: (OUT, ST or None)"""
    lc = case[LOCAL]
    if lc == b'spawn_err':
        return b'err_spawn', None
    raw = un_i32(lc[1], lc[2])
    return (b'ok' if raw == 0 else b'proc_err'), raw


def raw_code(raw):
    return (raw >> 8) & 0xff if raw & 0x7f == 0 else None


def mon_result(case, obs, request=False, before=None):
    vs = []
    out, dt, st, fsl, ran, src = obs
    fsd = dict((e[0], e[1]) for e in fsl)
    run = case[RUN]
    complete = isinstance(run, list) and run[0] == b'complete'
    lo, lraw = local_oracle(case)
    faults = script_faults(case)
    lw = case[LOCAL][3] if isinstance(case[LOCAL], list) else []
    okish = (b'ok', b'miss', b'compile_failed')
    if out == b'panic':
        vs.append('the request panicked (client sees a fatal error)')
    elif dt == b'dist_ok':
        if not (case[DIST] and complete):
            vs.append('reported as distributed although no job completed')
        else:
            code = un_i32(run[1], run[2])
            if 0 <= code < 256 and (st_code(st) != code or bool(st[2]) != (code == 0) or st_sig(st) is not None):
                vs.append('remote exit code %d reported to the client as code()=%s signal()=%s success()=%s'
                          % (code, st_code(st), st_sig(st), bool(st[2])))
            if src != b'remote':
                vs.append('distributed result does not carry the remote stdout/stderr')
            if any(o[1] != b'ok' for o in run[3]):
                vs.append('distributed compile reported as successful although writing an output failed')
    elif out in (b'err_http', b'err_toolarge'):
        want = b'http' if out == b'err_http' else b'toolarge'
        if want not in faults or not case[DIST]:
            vs.append('%s surfaced without such an error being injected' % out.decode())
        if ran:
            vs.append('%s: the local compiler was run although the error is reported' % out.decode())
    elif out == b'err_gen':
        if case[GEN]:
            vs.append('err_gen without a command generation failure')
    elif out == b'err_zip':
        # success reported but the object is missing: only legitimate when the compiler that ran did not write it
        # (a purely local build with such a compiler fails the same way)
        if ran:
            if 0 in lw or lraw != 0:
                vs.append('missing-object error although the local compiler wrote the object / did not succeed')
        elif not (case[DIST] and complete and all(o[1] == b'ok' for o in run[3]) and 0 not in [o[0] for o in run[3]]
                  and un_i32(run[1], run[2]) == 0):
            vs.append('missing-object error without a compiler having succeeded without output')
    else:
        # must be the local compiler's own result
        want_out = lo
        if request and lo == b'ok':
            want_out = b'miss'
        if out != want_out:
            vs.append('result class %s is neither the local compiler\'s (%s) nor a documented error' % (out.decode(), want_out.decode()))
        elif lraw is not None:
            if st_code(st) != raw_code(lraw) or bool(st[2]) != (lraw == 0):
                vs.append('local compiler status %d relayed as code()=%s success()=%s' % (lraw, st_code(st), bool(st[2])))
            if src != b'local':
                vs.append('local result does not carry the local stdout/stderr')
        if not ran:
            vs.append('local result reported but the local compiler was never run')
        if out in okish and case[DIST] and case[GEN] and dt != b'dist_error':
            vs.append('fallback not accounted as a failed distributed compile (DistType %s)' % dt.decode())
        if out in okish and not case[DIST] and dt != b'nodist':
            vs.append('local-only build accounted as %s' % dt.decode())
    # a failed distributed attempt with an "other" error must fall back
    if case[GEN] and case[DIST] and out not in (b'err_http', b'err_toolarge', b'panic', b'err_zip') and dt != b'dist_ok' and not ran:
        vs.append('distributed attempt failed but the local compiler was not run')
    # never exit 0 without the correct outputs
    exit0 = out in (b'ok', b'proc_err', b'miss', b'compile_failed') and st and st_code(st) == 0
    if exit0:
        if dt == b'dist_ok':
            if complete and un_i32(run[1], run[2]) % 256 != 0:
                vs.append('client exits 0 although the remote compiler exited %d' % un_i32(run[1], run[2]))
            for o in (run[3] if complete else []):
                if fsd.get(o[0]) != b'remote':
                    vs.append('client exits 0 but output %d holds %s' % (o[0], fsd.get(o[0])))
        else:
            if lraw is None or raw_code(lraw) != 0:
                vs.append('client exits 0 although the local compiler did not exit 0')
            for p in lw:
                if fsd.get(p) != b'local':
                    vs.append('client exits 0 but output %d holds %s' % (p, fsd.get(p)))
    # a failed or interrupted distributed job never leaves partial output files behind
    if dt != b'dist_ok':
        for p, c in fsd.items():
            # (a leftover 'symlink' is the harness's own File::create fault injector, not data of the job)
            # (in a history: unless it is what an earlier, completed job had put there)
            if c in (b'remote', b'partial') and not (before is not None and before.get(p) == c):
                vs.append('output %d (%s) of the failed distributed job is left behind' % (p, c.decode()))
    return vs


def mon_fallback(case, out):
    try:
        return mon_result(case, out)
    except Exception as e:
        return ['malformed fallback observation %r (%s)' % (out, e)]


def gen_request(rng, tier):
    """histories of requests: ( PP ( STEP ... ) ), STEP = script fields + VARIANT + CLEAN"""
    out = []

    def step(script, variant=0, clean=0, pre=None):
        s = list(script)
        s[PRE] = pre or []
        return s + [variant, clean]
    ok = base_script(0, [[0, b'ok']], [b'exit', 0, 0, [0]], [], 0)
    lcs = locals_(False)
    for pp in (0, 1):
        # a) every single fault, the request repeated (second one: hit if stored, else the same compile again)
        for name, f in fault_variants(False):
            for local in lcs:
                for code in ([0, 1, 128] if name == 'none' else [0]):
                    sc = f(base_script(code, None, local, [], 1))
                    out.append([pp, [step(sc), step(sc, 0, 1)]])
                    out.append([pp, [step(sc), step(sc), step(ok, 0, 1)]])
        for outs in write_patterns(False):
            for local in lcs:
                sc = base_script(0, outs, local, [], 0)
                out.append([pp, [step(sc), step(sc, 0, 1)]])
        # b) edit histories: the object of the previous build is still at the path (longer / shorter / equal)
        nodist = list(ok)
        nodist[DIST] = 0
        fb = list(ok)
        fb[RUN] = b'job_not_found'
        for a in (0, 1, 2):
            for b in (0, 1, 2):
                if a == b:
                    continue
                for second in (ok, fb, nodist):
                    for first in (ok, nodist):
                        out.append([pp, [step(first, a), step(second, b), step(second, b, 1), step(first, a)]])
        # c) pre-existing files of every length kind under every way of producing the object
        for k in (0, 1, 2):
            for sc in (ok, fb, nodist):
                for v in (0, 1, 2):
                    out.append([pp, [step(sc, v, 0, [[0, k]]), step(sc, v, 1, [[0, k]])]])
        # d) a first compile that fails (remotely / locally / falls back and fails), then the identical request
        rfail = base_script(1, [], [b'exit', 0, 256, []], [], 0)
        lfail = list(rfail)
        lfail[DIST] = 0
        ffail = list(rfail)
        ffail[RUN] = b'job_not_found'
        for first in (rfail, lfail, ffail):
            for second in (rfail, lfail, ffail, ok, nodist, fb):
                out.append([pp, [step(first), step(second)]])
                out.append([pp, [step(first), step(first), step(second), step(second, 0, 1)]])
    # e) PRNG histories
    single = gen_fallback_like(False)
    n = 1500 if tier == 'thorough' else 250
    pool = [c for c in single(rng, 'quick')]
    for _ in range(n):
        steps = []
        for _ in range(rng.range(2, 5)):
            sc = rng.choice(pool)
            v = rng.below(3) if rng.chance(1, 2) else 0
            pre = sc[PRE]
            if any(o[1] == b'create' for o in (sc[RUN][3] if isinstance(sc[RUN], list) and sc[RUN][0] == b'complete' else [])):
                pre = []
                clean = 1
            else:
                clean = 1 if rng.chance(1, 3) else 0
            steps.append(step(sc, v, clean, pre))
        out.append([rng.below(2), steps])
    return out


def mon_request(case, out):
    try:
        pp, steps = case
        vs = []
        if len(out) != len(steps):
            return ['malformed request observation %r' % (out,)]
        stored = {}
        disk = {}
        for i, (st, o) in enumerate(zip(steps, out)):
            cls, dt, status, fsl, ran, src, pprun, sent = o
            v = st[10]
            before = {} if st[11] else dict(disk)
            for q in st[PRE]:
                before[q[0] if isinstance(q, list) else q] = b'pre'
            disk = dict((e[0], e[1]) for e in fsl)
            where = 'request %d: ' % (i + 1)
            # what a job is sent is the complete preprocessed translation unit
            if sent != b'none' and sent != b'full':
                vs.append(where + 'the job was sent %s translation unit instead of the preprocessed source'
                          % ('an EMPTY' if sent == b'empty' else 'a wrong'))
            if cls == b'hit':
                if v not in stored:
                    vs.append(where + 'served from the cache although no successful compile of this source was stored')
                else:
                    c0, s0 = stored[v]
                    now = [e[1] for e in fsl if e[0] == 0]
                    if now != [c0]:
                        vs.append(where + 'cache hit restores %r, the compile had produced %r' % (now, c0))
                    if src != s0:
                        vs.append(where + 'cache hit replays %s output, the compile had %s' % (src, s0))
                if st_code(status) != 0 or not status[2]:
                    vs.append(where + 'cache hit with status %r' % (status,))
                if ran or sent != b'none':
                    vs.append(where + 'a compiler / job was run on a cache hit')
                continue
            if v in stored:
                vs.append(where + 'a stored result is not served from the cache (%s)' % cls.decode())
            vs += [where + x for x in mon_result(st, o[:6], request=True, before=before)]
            if cls == b'miss':
                stored[v] = ([e[1] for e in fsl if e[0] == 0] or [None])[0], src
        return vs
    except Exception as e:
        return ['malformed request observation %r (%s)' % (out, e)]


def stats_request(case, out):
    ks = ['pp=%d' % case[0], 'steps=%d' % len(case[1])]
    try:
        for st, o in zip(case[1], out):
            ks.append('class=%s/%s' % (o[0].decode()[:20], o[1].decode()))
            ks.append('sent=%s pprun=%d' % (o[7].decode(), o[6]))
            ks.append('variant=%d' % st[10])
            for q in st[PRE]:
                ks.append('prekind=%d' % (q[1] if isinstance(q, list) else 0))
    except Exception:
        pass
    return ks


def shrink_request(case):
    pp, steps = case
    for i in range(len(steps)):
        if len(steps) > 1:
            yield [pp, steps[:i] + steps[i + 1:]]
    for i, st in enumerate(steps):
        for c in shrink_script(st[:10]):
            yield [pp, steps[:i] + [c + st[10:]] + steps[i + 1:]]


def neighbours_request(case):
    pp, steps = case
    yield [1 - pp, steps]
    for i, st in enumerate(steps):
        for k in (0, 1, 2):
            c = list(st)
            c[PRE] = [[0, k]]
            yield [pp, steps[:i] + [c] + steps[i + 1:]]
        for c in neighbours_script(st[:10]):
            yield [pp, steps[:i] + [c + st[10:]] + steps[i + 1:]]
    yield [pp, steps + steps]


# ------------------------------------------------------------------ leg toolchain

def gen_toolchain(rng, tier):
    import itertools
    out = []
    lc_ok = [b'exit', 0, 0, [0]]
    alpha = [[b'request', 1, lc_ok], [b'request', 0, lc_ok], b'restart', [b'request', 1, b'spawn_err']]
    for limit, size in ((1000, 5000), (4999, 5000), (0, 1), (5000, 5000), (10000, 5000), (1 << 40, 7)):
        for n in (1, 2, 3, 4):
            for ops in itertools.product(alpha, repeat=n):
                if n == 4 and tier != 'thorough' and ops[0] == b'restart':
                    continue
                if all(o == b'restart' for o in ops):
                    continue
                out.append([limit, size, list(ops)])
    return out


def mon_toolchain(case, out):
    try:
        limit, size, ops = case
        vs = []
        for i, (op, o) in enumerate(zip(ops, out)):
            (weak, arch), r = o
            where = 'op %d %s: ' % (i + 1, 'restart' if op == b'restart' else 'request')
            if size > limit:
                if weak:
                    vs.append(where + 'the toolchain is recorded as available although it does not fit the cache')
                if op != b'restart':
                    if r[0] != b'err_toolarge':
                        vs.append(where + 'the toolchain cache (%d bytes) is too small for the toolchain (%d bytes) but the '
                                  'request is not reported as that error: %s/%s%s'
                                  % (limit, size, r[0].decode(), r[1].decode(), ' (silent local fallback)' if r[4] else ''))
                    if r[4]:
                        vs.append(where + 'local compiler run although the toolchain cache error must be reported')
            else:
                if op != b'restart':
                    if r[1] != b'dist_ok':
                        vs.append(where + 'the toolchain fits but the request was not compiled remotely: %s/%s' % (r[0].decode(), r[1].decode()))
                    if weak != arch or not arch:
                        vs.append(where + 'weak map / toolchain cache inconsistent: weak=%d archive=%d' % (weak, arch))
        return vs
    except Exception as e:
        return ['malformed toolchain observation %r (%s)' % (out, e)]


def stats_script(case, out):
    ks = []
    try:
        for nm, i in (('prep', PREP), ('put', PUT), ('rewrite', REWRITE)):
            ks.append('%s=%s' % (nm, case[i].decode()))
        for nm, i in (('alloc', ALLOC), ('submit', SUBMIT), ('run', RUN)):
            v = case[i]
            ks.append('%s=%s' % (nm, (v[0] + b':' + (v[1] if v[0] == b'err' else b'')).decode() if isinstance(v, list) else v.decode()))
        if isinstance(case[RUN], list) and case[RUN][0] == b'complete':
            for o in case[RUN][3]:
                ks.append('write=' + o[1].decode())
        lc = case[LOCAL]
        ks.append('local=%s' % ('spawn_err' if lc == b'spawn_err' else 'raw%d' % lc[2]))
        o = out[0] if isinstance(out[0], list) else out
        ks.append('out=%s/%s' % (o[0].decode()[:24], o[1].decode()))
    except Exception:
        pass
    return ks


def shrink_script(case):
    for i, v in ((PREP, b'ok'), (PUT, b'ok'), (REWRITE, b'ok'), (SUBMIT, b'ok'), (ALLOC, [b'ok', 0]), (PRE, [])):
        if case[i] != v:
            c = list(case)
            c[i] = v
            yield c
    run = case[RUN]
    if isinstance(run, list) and run[0] == b'complete':
        for k in range(len(run[3])):
            c = list(case)
            c[RUN] = run[:3] + [run[3][:k] + run[3][k + 1:]]
            yield c


def neighbours_script(case):
    for code in (0, 1, 2, 127, 128, 255):
        c = list(case)
        if isinstance(c[RUN], list) and c[RUN][0] == b'complete':
            c[RUN] = [b'complete'] + i32(code) + [c[RUN][3]]
            yield c
    for cl in CLASSES:
        for i in (PUT,):
            c = list(case)
            c[i] = cl
            yield c
        for i in (ALLOC, SUBMIT, RUN):
            c = list(case)
            c[i] = [b'err', cl]
            yield c
    for w in (b'copy', b'len'):
        for outs in ([[0, w]], [[0, b'ok'], [1, w]], [[0, b'ok'], [1, b'ok'], [2, w]]):
            c = list(case)
            c[RUN] = [b'complete', 0, 0, outs]
            c[ALLOC] = [b'ok', 0]
            yield c


# ------------------------------------------------------------------ leg args

PRE_A = [b'-DPRE=1', b'-Iinc', b'-include', b'pre.h']
DEP_A = [b'-MD', b'-MF', b'dep.d']
UNH_A = [b'-fno-unhashed', b'--unhashed=1']
COM_A = [b'-O2', b'-fPIC', b'-std=c11', b'-mfoo']
ARCH_A = [b'-arch', b'arm64']
BAD = b'caf\xe9'       # not UTF-8
OKU = 'café'.encode()


def args_case(gcc=1, rio=0, lang=b'C', dd=0, sup=0, cflag=b'-c', inp=b'foo.c', out=(b'foo.o',), pre=(), dep=(), unh=(),
              com=(), arch=(), exe=b'/usr/bin/cc', cwd=b'/work/dir', env=()):
    return [gcc, rio, lang, dd, sup, cflag, inp, [o for o in out], list(pre), list(dep), list(unh), list(com), list(arch),
            exe, cwd, [list(kv) for kv in env]]


def gen_args(rng, tier):
    out = []
    for gcc in (1, 0):
        for rio in (0, 1):
            for lang in LANGS:
                for sup in (0, 1):
                    out.append(args_case(gcc, rio, lang, 0, sup, pre=PRE_A, dep=DEP_A, unh=UNH_A, com=COM_A))
                    out.append(args_case(gcc, rio, lang, 1, sup, com=COM_A, arch=ARCH_A))
    out.append(args_case(out=()))
    out.append(args_case(com=[b'-v']))
    out.append(args_case(pre=[b'--verbose']))
    out.append(args_case(unh=[b'-v']))
    out.append(args_case(cwd=b'relative/dir'))
    out.append(args_case(cwd=b''))
    for fld in ('cflag', 'inp', 'exe', 'cwd'):
        out.append(args_case(**{fld: b'/' + BAD}))
        out.append(args_case(**{fld: b'/' + OKU}))
    for fld in ('pre', 'dep', 'unh', 'com', 'arch'):
        out.append(args_case(**{fld: [b'-x' + BAD]}))
        out.append(args_case(**{fld: [b'-y' + OKU]}))
    out.append(args_case(out=(b'o' + BAD,)))
    out.append(args_case(env=[(b'K', BAD)]))
    out.append(args_case(env=[(BAD, b'v')]))
    out.append(args_case(env=[(b'LANG', b'C'), (OKU, OKU)]))
    n = 30000 if tier == 'thorough' else 4000

    def word(pool):
        if rng.chance(1, 25):
            return rng.choice([b'-v', b'--verbose', b'-x' + BAD, b'\xf0\x9f\x98\x80', b'\xed\xa0\x80', b'\xc0\xaf',
                               b'\xf4\x90\x80\x80', b'\xe0\x9f\xbf', b'\xef\xbf\xbf', b'\xf0\x8f\xbf\xbf', b'\xc2',
                               b'\xe1\x80', b'\x80'])
        return rng.choice(pool)
    for _ in range(n):
        def some(pool, k):
            return [word(pool) for _ in range(rng.below(k + 1))]
        out.append(args_case(rng.below(2), rng.below(2), rng.choice(LANGS), rng.below(2), rng.below(2),
                             rng.choice([b'-c', b'-S', b'-emit-llvm']), rng.choice([b'foo.c', b'src/a b.cpp', b'/abs/x.m', OKU]),
                             (rng.choice([b'foo.o', b'out/x.o', b'/abs/x.o']),) if rng.chance(19, 20) else (),
                             some(PRE_A, 3), some(DEP_A, 3), some(UNH_A, 2), some(COM_A, 4),
                             ARCH_A * rng.below(3) if rng.chance(1, 3) else [],
                             rng.choice([b'/usr/bin/gcc', b'/opt/llvm/bin/clang', b'cc']),
                             rng.choice([b'/work', b'/w/' + OKU, b'rel']) if rng.chance(1, 5) else b'/work/dir',
                             [(b'LANG', b'C')] if rng.chance(1, 2) else []))
    return out


def mon_args(case, out):
    vs = []
    try:
        gcc, rio, lang, dd, sup, cflag, inp, outp, pre, dep, unh, com, arch, exe, cwd, env = case
        if out == b'err':
            if outp:
                vs.append('command generation failed although an object output is declared')
            return vs
        local, dist = out
        for a in pre + dep + unh + com + arch + [inp, cflag] + outp:
            if a not in local:
                vs.append('local command lost the argument %r' % a)
        if not dist:
            return vs
        dexe, dargs, denv, dcwd = dist[0]
        # shape: -x <lang>, compilation flag, input, -o, output, [-fdirectives-only] -fpreprocessed, hashed args
        rest = list(dargs)
        if rest[:1] == [b'-x']:
            xl = rest[1]
            rest = rest[2:]
            if xl not in KNOWN_X:
                vs.append('remote -x value %r is not a language gcc/clang know' % xl)
            if not rio and lang not in (b'GenericHeader', b'CHeader', b'CxxHeader', b'ObjectiveCxxHeader') and not xl.endswith(b'cpp-output'):
                vs.append('remote side is told to preprocess again: -x %r for preprocessed input' % xl)
        if rest[:4] != [cflag, inp, b'-o'] + outp:
            vs.append('remote command does not start with flag/input/-o/output: %r' % rest[:4])
        rest = rest[4:]
        if gcc:
            if rio and not sup:
                if rest[:1] != [b'-fdirectives-only']:
                    vs.append('gcc with rewrite_includes_only lacks -fdirectives-only')
                rest = rest[1:]
            if rest[:1] != [b'-fpreprocessed']:
                vs.append('gcc remote command lacks -fpreprocessed')
            rest = rest[1:]
        if rest != com + arch:
            vs.append('remote arguments %r are not exactly the hashed arguments %r' % (rest, com + arch))
        hashed = set(com + arch)
        for a in pre + dep + unh:
            if a in dargs and a not in hashed and a not in (cflag, inp, b'-o') + tuple(outp):
                vs.append('preprocessor/dependency/unhashed argument %r is sent to the remote compiler' % a)
        if b'-v' in local or b'--verbose' in local or lang == b'Cuda':
            vs.append('a verbose or CUDA compile is distributed')
    except Exception as e:
        vs.append('malformed args observation %r (%s)' % (out, e))
    return vs


def stats_args(case, out):
    ks = ['kind=%s' % ('gcc' if case[0] else 'clang'), 'rio=%d' % case[1], 'lang=' + case[2].decode()]
    ks.append('dist=%s' % ('err' if out == b'err' else ('some' if out[1] else 'none')))
    return ks


def shrink_args(case):
    for i in (8, 9, 10, 11, 12, 15):
        for k in range(len(case[i])):
            c = list(case)
            c[i] = case[i][:k] + case[i][k + 1:]
            yield c


def neighbours_args(case):
    for lang in LANGS:
        for gcc in (0, 1):
            for rio in (0, 1):
                c = list(case)
                c[0], c[1], c[2] = gcc, rio, lang
                yield c
    c = list(case)
    c[12] = ARCH_A
    yield c


# ------------------------------------------------------------------ leg rustinputs

CTYS = [b'lib', b'rlib', b'staticlib', b'bin', b'dylib', b'cdylib', b'proc-macro']
NEEDS_OBJ = {b'staticlib', b'bin', b'dylib', b'cdylib', b'proc-macro'}


def gen_rustinputs(rng, tier):
    import itertools
    out = []
    cacheable = [b'lib', b'rlib', b'staticlib']
    vals = [[t] for t in cacheable] + [list(p) for p in itertools.permutations(cacheable, 2)] + \
           [[b'rlib', b'rlib'], [b'staticlib', b'staticlib'], [b'staticlib', b'rlib', b'lib']]
    # every sequence of 1..3 options over these values (all orders, comma forms, repetitions, mixes), both spellings
    for n in (1, 2, 3):
        for seq in itertools.product(vals, repeat=n):
            if n == 3 and tier != 'thorough' and sum(len(v) for v in seq) > 4:
                continue
            for spell in ((0,) * n, (1,) * n, tuple(i % 2 for i in range(n))):
                opts = [[sp] + v for sp, v in zip(spell, seq)]
                out.append([opts, 0, 0])
                if spell == (0,) * n:
                    out.append([opts, 0, 1])
                    out.append([opts, 1, 0])
                    out.append([opts, 0, 2])
    for t in CTYS:
        for u in CTYS:
            out.append([[[0, t], [0, u]], 0, 1])
            out.append([[[1, t, u]], 0, 0])
    out.append([[], 0, 0])
    for _ in range(3000 if tier == 'thorough' else 300):
        opts = [[rng.below(2)] + [rng.choice(CTYS if rng.chance(1, 6) else cacheable) for _ in range(rng.range(1, 3))]
                for _ in range(rng.range(1, 5))]
        out.append([opts, 1 if rng.chance(1, 5) else 0, rng.below(3)])
    return out


def mon_rustinputs(case, out):
    opts, sibling, kind = case
    tys = set(t for o in opts for t in o[1:])
    vs = []
    if out == b'no_rustc':
        return vs
    if out in (b'panic', b'error', b'other'):
        vs.append('packaging the inputs failed / produced a damaged rlib: %s' % out.decode())
    if out == b'missing':
        vs.append('the dependency rlib is not among the inputs sent to the build server')
    if tys & NEEDS_OBJ and out not in (b'uncacheable', b'complete'):
        vs.append('crate types %s need object code, but the dependency rlib sent to the build server is %s (not byte-identical '
                  'to the file on disk)' % (sorted(t.decode() for t in tys), out.decode()))
    if out == b'uncacheable' and tys and not (tys - {b'lib', b'rlib', b'staticlib'}):
        vs.append('a plain rlib/staticlib request was refused as uncacheable')
    return vs


# ------------------------------------------------------------------ leg simplify

def gen_simplify(rng, tier):
    """directory trees with symbolic links x paths with `..` / `.`; `..` never climbs above the scratch root and every
    directory a path walks through exists (the contract is about paths that name a file)."""
    out = []
    DD, DOT = b'dotdot', b'dot'
    trees = [
        # (links, dirs)
        ([], [[b'proj', b'a'], [b'proj', b'b', b'c']]),
        ([[[b'proj', b'link'], [DD, b'real', b'gen']]], [[b'proj', b'a'], [b'real', b'gen', b'x']]),
        ([[[b'proj', b'link'], [b'root', b'real', b'gen']]], [[b'proj', b'a'], [b'real', b'gen', b'x']]),
        ([[[b'proj', b'a', b'l2'], [DD, DD, b'real']]], [[b'proj', b'a'], [b'real', b'gen', b'x']]),
        ([[[b'proj', b'link'], [b'a']]], [[b'proj', b'a', b'x']]),
        ([[[b'proj', b'link'], [DD, b'real', b'gen']], [[b'real', b'gen', b'back'], [b'root', b'proj']]],
         [[b'proj', b'a'], [b'real', b'gen', b'x']]),
    ]
    # which names are directories below a given real/linked directory, for walking
    def subdirs(links, dirs, at):
        # at: canonical tuple; returns child names (dirs and links)
        kids = set()
        for d in dirs:
            for i in range(len(d)):
                if tuple(d[:i]) == at:
                    kids.add(d[i])
        for l in links:
            if tuple(l[0][:-1]) == at:
                kids.add(l[0][-1])
        return sorted(kids)

    def canon(links, at, comp):
        # one kernel step from canonical dir `at`
        if comp == DD:
            return at[:-1]
        if comp == DOT:
            return at
        p = at + (comp,)
        for l in links:
            if tuple(l[0]) == p:
                t = l[1]
                cur = () if t and t[0] == b'root' else at
                for c in (t[1:] if t and t[0] == b'root' else t):
                    cur = canon(links, cur, c)
                return cur
        return p

    def walk_paths(links, dirs, maxlen):
        res = []

        def rec(path, at, lexdepth):
            if len(path) >= 1:
                res.append(path + [b'foo.c'])
            if len(path) >= maxlen:
                return
            for k in subdirs(links, dirs, at):
                rec(path + [k], canon(links, at, k), lexdepth + 1)
            if lexdepth > 0 and len(at) > 0:
                rec(path + [DD], canon(links, at, DD), lexdepth - 1)
            if path and path[-1] != DOT:
                rec(path + [DOT], at, lexdepth)
        rec([], (), 0)
        return res
    for links, dirs in trees:
        for pth in walk_paths(links, dirs, 5 if tier == 'thorough' else 4):
            out.append([links, dirs, pth])
    return out


def mon_simplify(case, out):
    vs = []
    if out == b'refused':
        return vs          # refused paths are compiled locally
    if out == b'panic' or not isinstance(out, list) or len(out) != 2:
        return ['simplify_path failed: %r' % (out,)]
    q, same = out
    if not same:
        vs.append('the input path %s is simplified to %s, which is not the same file (the archive entry is named after the '
                  'simplified path, the compile command uses the original one)'
                  % (b'/'.join(case[2]).decode(), b'/'.join(x if isinstance(x, bytes) else str(x).encode() for x in q).decode()))
    if any(c in (b'..', b'.') for c in q if isinstance(c, bytes)):
        vs.append('the simplified path still contains . or ..')
    return vs


# ------------------------------------------------------------------ leg rustdeps

def gen_rustdeps(rng, tier):
    import itertools
    P = b'package'
    b1, b0, d1, d0 = [b'build', b'bdep', 1], [b'build', b'bdep', 0], [b'build', b'ddep', 1], [b'build', b'ddep', 0]
    out = [
        [P, b1, P], [P, b1, P, b0, P], [b1, P], [P, d1, P], [P, b1, P, d1, P, b0, P, d0, P], [P, P, b1, P, P], [P],
        [P, b0, P], [b1, P, b0, P, b1, P],
    ]
    if tier == 'thorough':
        for seq in itertools.product([b1, b0, d1], repeat=2):
            out.append([P] + [x for o in seq for x in (o, P)])
    return out


def mon_rustdeps(case, out):
    vs = []
    if out == b'no_rustc':
        return vs
    uses = {b'bdep': 0, b'ddep': 0}
    try:
        for i, (op, o) in enumerate(zip(case, out)):
            if isinstance(op, list):
                uses[op[1]] = op[2]
                if o != b'ok':
                    vs.append('op %d: rebuilding %s failed' % (i + 1, op[1].decode()))
            elif op == b'package':
                if not isinstance(o, list) or (o and o[0] == b'err'):
                    vs.append('op %d: packaging top\'s inputs failed: %r' % (i + 1, o))
                    continue
                for need in [b'libbdep-2222.rlib', b'libddep-4444.rlib'] + ([b'libcdep-1111.rlib'] if any(uses.values()) else []):
                    if need not in o:
                        vs.append('op %d: %s is needed by the remote rustc (a dependency\'s metadata names it now) but is not '
                                  'in the inputs archive %s' % (i + 1, need.decode(), [x.decode() for x in o]))
    except Exception as e:
        vs.append('malformed rustdeps observation %r (%s)' % (out, e))
    return vs


# ------------------------------------------------------------------ translator, legs routes / aliases

_ROUTES = {'table': None}


def translate(rep):
    from translator import c13_routes
    from .. import pipeline
    try:
        _ROUTES['table'] = c13_routes.write(pipeline.REPO, pipeline.COQ)
        rep.oblige('translate:c13_routes', True, '%d route stages' % len(_ROUTES['table']))
    except Exception as e:   # unrecognisable source = broken obligation (a stale Gen file is kept)
        rep.oblige('translate:c13_routes', False, repr(e))


def route_table():
    if _ROUTES['table'] is None:
        from translator import c13_routes
        from .. import pipeline
        _ROUTES['table'] = c13_routes.read(pipeline.REPO)
    return _ROUTES['table']


CLIENT_ROUTES = ('alloc_job', 'submit_toolchain', 'run_job')


def gen_routes(rng, tier):
    """one request per stage of every route the client talks to, as the tree's src/dist/http.rs answers it, plus the
    neighbouring status codes"""
    out = []
    lcs = [[b'exit', 0, 0, [0]], [b'exit', 0, 256, []], b'spawn_err']
    for r, k, c in route_table():
        if r in CLIENT_ROUTES:
            for lc in lcs:
                out.append([r.encode(), k.encode(), c, lc])
    for r in CLIENT_ROUTES:
        for c in (400, 401, 403, 404, 408, 429, 499, 500, 502, 503, 504):
            out.append([r.encode(), b'probe', c, lcs[0]])
    return out


def mon_routes(case, out):
    r, kind, code, lc = case
    vs = []
    try:
        o, dt, st, fsl, ran, src = out
        lo, lraw = local_oracle([1, 1, b'ok', b'ok', [b'ok', 1], b'ok', b'x', b'ok', lc, []])
        if kind in (b'handler', b'internal'):
            # a fault of the scheduler / build server itself, not of the request: must be absorbed by falling back
            if not ran or o != lo:
                vs.append('the %s route answers a failure of its own %s with status %d and the request ends as %s instead '
                          'of being compiled locally (%s)' % (r.decode(), kind.decode(), code, o.decode(), lo.decode()))
        if o == b'err_http' and not (400 <= code < 500):
            vs.append('status %d surfaced as an HTTP client error' % code)
        if o == b'panic':
            vs.append('panic')
    except Exception as e:
        vs.append('malformed routes observation %r (%s)' % (out, e))
    return vs


def gen_aliases(rng, tier):
    import itertools
    out = []
    for n in (1, 2, 3):
        for seq in itertools.product((0, 1, 2, 3), repeat=n):
            out.append(list(seq))
    for _ in range(200 if tier == 'thorough' else 20):
        out.append([rng.below(4) for _ in range(rng.range(3, 7))])
    return out


def mon_aliases(case, out):
    vs = []
    names = ['gcc', 'cc -> gcc', 'gcc-12 -> gcc', 'gcc2 (copy)']
    try:
        for i, (a, o) in enumerate(zip(case, out)):
            cls, dt, m = o
            if m == [0]:
                vs.append('request %d (compiler `%s`): the job was run in a toolchain that was packaged for another name of the '
                          'compiler and does not contain the executable it runs' % (i + 1, names[a]))
            if cls != b'miss' or dt != b'dist_ok':
                vs.append('request %d (compiler `%s`) ended as %s/%s; the same source compiles under every other name'
                          % (i + 1, names[a], cls.decode(), dt.decode()))
    except Exception as e:
        vs.append('malformed aliases observation %r (%s)' % (out, e))
    return vs


# ------------------------------------------------------------------ legs

def legs(tier):
    # C13_ORIG=1: compare with the models of the pinned commit (to replay the pre-fix witnesses against a pre-fix tree)
    suffix = '_orig' if os.environ.get('C13_ORIG') == '1' else ''
    ls = _legs(tier)
    for l in ls:
        l.model_leg = l.name + suffix
    return ls


def _legs(tier):
    return [
        Leg('status', gen_status, monitor=mon_status,
            nontrivial=lambda case, out: True,
            stats=lambda case, out: [case[0].decode()],
            neighbours=lambda case: ([[b'to_local'] + i32(c) for c in range(256)]),
            rule='exhaustive: every remote exit code 0..255 (plus out-of-range i32 values) through the real '
                 'ProcessOutput -> process::Output conversion; server->client round trip for every exited status c<<8, '
                 'every signal 1..127 (with/without core flag), stopped statuses, raw 0..1023 (0..65535 thorough) and random i32'),
        Leg('fallback', gen_fallback_like(True), monitor=mon_fallback, stats=stats_script,
            shrink=shrink_script, neighbours=neighbours_script,
            nontrivial=lambda case, out: True,
            rule='exhaustive single faults: stage (packagers, put_toolchain, alloc_job incl. Fail, submit_toolchain incl. '
                 'JobNotFound/CannotCache, run_job incl. JobNotFound, each output position x create/copy/length failure, '
                 'rewrite) x error class (4xx, FileTooLarge, other) x local outcome (spawn error, exit 0/1/128, signals, '
                 'with/without outputs) x need_toolchain x pre-existing files (shorter / as long as / longer than the data written over them; listing is byte-exact) x remote exit code; plus PRNG multi-fault scripts'),
        Leg('request', gen_request, monitor=mon_request, stats=stats_request,
            shrink=shrink_request, neighbours=neighbours_request,
            nontrivial=lambda case, out: True, shards=16,
            rule='histories of 2-4 requests through the real get_cached_or_compile of a gcc CCompilation with a real '
                 'DiskCache, preprocessor cache mode off AND on: every single fault repeated, edit histories over three '
                 'source variants whose objects differ in length (previous object still at the path), pre-existing files '
                 'shorter/equal/longer, failing first compiles (remote, local, fallback) followed by the identical request, '
                 'PRNG histories; the scripted build server records the translation unit it is sent; outputs are compared '
                 'byte for byte'),
        Leg('toolchain', gen_toolchain, monitor=mon_toolchain,
            stats=lambda case, out: ['fits=%d' % (case[1] <= case[0]), 'ops=%d' % len(case[2])],
            shrink=lambda case: ([case[0], case[1], case[2][:i] + case[2][i + 1:]] for i in range(len(case[2])) if len(case[2]) > 1),
            nontrivial=lambda case, out: len(case[2]) > 1,
            rule='the real dist::ClientToolchains (toolchain cache + weak map on disk) behind the scripted client: every '
                 'sequence of up to 4 requests (need_toolchain yes/no, local compiler ok/unstartable) and client restarts x '
                 '6 limit/size pairs (too small, exactly fitting, ample)'),
        Leg('rustinputs', gen_rustinputs, monitor=mon_rustinputs,
            stats=lambda case, out: ['out=' + (out.decode() if isinstance(out, bytes) else '?'), 'nopts=%d' % len(case[0]), 'kind=%d' % case[2]],
            shrink=lambda case: ([case[0][:i] + case[0][i + 1:], case[1], case[2]] for i in range(len(case[0]))),
            neighbours=lambda case: ([list(p), case[1], case[2]] for p in __import__('itertools').permutations(case[0])),
            nontrivial=lambda case, out: len(case[0]) > 1,
            rule='the real rust parse_arguments + RustInputsPackager::write_inputs: every sequence of 1-3 --crate-type options '
                 'over all single values, ordered pairs and repeated/mixed comma lists of lib/rlib/staticlib in both spellings, '
                 'every pair of the seven crate types, PRNG lists; dependency rlib = hand-made ar with rust.metadata.bin, a real '
                 'rlib built by the installed rustc, or an archive without metadata; with/without a sibling .a'),
        Leg('simplify', gen_simplify, monitor=mon_simplify,
            stats=lambda case, out: ['out=%s' % ('refused' if out == b'refused' else 'path'), 'links=%d' % len(case[0]),
                                     'dotdot=%d' % sum(1 for c in case[2] if c == b'dotdot')],
            shrink=lambda case: ([case[0], case[1], case[2][:i] + case[2][i + 1:]] for i in range(len(case[2]))),
            nontrivial=lambda case, out: b'dotdot' in case[2],
            rule='the real dist::pkg::simplify_path on real directory trees (6 layouts: no links, relative / absolute links '
                 'to directories, nested, link to a sibling, links in both directions) x every path of up to 4 (5 thorough) '
                 'components over the directories, links, `..` and `.` that stays inside the tree; the harness asks the '
                 'kernel (canonicalize) whether the result names the same file'),
        Leg('rustdeps', gen_rustdeps, monitor=mon_rustdeps, shards=9,
            stats=lambda case, out: ['ops=%d' % len(case)],
            nontrivial=lambda case, out: len(case) > 1,
            rule='edit histories of a cargo-style workspace top -> {bdep, ddep} -> cdep built with the installed rustc; the '
                 'inputs of top packaged by the real Rust::new / parse_arguments / generate_hash_key / into_dist_packagers / '
                 'write_inputs with ONE compiler object (one RlibDepReader cache) per history; bdep / ddep are rebuilt to the '
                 'same path with or without a reference to cdep'),
        Leg('rustnames',
            lambda rng, tier: [[n] for n in (b'cdep', b'libutil', b'lib_sys', b'liblzma_shim', b'liblib', b'libc', b'lib',
                                             b'xlib', b'li', b'blib', b'libliblibz')],
            monitor=lambda case, out: ([] if out == b'no_rustc' else
                                       (['packaging failed: %r' % (out,)] if not (isinstance(out, list) and len(out) == 3 and all(isinstance(x, int) for x in out)) else
                                        ['the library lib%s-1111.rlib of crate `%s`, which bdep\'s metadata names, is not in the inputs '
                                         'archive sent to the build server' % (case[0].decode(), case[0].decode())] * (0 if out[2] else 1)
                                        + ['an extern rlib is missing from the inputs archive'] * (0 if out[0] and out[1] else 1))),
            shards=11, stats=lambda case, out: ['name=' + case[0].decode()],
            nontrivial=lambda case, out: case[0].startswith(b'lib'),
            rule='the rustdeps workspace with the transitive dependency called cdep, libutil, lib_sys, liblzma_shim, liblib, libc, '
                 'lib, xlib, li, blib, libliblibz: built with the installed rustc, packaged by the real Rust::new .. write_inputs'),
        Leg('routes', gen_routes, monitor=mon_routes, shards=8,
            stats=lambda case, out: ['route=%s/%s/%d' % (case[0].decode(), case[1].decode(), case[2])],
            nontrivial=lambda case, out: case[1] != b'probe',
            rule='for every stage of the routes the client talks to, AS READ FROM src/dist/http.rs by translator/c13_routes.py '
                 '(plus 11 probe statuses per route): alloc_job through the REAL dist::http::Client against a stub scheduler on '
                 'localhost answering that status, submit_toolchain / run_job through the scripted client with the error class '
                 'of that status; then the real dist_or_local_compile x 3 local outcomes'),
        Leg('aliases', gen_aliases, monitor=mon_aliases, shards=16,
            stats=lambda case, out: ['n=%d' % len(case)],
            shrink=lambda case: (case[:i] + case[i + 1:] for i in range(len(case)) if len(case) > 1),
            nontrivial=lambda case, out: len(set(case)) > 1,
            rule='every sequence of up to 3 requests (plus PRNG sequences of 3-6) over four names of one compiler binary (gcc, '
                 'two symlinks to it, a copy) through ONE real ClientToolchains: real compiler detection, C hasher (weak '
                 'toolchain key), get_cached_or_compile; the scripted build server only runs executables its toolchain contains'),
        Leg('args', gen_args, monitor=mon_args, stats=stats_args, shrink=shrink_args, neighbours=neighbours_args,
            nontrivial=lambda case, out: out != b'err' and bool(out[1]),
            rule='exhaustive gcc/clang x rewrite_includes_only x 14 languages x suppress x double-dash with all argument '
                 'classes populated, edge cases (missing output, -v/--verbose in each class, relative cwd, non-UTF-8 in '
                 'each field) + PRNG argument lists incl. malformed UTF-8; non-trivial = a remote command is produced'),
    ]


# ------------------------------------------------------------------ extra: the -x names against the installed compilers

def extra(rep, known):
    """Every `-x` value the model can put on a remote command line is accepted by the installed clang and gcc
    ("language not recognized" is the failure of the pre-fix objective-c++-header-cpp-output)."""
    # side condition of C13_route_handler_faults_fall_back over the regenerated route table (after the legs, so that a tree
    # that breaks it has already been searched for a concrete failing request)
    from .. import pipeline
    ok, o = pipeline.coq_make(['theories/Gen/C13Routes_ok.vo'])
    rep.oblige('side-condition:routes_ok (Gen/C13Routes_ok.v)', ok, o[-1500:] if not ok else 'vm_compute')

    bad = []
    tried = 0
    with tempfile.TemporaryDirectory(dir='/dev/shm') as d:
        src = os.path.join(d, 'x.i')
        open(src, 'w').write('int f(void);\n')
        for cc in ('clang', 'gcc'):
            for x in KNOWN_X:
                try:
                    p = subprocess.run([cc, '-x', x.decode(), '-fsyntax-only', src], stdout=subprocess.PIPE,
                                       stderr=subprocess.STDOUT, timeout=60)
                except (OSError, subprocess.TimeoutExpired):
                    continue
                tried += 1
                txt = p.stdout.decode('utf-8', 'replace')
                if 'not recognized' in txt and not (cc == 'gcc' and x in (b'cu', b'cuda', b'cuda-cpp-output', b'hip', b'hip-cpp-output')) \
                        and not (cc == 'clang' and x == b'cu'):
                    bad.append('%s -x %s: %s' % (cc, x.decode(), txt.strip()[:120]))
    rep.oblige('extra:known-x-languages-accepted-by-installed-compilers', not bad,
               '; '.join(bad) if bad else '%d compiler invocations' % tried)
    rep.count('extra.x-lang-probes', tried)
